// Instantiation TU for the built-in container bindings: calls the real registration functions so that every
// callable they register (lambdas, detail::insert_at/erase_at, Bidir_Range members) is emitted.
#include <chaiscript/chaiscript_basic.hpp>
#include <chaiscript/dispatchkit/bootstrap_stl.hpp>
using namespace chaiscript;
extern "C" void verif_register_stl(Module &m) {
  bootstrap::standard_library::vector_type<std::vector<Boxed_Value>>("Vector", m);
  bootstrap::standard_library::string_type<std::string>("string", m);
}
