// Instantiation TU for file loading: ChaiScript_Basic::load_file / skip_bom (static members) and use()/eval_file plumbing.
#include <chaiscript/chaiscript_basic.hpp>
using namespace chaiscript;
volatile void *verif_sink2;
template<typename F> static void use_(F f) { static F keep; keep = f; verif_sink2 = &keep; }
extern "C" void verif_force_files() {
  use_(&ChaiScript_Basic::load_file); use_(&ChaiScript_Basic::skip_bom);
  use_(&ChaiScript_Basic::use); use_(&ChaiScript_Basic::internal_eval_file);
}
