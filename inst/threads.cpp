// Instantiation TU for per-thread engine state: every member of Thread_Storage<Stack_Holder>.
#include <chaiscript/chaiscript_basic.hpp>
template class chaiscript::detail::threading::Thread_Storage<chaiscript::detail::Stack_Holder>;
