// Compiled natively (g++) and run on every check: offsets/sizes/enum values come from the compiler, never from
// hand-written mirrors. A renamed member makes this fail to compile => INCONCLUSIVE, not a false alarm.
#include <chaiscript/chaiscript_basic.hpp>
#include <chaiscript/language/chaiscript_parser.hpp>
#include <chaiscript/utility/json.hpp>
#include <cstdio>
#include <cstddef>
using namespace chaiscript;
using Node = eval::AST_Node_Impl<eval::Noop_Tracer>;
using Parser = parser::ChaiScript_Parser<eval::Noop_Tracer, optimizer::Optimizer_Default>;
#pragma GCC diagnostic ignored "-Winvalid-offsetof"
#define OP(x) printf("#define OP_%s %d\n", #x, (int)Operators::Opers::x);
#define AST(x) printf("#define AST_%s %d\n", #x, (int)AST_Node_Type::x);
#define OFF(n, T, m) printf("#define OFF_%s %zu\n", n, offsetof(T, m));
#define SZ(n, T) printf("#define SZ_%s %zu\n", n, sizeof(T));
// a member some harness only uses when it exists (its absence is judged by the harness, not a build failure)
#define OFFOPT(n, T, m) []<typename X>() { if constexpr (requires { &X::m; }) { printf("#define OFF_%s %zu\n", n, offsetof(X, m)); } }.template operator()<T>();
int main() {
  OP(equals) OP(less_than) OP(greater_than) OP(less_than_equal) OP(greater_than_equal) OP(not_equal) OP(assign) OP(pre_increment) OP(pre_decrement)
  OP(assign_product) OP(assign_sum) OP(assign_quotient) OP(assign_difference) OP(assign_bitwise_and) OP(assign_bitwise_or) OP(assign_shift_left)
  OP(assign_shift_right) OP(assign_remainder) OP(assign_bitwise_xor) OP(shift_left) OP(shift_right) OP(remainder) OP(bitwise_and) OP(bitwise_or)
  OP(bitwise_xor) OP(bitwise_complement) OP(sum) OP(quotient) OP(product) OP(difference) OP(unary_plus) OP(unary_minus) OP(invalid)
  AST(Id) AST(Fun_Call) AST(Unused_Return_Fun_Call) AST(Arg_List) AST(Equation) AST(Var_Decl) AST(Assign_Decl) AST(Array_Call) AST(Dot_Access)
  AST(Lambda) AST(Block) AST(Scopeless_Block) AST(Def) AST(While) AST(If) AST(For) AST(Ranged_For) AST(Inline_Array) AST(Inline_Map) AST(Return)
  AST(File) AST(Prefix) AST(Break) AST(Continue) AST(Map_Pair) AST(Value_Range) AST(Inline_Range) AST(Try) AST(Catch) AST(Finally) AST(Method)
  AST(Attr_Decl) AST(Logical_And) AST(Logical_Or) AST(Reference) AST(Switch) AST(Case) AST(Default) AST(Noop) AST(Class) AST(Binary) AST(Arg)
  AST(Global_Decl) AST(Constant) AST(Compiled)
  SZ("Node", Node) OFF("Node_identifier", Node, identifier) OFF("Node_text", Node, text) OFF("Node_location", Node, location) OFF("Node_children", Node, children)
  SZ("Boxed_Value", Boxed_Value) SZ("BV_Data", Boxed_Value::Data)
  OFF("Data_type_info", Boxed_Value::Data, m_type_info) OFF("Data_obj", Boxed_Value::Data, m_obj) OFF("Data_data_ptr", Boxed_Value::Data, m_data_ptr)
  OFF("Data_const_data_ptr", Boxed_Value::Data, m_const_data_ptr) OFF("Data_attrs", Boxed_Value::Data, m_attrs) OFF("Data_is_ref", Boxed_Value::Data, m_is_ref)
  OFF("Data_return_value", Boxed_Value::Data, m_return_value)
  SZ("Type_Info", Type_Info) OFF("TI_type_info", Type_Info, m_type_info) OFF("TI_bare_type_info", Type_Info, m_bare_type_info) OFF("TI_flags", Type_Info, m_flags)
  printf("#define TIF_const %u\n#define TIF_reference %u\n#define TIF_pointer %u\n#define TIF_void %u\n#define TIF_arithmetic %u\n#define TIF_undef %u\n",
         1u << Type_Info::is_const_flag, 1u << Type_Info::is_reference_flag, 1u << Type_Info::is_pointer_flag, 1u << Type_Info::is_void_flag,
         1u << Type_Info::is_arithmetic_flag, 1u << Type_Info::is_undef_flag);
  SZ("Dispatch_State", detail::Dispatch_State) SZ("eval_error", exception::eval_error) SZ("Stack_Holder", detail::Stack_Holder) SZ("Dispatch_Engine", detail::Dispatch_Engine)
  OFF("SH_stacks", detail::Stack_Holder, stacks) OFF("SH_call_params", detail::Stack_Holder, call_params) OFF("SH_call_depth", detail::Stack_Holder, call_depth)
  SZ("Parser", Parser) OFF("Parser_position", Parser, m_position) OFF("Parser_filename", Parser, m_filename) OFF("Parser_match_stack", Parser, m_match_stack)
  OFF("Parser_current_parse_depth", Parser, m_current_parse_depth)
  printf("#define PARSE_DEPTH_LIMIT %zu\n", (size_t)Parser::Depth_Counter::max_depth); SZ("Depth_Counter", Parser::Depth_Counter)
  SZ("Position", Parser::Position) OFF("Pos_line", Parser::Position, line) OFF("Pos_col", Parser::Position, col) OFF("Pos_pos", Parser::Position, m_pos)
  OFF("Pos_end", Parser::Position, m_end) OFF("Pos_last_col", Parser::Position, m_last_col)
  { using CP = Parser::Char_Parser<std::string>;
    SZ("CP", CP) OFF("CP_match", CP, match) OFF("CP_is_escaped", CP, is_escaped) OFF("CP_is_interpolated", CP, is_interpolated)
    OFF("CP_saw_interpolation_marker", CP, saw_interpolation_marker) OFF("CP_is_octal", CP, is_octal) OFF("CP_is_hex", CP, is_hex)
    OFF("CP_unicode_size", CP, unicode_size) OFF("CP_interpolation_allowed", CP, interpolation_allowed) OFF("CP_octal_matches", CP, octal_matches)
    OFF("CP_hex_matches", CP, hex_matches) }
  { using Scope = detail::Stack_Holder::Scope; using Entry = Scope::value_type;
    SZ("Scope", Scope) OFF("Scope_data", Scope, data) SZ("Scope_Entry", Entry) OFF("Entry_first", Entry, first) OFF("Entry_second", Entry, second) }
  { using DA = eval::Dot_Access_AST_Node<eval::Noop_Tracer>;
    SZ("Dot_Access", DA) OFFOPT("DA_loc", DA, m_loc) OFFOPT("DA_array_loc", DA, m_array_loc) OFFOPT("DA_fun_name", DA, m_fun_name) }
  SZ("dispatch_error", exception::dispatch_error) OFFOPT("DErr_parameters", exception::dispatch_error, parameters) OFFOPT("DErr_functions", exception::dispatch_error, functions)
  OFF("DE_mutex", detail::Dispatch_Engine, m_mutex) OFF("DE_state", detail::Dispatch_Engine, m_state) OFF("DE_stack_holder", detail::Dispatch_Engine, m_stack_holder)
  OFF("DE_conversions", detail::Dispatch_Engine, m_conversions) OFF("DE_parser", detail::Dispatch_Engine, m_parser) OFF("EE_call_stack", exception::eval_error, call_stack)
  OFF("State_functions", detail::Dispatch_Engine::State, m_functions) OFF("State_function_objects", detail::Dispatch_Engine::State, m_function_objects)
  OFF("State_boxed_functions", detail::Dispatch_Engine::State, m_boxed_functions) OFF("State_global_objects", detail::Dispatch_Engine::State, m_global_objects)
  OFF("State_types", detail::Dispatch_Engine::State, m_types) SZ("DE_State", detail::Dispatch_Engine::State)
  { using EQ = eval::Equation_AST_Node<eval::Noop_Tracer>; SZ("Equation_Node", EQ) OFF("EQ_oper", EQ, m_oper) OFF("EQ_loc", EQ, m_loc) OFF("EQ_clone_loc", EQ, m_clone_loc) }
  SZ("Thread_Storage", detail::threading::Thread_Storage<detail::Stack_Holder>)
  { using PFB = dispatch::Proxy_Function_Base; SZ("PFB", PFB) OFF("PFB_types", PFB, m_types) OFF("PFB_arity", PFB, m_arity) OFF("PFB_has_arith", PFB, m_has_arithmetic_param) }
  SZ("Inline_Map_Node", eval::Inline_Map_AST_Node<eval::Noop_Tracer>) SZ("Inline_Array_Node", eval::Inline_Array_AST_Node<eval::Noop_Tracer>) SZ("Assign_Decl_Node", eval::Assign_Decl_AST_Node<eval::Noop_Tracer>) SZ("Constant_Node", eval::Constant_AST_Node<eval::Noop_Tracer>)
  { using CS = Type_Conversions::Conversion_Saves; SZ("Conversion_Saves", CS) OFF("CS_enabled", CS, enabled) OFF("CS_saves", CS, saves) }
  { const char *pn[] = {"Ternary_Cond","Logical_Or","Logical_And","Bitwise_Or","Bitwise_Xor","Bitwise_And","Equality","Comparison","Shift","Addition","Multiplication","Prefix"};
    Operator_Precedence pv[] = {Operator_Precedence::Ternary_Cond,Operator_Precedence::Logical_Or,Operator_Precedence::Logical_And,Operator_Precedence::Bitwise_Or,Operator_Precedence::Bitwise_Xor,Operator_Precedence::Bitwise_And,Operator_Precedence::Equality,Operator_Precedence::Comparison,Operator_Precedence::Shift,Operator_Precedence::Addition,Operator_Precedence::Multiplication,Operator_Precedence::Prefix};
    for (int i = 0; i < 12; i++) printf("#define PREC_%s %d\n", pn[i], static_cast<int>(pv[i])); }
  SZ("Type_Conversions", Type_Conversions) OFF("TC_mutex", Type_Conversions, m_mutex) OFF("TC_conversions", Type_Conversions, m_conversions) OFF("TC_types", Type_Conversions, m_convertableTypes) OFF("TC_num_types", Type_Conversions, m_num_types) OFFOPT("TC_thread_cache", Type_Conversions, m_thread_cache)
  { using TCB = detail::Type_Conversion_Base; SZ("TCB", TCB) OFF("TCB_to", TCB, m_to) OFF("TCB_from", TCB, m_from) }
  OFF("CB_engine", ChaiScript_Basic, m_engine) OFF("CB_active_loaded_modules", ChaiScript_Basic, m_active_loaded_modules)
  SZ("CB_State", ChaiScript_Basic::State) OFF("CBS_used_files", ChaiScript_Basic::State, used_files) OFF("CBS_engine_state", ChaiScript_Basic::State, engine_state) OFF("CBS_active_loaded_modules", ChaiScript_Basic::State, active_loaded_modules)
  SZ("ChaiScript_Basic", ChaiScript_Basic) OFF("CB_mutex", ChaiScript_Basic, m_mutex) OFF("CB_use_mutex", ChaiScript_Basic, m_use_mutex) OFF("CB_used_files", ChaiScript_Basic, m_used_files) OFF("CB_use_paths", ChaiScript_Basic, m_use_paths)
  OFF("FNF_filename", exception::file_not_found_error, filename) SZ("FNF", exception::file_not_found_error)
  { using B = eval::Binary_Operator_AST_Node<eval::Noop_Tracer>; using F = eval::Fold_Right_Binary_Operator_AST_Node<eval::Noop_Tracer>; using Pn = eval::Prefix_AST_Node<eval::Noop_Tracer>;
    SZ("BinOp_Node", B) OFF("BinOp_oper", B, m_oper) SZ("FoldR_Node", F) OFF("FoldR_oper", F, m_oper) OFF("FoldR_rhs", F, m_rhs) SZ("Prefix_Node", Pn) OFF("Prefix_oper", Pn, m_oper) }
  SZ("File_Position", File_Position) SZ("Parse_Location", Parse_Location)
  SZ("std_string", std::string) SZ("std_vector", std::vector<int>) SZ("std_shared_ptr", std::shared_ptr<int>)
  static_assert(sizeof(std::string) == 32 && sizeof(std::vector<int>) == 24 && sizeof(std::shared_ptr<int>) == 16, "libstdc++ layouts the C models rely on");
  return 0;
}
