#include <chaiscript/chaiscript_basic.hpp>
#include <chaiscript/language/chaiscript_parser.hpp>
using P = chaiscript::parser::ChaiScript_Parser<chaiscript::eval::Noop_Tracer, chaiscript::optimizer::Optimizer_Default>;
// force instantiation of all members
template class chaiscript::parser::ChaiScript_Parser<chaiscript::eval::Noop_Tracer, chaiscript::optimizer::Optimizer_Default>;
