// Instantiation TU for the dispatch engine and evaluator: forces emission of the member functions the harnesses use.
// No logic here: only explicit instantiations and ODR-uses (addresses stored to a volatile sink).
#include <chaiscript/chaiscript_basic.hpp>
#include <chaiscript/language/chaiscript_parser.hpp>
using namespace chaiscript;
using T = eval::Noop_Tracer;
#define NODE(X) template struct chaiscript::eval::X<T>;
NODE(Id_AST_Node) NODE(Fun_Call_AST_Node) NODE(Unused_Return_Fun_Call_AST_Node) NODE(Arg_List_AST_Node) NODE(Equation_AST_Node) NODE(Global_Decl_AST_Node)
NODE(Var_Decl_AST_Node) NODE(Assign_Decl_AST_Node) NODE(Array_Call_AST_Node) NODE(Dot_Access_AST_Node) NODE(Lambda_AST_Node) NODE(Scopeless_Block_AST_Node)
NODE(Block_AST_Node) NODE(Def_AST_Node) NODE(While_AST_Node) NODE(Class_AST_Node) NODE(If_AST_Node) NODE(Ranged_For_AST_Node) NODE(For_AST_Node) NODE(Default_AST_Node)
NODE(Case_AST_Node) NODE(Switch_AST_Node) NODE(Inline_Array_AST_Node) NODE(Inline_Map_AST_Node) NODE(Return_AST_Node) NODE(File_AST_Node) NODE(Reference_AST_Node)
NODE(Prefix_AST_Node) NODE(Break_AST_Node) NODE(Continue_AST_Node) NODE(Noop_AST_Node) NODE(Map_Pair_AST_Node) NODE(Value_Range_AST_Node) NODE(Inline_Range_AST_Node)
NODE(Try_AST_Node) NODE(Catch_AST_Node) NODE(Finally_AST_Node) NODE(Method_AST_Node) NODE(Attr_Decl_AST_Node) NODE(Logical_And_AST_Node) NODE(Logical_Or_AST_Node)
NODE(Binary_Operator_AST_Node) NODE(Constant_AST_Node) NODE(Fold_Right_Binary_Operator_AST_Node) NODE(Compiled_AST_Node) NODE(AST_Node_Impl)
volatile void *verif_sink;
template<typename F> static void use(F f) { static F keep; keep = f; verif_sink = &keep; }
extern "C" void verif_force_emission() {
  using DE = detail::Dispatch_Engine;
  use(&DE::get_object); use(&DE::add_global_const); use(&DE::add_global); use(&DE::add_global_no_throw); use(&DE::set_global);
  use(static_cast<void (DE::*)(const Type_Info &, const std::string &)>(&DE::add));
  use(static_cast<void (DE::*)(const Proxy_Function &, const std::string &)>(&DE::add));
  use(&DE::get_function); use(&DE::get_function_object); use(&DE::function_exists); use(&DE::get_type_name);
  use(static_cast<Type_Info (DE::*)(std::string_view, bool) const>(&DE::get_type));
  use(&DE::get_types); use(&DE::get_functions); use(&DE::get_function_objects); use(&DE::get_scripting_objects); use(&DE::get_state); use(&DE::set_state);
  use(&DE::call_function); use(&DE::call_member);
  use(static_cast<void (*)(detail::Stack_Holder &)>(&DE::new_scope)); use(static_cast<void (*)(detail::Stack_Holder &)>(&DE::pop_scope));
  use(static_cast<void (*)(detail::Stack_Holder &)>(&DE::new_stack)); use(static_cast<void (*)(detail::Stack_Holder &)>(&DE::pop_stack));
  use(static_cast<void (DE::*)(detail::Stack_Holder &, Type_Conversions::Conversion_Saves &)>(&DE::new_function_call));
  use(static_cast<void (DE::*)(detail::Stack_Holder &, Type_Conversions::Conversion_Saves &)>(&DE::pop_function_call));
  use(static_cast<void (*)(detail::Stack_Holder &, const Function_Params &)>(&DE::save_function_params));
  use(static_cast<void (DE::*)(std::string, Boxed_Value, detail::Stack_Holder &)>(&DE::add_object));
  use(&DE::add_get_object);
  use(&Type_Conversions::add_conversion); use(&Type_Conversions::has_conversion); use(&Type_Conversions::get_conversion);
  use(static_cast<std::shared_ptr<chaiscript::detail::Type_Conversion_Base> (Type_Conversions::*)(const Type_Info &, const Type_Info &) const>(&Type_Conversions::get_conversion));
}
