// Instantiation TU for the JSON support: private kernels are reached with -fno-access-control.
#include <chaiscript/chaiscript_basic.hpp>
#include <chaiscript/utility/json.hpp>
#include <chaiscript/utility/json_wrap.hpp>
using namespace chaiscript::json;
volatile void *verif_sink3;
template<typename F> static void use_(F f) { static F keep; keep = f; verif_sink3 = &keep; }
extern "C" void verif_force_json() {
  use_(&JSON::json_escape); use_(&JSONParser::parse_string); use_(&JSONParser::parse_number); use_(&JSONParser::parse_bool); use_(&JSONParser::parse_null);
  use_(static_cast<chaiscript::Boxed_Value (*)(const JSON &)>(&chaiscript::json_wrap::from_json));
  use_(&JSONParser::consume_ws); use_(&JSONParser::parse_next); use_(&JSONParser::parse_array); use_(&JSONParser::parse_object);
}
