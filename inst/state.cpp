// Instantiation TU for the public state save/restore entry points: ChaiScript_Basic::get_state / set_state on top of Dispatch_Engine::get_state / set_state.
#include <chaiscript/chaiscript_basic.hpp>
using namespace chaiscript;
volatile void *verif_sink5;
template<typename F> static void use_(F f) { static F keep; keep = f; verif_sink5 = &keep; }
extern "C" void verif_force_state() {
  use_(&ChaiScript_Basic::get_state); use_(&ChaiScript_Basic::set_state);
  use_(&detail::Dispatch_Engine::get_state); use_(&detail::Dispatch_Engine::set_state);
}
