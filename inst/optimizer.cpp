// Instantiation TU for the AST optimizer passes.
#include <chaiscript/chaiscript_basic.hpp>
#include <chaiscript/language/chaiscript_parser.hpp>
using namespace chaiscript;
using T = eval::Noop_Tracer;
using Ptr = eval::AST_Node_Impl_Ptr<T>;
template auto optimizer::Dead_Code::optimize<T>(Ptr);
template auto optimizer::Block::optimize<T>(Ptr);
template auto optimizer::Return::optimize<T>(Ptr);
template auto optimizer::If::optimize<T>(Ptr);
template auto optimizer::Unused_Return::optimize<T>(Ptr);
template auto optimizer::Assign_Decl::optimize<T>(Ptr);
template auto optimizer::For_Loop::optimize<T>(Ptr);
template auto optimizer::Constant_Fold::optimize<T>(Ptr);
template auto optimizer::Partial_Fold::optimize<T>(Ptr);
