// Instantiation TU for Boxed_Number: every go<L,R>, oper (unary/binary), get_common_type.
#include <chaiscript/chaiscript_basic.hpp>
using namespace chaiscript;
extern "C" void inst_oper2(Operators::Opers op, const Boxed_Value &l, const Boxed_Value &r, Boxed_Value *out) {
  *out = Boxed_Number::oper(op, l, r);
}
extern "C" void inst_oper1(Operators::Opers op, const Boxed_Value &l, Boxed_Value *out) {
  *out = Boxed_Number::oper(op, l);
}
extern "C" int inst_common_type(const Boxed_Value &l) {
  return static_cast<int>(Boxed_Number::get_common_type(l));
}
extern "C" int inst_to_operator(const char *p, unsigned long n, bool unary) {
  return static_cast<int>(chaiscript::Operators::to_operator(std::string_view(p, n), unary));
}
