// Instantiation TU for Boxed_Number: every go<L,R>, oper (unary/binary), get_common_type.
#include <chaiscript/chaiscript_basic.hpp>
using namespace chaiscript;
extern "C" void inst_oper2(Operators::Opers op, const Boxed_Value &l, const Boxed_Value &r, Boxed_Value *out) {
  *out = Boxed_Number::oper(op, l, r);
}
extern "C" void inst_oper1(Operators::Opers op, const Boxed_Value &l, Boxed_Value *out) {
  *out = Boxed_Number::oper(op, l);
}
extern "C" int inst_common_type(const Boxed_Value &l) {
  return static_cast<int>(Boxed_Number::get_common_type(l));
}
extern "C" int inst_to_operator(const char *p, unsigned long n, bool unary) {
  return static_cast<int>(chaiscript::Operators::to_operator(std::string_view(p, n), unary));
}

// the named operator functions the bootstrap registers for scripts (C05 A4): ODR-use every one
extern "C" const void *inst_wrappers[] = {
  reinterpret_cast<const void *>(&Boxed_Number::equals),
  reinterpret_cast<const void *>(&Boxed_Number::less_than),
  reinterpret_cast<const void *>(&Boxed_Number::greater_than),
  reinterpret_cast<const void *>(&Boxed_Number::greater_than_equal),
  reinterpret_cast<const void *>(&Boxed_Number::less_than_equal),
  reinterpret_cast<const void *>(&Boxed_Number::not_equal),
  reinterpret_cast<const void *>(&Boxed_Number::sum),
  reinterpret_cast<const void *>(&Boxed_Number::difference),
  reinterpret_cast<const void *>(&Boxed_Number::assign_bitwise_and),
  reinterpret_cast<const void *>(&Boxed_Number::assign),
  reinterpret_cast<const void *>(&Boxed_Number::assign_bitwise_or),
  reinterpret_cast<const void *>(&Boxed_Number::assign_bitwise_xor),
  reinterpret_cast<const void *>(&Boxed_Number::assign_remainder),
  reinterpret_cast<const void *>(&Boxed_Number::assign_shift_left),
  reinterpret_cast<const void *>(&Boxed_Number::assign_shift_right),
  reinterpret_cast<const void *>(&Boxed_Number::bitwise_and),
  reinterpret_cast<const void *>(&Boxed_Number::bitwise_xor),
  reinterpret_cast<const void *>(&Boxed_Number::bitwise_or),
  reinterpret_cast<const void *>(&Boxed_Number::assign_product),
  reinterpret_cast<const void *>(&Boxed_Number::assign_quotient),
  reinterpret_cast<const void *>(&Boxed_Number::assign_sum),
  reinterpret_cast<const void *>(&Boxed_Number::assign_difference),
  reinterpret_cast<const void *>(&Boxed_Number::quotient),
  reinterpret_cast<const void *>(&Boxed_Number::shift_left),
  reinterpret_cast<const void *>(&Boxed_Number::product),
  reinterpret_cast<const void *>(&Boxed_Number::remainder),
  reinterpret_cast<const void *>(&Boxed_Number::shift_right),
  reinterpret_cast<const void *>(&Boxed_Number::pre_decrement),
  reinterpret_cast<const void *>(&Boxed_Number::pre_increment),
  reinterpret_cast<const void *>(&Boxed_Number::unary_plus),
  reinterpret_cast<const void *>(&Boxed_Number::unary_minus),
  reinterpret_cast<const void *>(&Boxed_Number::bitwise_complement)
};
