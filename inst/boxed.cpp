// Instantiation TU for value boxing / unboxing: Cast_Helper_Inner<T>::cast for the catalogue of parameter forms,
// Boxed_Value::Data construction through every Object_Data::get overload.
#include <chaiscript/chaiscript_basic.hpp>
#include <chaiscript/dispatchkit/bootstrap.hpp>
using namespace chaiscript;
// the registered `=` overloads that take their target as a plain Boxed_Value (no typed cast in front of them refuses a const target)
template Boxed_Value chaiscript::bootstrap::ptr_assign<dispatch::Proxy_Function_Base>(Boxed_Value, const std::shared_ptr<dispatch::Proxy_Function_Base> &);
template Boxed_Value chaiscript::bootstrap::ptr_assign<const dispatch::Proxy_Function_Base>(Boxed_Value, const std::shared_ptr<const dispatch::Proxy_Function_Base> &);
extern "C" void *verif_force_unknown_assign() { return reinterpret_cast<void *>(&chaiscript::bootstrap::Bootstrap::unknown_assign); }
template struct chaiscript::detail::Cast_Helper_Inner<int>;
template struct chaiscript::detail::Cast_Helper_Inner<const int &>;
template struct chaiscript::detail::Cast_Helper_Inner<int &>;
template struct chaiscript::detail::Cast_Helper_Inner<int *>;
template struct chaiscript::detail::Cast_Helper_Inner<const int *>;
template struct chaiscript::detail::Cast_Helper_Inner<std::shared_ptr<int>>;
template struct chaiscript::detail::Cast_Helper_Inner<std::shared_ptr<const int>>;
template struct chaiscript::detail::Cast_Helper_Inner<std::reference_wrapper<int>>;
template struct chaiscript::detail::Cast_Helper_Inner<std::string &>;
template struct chaiscript::detail::Cast_Helper_Inner<const std::string &>;
volatile void *verif_sink4;
template<typename F> static void use_(F f) { static F keep; keep = f; verif_sink4 = &keep; }
extern "C" void verif_force_boxed(int *p, const int *cp, std::shared_ptr<int> sp, std::shared_ptr<const int> scp) {
  Boxed_Value a(5), b(p), c(cp), d(std::ref(*p)), e(std::cref(*p)), f(sp), g(scp), h(std::make_unique<int>(3));
  Boxed_Value i = const_var(7), j = var(8);
  verif_sink4 = a.get_ptr(); verif_sink4 = const_cast<void *>(b.get_const_ptr());
  (void)c; (void)d; (void)e; (void)f; (void)g; (void)h; (void)i; (void)j;
}
// a polymorphic hierarchy for the registered base-class conversion (base_class<Base, Derived>()): the down-cast half is Dynamic_Caster<Base, Derived>::cast
namespace verif_types { struct Base { virtual ~Base() = default; int b = 0; }; struct Derived : Base { int d = 0; }; }
template class chaiscript::detail::Dynamic_Caster<verif_types::Base, verif_types::Derived>;
template class chaiscript::detail::Static_Caster<verif_types::Derived, verif_types::Base>;
// the guard a C++ function taking std::shared_ptr<T>& is called under: after the call it refreshes the raw pointers cached in the box
extern "C" void verif_force_sentinel(const Boxed_Value &bv, std::shared_ptr<int> &sp) { auto s = bv.pointer_sentinel(sp); std::shared_ptr<int> &r = s; r.reset(); }
