// Instantiation TU for value boxing / unboxing: Cast_Helper_Inner<T>::cast for the catalogue of parameter forms,
// Boxed_Value::Data construction through every Object_Data::get overload.
#include <chaiscript/chaiscript_basic.hpp>
using namespace chaiscript;
template struct chaiscript::detail::Cast_Helper_Inner<int>;
template struct chaiscript::detail::Cast_Helper_Inner<const int &>;
template struct chaiscript::detail::Cast_Helper_Inner<int &>;
template struct chaiscript::detail::Cast_Helper_Inner<int *>;
template struct chaiscript::detail::Cast_Helper_Inner<const int *>;
template struct chaiscript::detail::Cast_Helper_Inner<std::shared_ptr<int>>;
template struct chaiscript::detail::Cast_Helper_Inner<std::shared_ptr<const int>>;
template struct chaiscript::detail::Cast_Helper_Inner<std::reference_wrapper<int>>;
template struct chaiscript::detail::Cast_Helper_Inner<std::string &>;
template struct chaiscript::detail::Cast_Helper_Inner<const std::string &>;
volatile void *verif_sink4;
template<typename F> static void use_(F f) { static F keep; keep = f; verif_sink4 = &keep; }
extern "C" void verif_force_boxed(int *p, const int *cp, std::shared_ptr<int> sp, std::shared_ptr<const int> scp) {
  Boxed_Value a(5), b(p), c(cp), d(std::ref(*p)), e(std::cref(*p)), f(sp), g(scp), h(std::make_unique<int>(3));
  Boxed_Value i = const_var(7), j = var(8);
  verif_sink4 = a.get_ptr(); verif_sink4 = const_cast<void *>(b.get_const_ptr());
  (void)c; (void)d; (void)e; (void)f; (void)g; (void)h; (void)i; (void)j;
}
