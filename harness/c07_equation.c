/* C07 / C03 / C09: the real Equation_AST_Node::eval_internal (=, :=, += ... on already-declared targets) with abstract children.
   The two children return Boxed_Values whose const / return-value / undefined / arithmetic flags are symbolic, or throw.
   Boxed_Number::do_oper, call_function, clone_if_necessary, Boxed_Value::assign and type_match are recorders.
   Asserted: the right side is evaluated before the left; a const or temporary target is rejected with eval_error and NOTHING
   that could modify it is invoked; arithmetic compound assignment goes to do_oper with this node's operator; '=' on other
   values goes to the '=' function; ':=' rebinds only on matching types; function-call bookkeeping is balanced on every exit;
   a child's exception leaves unchanged. */
#define NNODES 4
#include "node_model.h"
struct eq_node { struct node base; uint32_t m_oper; uint32_t pad_; uint64_t m_loc, m_clone_loc; };
_Static_assert(sizeof(struct eq_node) == SZ_Equation_Node && offsetof(struct eq_node, m_oper) == OFF_EQ_oper && offsetof(struct eq_node, m_loc) == OFF_EQ_loc, "Equation_AST_Node layout changed");
static struct eq_node EQ; static struct bv_data ldata, rdata, cdata;
enum { EV_RHS = 1, EV_LHS, EV_DO_OPER, EV_CALL, EV_CLONE, EV_ASSIGN, EV_TYPE_MATCH, EV_RESET };
static uint32_t oper_seen; static char call_name[4]; static uint64_t call_name_len; static int type_match_result;
void F__ZNK10chaiscript4eval13AST_Node_ImplINS0_6TracerIJNS0_18Noop_Tracer_DetailEEEEE4evalERKNS_6detail14Dispatch_StateE(char* sret, char* self, char* st) {
  int idx = (int)((struct node*)self - nodes);
  LOG(idx == 1 ? EV_LHS : EV_RHS);
  if (behav[idx] != B_RET) { child_throw(behav[idx], TI_EVAL_ERROR, TI_BOXED_VALUE); return; }
  ((struct BV*)sret)->p = (char*)(idx == 1 ? &ldata : &rdata); ((struct BV*)sret)->pn = 0;
}
void F__ZN10chaiscript12Boxed_Number7do_operENS_9Operators5OpersERKNS_11Boxed_ValueES5_(char* sret, uint32_t op, char* l, char* r) {
  LOG(EV_DO_OPER); oper_seen = op; __CPROVER_assert(((struct BV*)l)->p == (char*)&ldata && ((struct BV*)r)->p == (char*)&rdata, "C03: compound assignment operates on (target, value) in that order");
  if (nondet_u8() & 1) { child_throw(B_STDEXC, TI_EVAL_ERROR, TI_BOXED_VALUE); return; }
  ((struct BV*)sret)->p = (char*)&ldata; ((struct BV*)sret)->pn = 0; }
void F__ZNK10chaiscript6detail15Dispatch_Engine13call_functionESt17basic_string_viewIcSt11char_traitsIcEERSt6atomicImERKNS_15Function_ParamsERKNS_22Type_Conversions_StateE(char* sret, char* self, uint64_t len, char* name, char* loc, char* params, char* conv) {
  LOG(EV_CALL); call_name_len = len; for (unsigned i = 0; i < 3; i++) call_name[i] = i < len ? name[i] : 0;
  struct BV* b = *(struct BV**)params; __CPROVER_assert(b[0].p == (char*)&ldata && (b[1].p == (char*)&rdata || b[1].p == (char*)&cdata), "C03: the assignment function receives (target, value)");
  ((struct BV*)sret)->p = (char*)&ldata; ((struct BV*)sret)->pn = 0; }
void F__ZN10chaiscript4eval6detail18clone_if_necessaryENS_11Boxed_ValueERSt6atomicImERKNS_6detail14Dispatch_StateE(char* sret, char* bv, char* loc, char* st) { LOG(EV_CLONE); ((struct BV*)sret)->p = (char*)&cdata; ((struct BV*)sret)->pn = 0; }
void F__ZN10chaiscript11Boxed_Value6assignERKS0_(char* sret, char* self, char* rhs) { LOG(EV_ASSIGN); __CPROVER_assert(((struct BV*)self)->p == (char*)&ldata, "C03: := rebinds the target"); *(struct BV*)sret = *(struct BV*)self; }
void F__ZNK10chaiscript11Boxed_Value18reset_return_valueEv(char* self) { LOG(EV_RESET); }
uint8_t F__ZN10chaiscript11Boxed_Value10type_matchERKS0_S2_(char* l, char* r) { LOG(EV_TYPE_MATCH); return (uint8_t)type_match_result; }
void F__ZN10chaiscript6detail15Dispatch_Engine17new_function_callERNS0_12Stack_HolderERNS_16Type_Conversions16Conversion_SavesE(char* e, char* h, char* s) { call_depth++; }
void F__ZN10chaiscript6detail15Dispatch_Engine17pop_function_callERNS0_12Stack_HolderERNS_16Type_Conversions16Conversion_SavesE(char* e, char* h, char* s) { call_depth--; }
void EQ_EVAL(char* sret, char* self, char* st);
int main(void) {
  /* node 0 = the equation (EQ.base is used instead), 1 = lhs child, 2 = rhs child */
  nodes[1].identifier = AST_Id; nodes[2].identifier = AST_Constant;
  EQ.base.identifier = AST_Equation; EQ.base.text.p = EQ.base.text.buf;
  static char* eq_children[2]; eq_children[0] = (char*)&nodes[1]; eq_children[1] = (char*)&nodes[2];
  EQ.base.children.b = (char*)&eq_children[0]; EQ.base.children.e = (char*)&eq_children[2]; EQ.base.children.c = EQ.base.children.e;
  /* operator text and its pre-computed opcode (the constructor's to_operator mapping is C03 S1): '=' , ':=' or a compound operator */
  unsigned kind = nondet_u32(); __CPROVER_assume(kind < 3);
  if (kind == 0) { EQ.base.text.n = 1; EQ.base.text.buf[0] = '='; EQ.m_oper = OP_assign; }
  else if (kind == 1) { EQ.base.text.n = 2; EQ.base.text.buf[0] = ':'; EQ.base.text.buf[1] = '='; EQ.m_oper = OP_invalid; }
  else { EQ.base.text.n = 2; EQ.base.text.buf[0] = '+'; EQ.base.text.buf[1] = '='; uint32_t o = nondet_u32(); __CPROVER_assume(o >= OP_assign_product && o <= OP_assign_bitwise_xor); EQ.m_oper = o; }
  for (int i = 0; i < NNODES; i++) { unsigned b = nondet_u32(); __CPROVER_assume(b < B_NKINDS); behav[i] = (int)b; }
  D_FLAGS(&ldata) = nondet_u32() & (TIF_const | TIF_arithmetic | TIF_undef | TIF_reference); D_RETVAL(&ldata) = nondet_u8() & 1;
  D_FLAGS(&rdata) = nondet_u32() & (TIF_const | TIF_arithmetic | TIF_undef); D_RETVAL(&rdata) = nondet_u8() & 1;
  type_match_result = nondet_u8() & 1;
  static char state[SZ_Dispatch_State] __attribute__((aligned(8))); struct BV out = { 0, 0 };
  EQ_EVAL((char*)&out, (char*)&EQ, state);
  int lconst = (D_FLAGS(&ldata) & TIF_const) != 0, lret = D_RETVAL(&ldata) & 1, lundef = (D_FLAGS(&ldata) & TIF_undef) != 0;
  int arith = (D_FLAGS(&ldata) & TIF_arithmetic) && (D_FLAGS(&rdata) & TIF_arithmetic);
  int modifiers = log_count(EV_DO_OPER) + log_count(EV_CALL) + log_count(EV_ASSIGN);
  __CPROVER_assert(call_depth == 0, "C09: function-call bookkeeping is balanced on every exit of an assignment node");
  __CPROVER_assert(logn >= 1 && logv[0] == EV_RHS, "C03: the right-hand side of an assignment is evaluated first");
  if (behav[2] != B_RET) { __CPROVER_assert(__exc_pending && __exc_obj == thrown_obj && log_count(EV_LHS) == 0 && modifiers == 0, "C10: an exception from the right-hand side leaves unchanged, nothing else runs"); __CPROVER_assert(0, "witness: rhs throws"); return 0; }
  __CPROVER_assert(logn >= 2 && logv[1] == EV_LHS, "C03: the target is evaluated after the value");
  if (behav[1] != B_RET) { __CPROVER_assert(__exc_pending && __exc_obj == thrown_obj && modifiers == 0, "C10: an exception from the target expression leaves unchanged"); __CPROVER_assert(0, "witness: lhs throws"); return 0; }
  if (lret || lconst) {
    __CPROVER_assert(__exc_pending && __VERIF_isa(__exc_obj, TI_EVAL_ERROR), "C07: assigning to a const or temporary value is an eval_error");
    __CPROVER_assert(modifiers == 0 && log_count(EV_CLONE) == 0, "C07: nothing that could modify a const or temporary target is invoked");
    __CPROVER_assert(0, "witness: const or temporary target");
    return 0;
  }
  if (EQ.m_oper != OP_invalid && arith) {
    __CPROVER_assert(log_count(EV_DO_OPER) == 1 && oper_seen == EQ.m_oper && log_count(EV_CALL) == 0, "C05: arithmetic assignment is performed by the arithmetic kernel with this node's operator");
    if (__exc_pending) __CPROVER_assert(__VERIF_isa(__exc_obj, TI_EVAL_ERROR), "C05: a failing arithmetic assignment is reported as eval_error");
    __CPROVER_assert(0, "witness: arithmetic assignment");
  } else if (kind == 0) {
    __CPROVER_assert(log_count(EV_DO_OPER) == 0, "C03: non-arithmetic assignment does not use the arithmetic kernel");
    if (lundef && nodes[1].identifier != AST_Reference) __CPROVER_assert(log_count(EV_CLONE) == 1, "C08: the first assignment to a declared variable stores a copy of the value");
    __CPROVER_assert(log_count(EV_CALL) == 1 && call_name_len == 1 && call_name[0] == '=', "C03: assignment of other values calls the = function once");
    __CPROVER_assert(0, "witness: function assignment");
  } else if (kind == 1) {
    __CPROVER_assert(log_count(EV_CALL) == 0 && log_count(EV_DO_OPER) == 0, "C03: := never calls an assignment function");
    if (lundef || type_match_result) __CPROVER_assert(log_count(EV_ASSIGN) == 1 && !__exc_pending, "C03: := rebinds an undefined target or one of matching type");
    else __CPROVER_assert(log_count(EV_ASSIGN) == 0 && __exc_pending, "C03: := onto a value of another type is an error and rebinds nothing");
    __CPROVER_assert(0, "witness: reference assignment");
  } else {
    __CPROVER_assert(log_count(EV_CALL) == 1 && call_name_len == 2 && call_name[0] == '+' && call_name[1] == '=', "C03: a compound operator on non-arithmetic values calls the function of that name");
    __CPROVER_assert(0, "witness: compound function assignment");
  }
  return 0;
}
