/* C03 / C09 / C10 / C20: the small statement nodes - real eval_internal of Return, Break, Continue, File, Id, Var_Decl, Reference, Global_Decl -
   with abstract children and recorder stubs for the engine calls they make (get_object, add_object, add_global_no_throw).
   Asserted per KIND:
   RETURN    `return e` evaluates e once and leaves as a Return_Value carrying exactly e's value (`return` alone: the void value); an exception in e
             leaves unchanged (C10)
   BREAK / CONTINUE   leave as Break_Loop / Continue_Loop, nothing else happens
   FILE      statements in order, once each, stopping at the first that throws; value = the last statement's (void for an empty file); a stray
             break / continue is reported as eval_error; EVERY other exception - including Return_Value (top-level return) - leaves unchanged
   ID        the value is what the engine's lookup of THIS node's text (with this node's cache slot) returns; a failed lookup (any std::exception)
             is reported as eval_error raised by this very node (C20: the error starts at the identifier); non-std exceptions pass unchanged
   VAR_DECL / REFERENCE   declare the name written in the first child, once, in the current scope, bound to a fresh undefined value which is also
             the node's value; Var_Decl reports a name conflict as eval_error; nothing else is caught
   GLOBAL_DECL  `global x` / `global &x` registers x (the identifier inside the reference form) through add_global_no_throw with a fresh value */
#define NNODES 6
#include "node_model.h"
#define K_RETURN 1
#define K_BREAK 2
#define K_CONTINUE 3
#define K_FILE 4
#define K_ID 5
#define K_VAR_DECL 6
#define K_REFERENCE 7
#define K_GLOBAL_DECL 8
#ifndef NCH
#define NCH 1
#endif
#define B_BREAK (B_NKINDS)
#define B_CONTINUE (B_NKINDS + 1)
#define B_RETURN_VALUE (B_NKINDS + 2)
#define B_ALL (B_NKINDS + 3)
static int evals[NNODES], eval_order[NNODES], eval_seq;
static struct exc_image { char* p; char* pn; char rest[144]; } rv_exc; static struct bv_data rv_value;
void NODE_EVAL_CHILD(char* sret, char* self, char* st) {
  int idx = (int)((struct node*)self - nodes); evals[idx]++; eval_order[idx] = eval_seq++;
  int b = behav[idx];
  if (b == B_RET) { ((struct BV*)sret)->p = valpool[idx]; ((struct BV*)sret)->pn = 0; return; }
  if (b == B_BREAK) { thrown_obj = __VERIF_throw_new(TI_BREAK, 8); thrown_kind = b; return; }
  if (b == B_CONTINUE) { thrown_obj = __VERIF_throw_new(TI_CONTINUE, 8); thrown_kind = b; return; }
  if (b == B_RETURN_VALUE) { rv_exc.p = (char*)&rv_value; rv_exc.pn = 0; thrown_obj = (char*)&rv_exc; thrown_kind = b; __VERIF_throw_static(thrown_obj, TI_RETURN_VALUE); return; }
  child_throw(b, TI_EVAL_ERROR, TI_BOXED_VALUE);
}
static struct bv_data void_data, undef_data, found_data;
void VOID_VAR(char* sret) { ((struct BV*)sret)->p = (char*)&void_data; ((struct BV*)sret)->pn = 0; }
static int n_undef;
void OD_GET_UNDEF(char* sret) { n_undef++; ((struct BV*)sret)->p = (char*)&undef_data; ((struct BV*)sret)->pn = 0; }
/* engine calls */
static int n_lookup, lookup_beh; static char* lookup_name; static uint64_t lookup_len; static char* lookup_loc;
void GET_OBJECT(char* sret, char* st, uint64_t len, char* ptr, char* loc) { n_lookup++; lookup_len = len; lookup_name = ptr; lookup_loc = loc;
  if (lookup_beh == B_RET) { ((struct BV*)sret)->p = (char*)&found_data; ((struct BV*)sret)->pn = 0; return; }
  child_throw(lookup_beh, TI_EVAL_ERROR, TI_BOXED_VALUE); }
static int n_add, add_beh; static char* add_name; static char* add_val;
static struct { char* vptr; char* msg; struct sso_string name; } conflict_exc;
#define B_CONFLICT (B_NKINDS)
void ADD_OBJECT(char* st, char* name, char* bv) { n_add++; add_name = name; add_val = ((struct BV*)bv)->p;
  if (add_beh == B_RET) return;
  if (add_beh == B_CONFLICT) { conflict_exc.name.p = conflict_exc.name.buf; conflict_exc.name.n = 1; conflict_exc.name.buf[0] = 'x'; thrown_obj = (char*)&conflict_exc; thrown_kind = add_beh; __VERIF_throw_static(thrown_obj, TI_NAME_CONFLICT); return; }
  child_throw(add_beh, TI_EVAL_ERROR, TI_BOXED_VALUE); }
static int n_global; static char* global_val; static char gname[3]; static uint64_t gname_n; static struct bv_data global_ret;
void ADD_GLOBAL_NO_THROW(char* sret, char* engine, char* bv, char* name) { n_global++; global_val = ((struct BV*)bv)->p; gname_n = *(uint64_t*)(name + 8); gname[0] = (*(char**)name)[0]; gname[1] = (*(char**)name)[1];
  ((struct BV*)sret)->p = (char*)&global_ret; ((struct BV*)sret)->pn = 0; }
char* __VERIF_exc_type(void);
void NODE_EVAL(char* sret, char* self, char* st);
static void sym_text(struct node* n) { unsigned l = 1 + (nondet_u8() & 1); n->text.p = n->text.buf; n->text.n = l; n->text.buf[0] = (char)nondet_u8(); n->text.buf[1] = l > 1 ? (char)nondet_u8() : 0; n->text.buf[2] = 0; }
int main(void) {
  for (int i = 0; i < NNODES; i++) { unsigned b = nondet_u32(); __CPROVER_assume(b < B_ALL); behav[i] = (int)b; sym_text(&nodes[i]); }
  { unsigned b = nondet_u32(); __CPROVER_assume(b < B_NKINDS); lookup_beh = (int)b; } { unsigned b = nondet_u32(); __CPROVER_assume(b <= B_CONFLICT); add_beh = (int)b; }
  static char engine[SZ_Dispatch_Engine] __attribute__((aligned(8))); static char* state[4]; state[0] = engine; struct BV out = { 0, 0 };
  node_set_children(0, NCH >= 1 ? 1 : -1, NCH >= 2 ? 2 : -1, NCH >= 3 ? 3 : -1, -1);
#if KIND == K_GLOBAL_DECL
  nodes[1].identifier = (nondet_u8() & 1) ? AST_Reference : AST_Id; node_set_children(1, 4, -1, -1, -1);
#endif
  NODE_EVAL((char*)&out, (char*)&nodes[0], (char*)state);
#if KIND == K_RETURN
#if NCH == 0
  __CPROVER_assert(__exc_pending && __VERIF_exc_type() == TI_RETURN_VALUE && ((struct BV*)__exc_obj)->p == (char*)&void_data, "C03: `return` without an expression returns the void value"); __CPROVER_assert(0, "witness: return");
#else
  __CPROVER_assert(evals[1] == 1, "C03: the returned expression is evaluated once");
  if (behav[1] == B_RET) { __CPROVER_assert(__exc_pending && __VERIF_exc_type() == TI_RETURN_VALUE && ((struct BV*)__exc_obj)->p == valpool[1], "C03: `return e` leaves as a Return_Value carrying exactly the value of e"); __CPROVER_assert(0, "witness: return"); }
  else { __CPROVER_assert(__exc_pending && __exc_obj == thrown_obj, "C10: an exception in the returned expression leaves unchanged"); __CPROVER_assert(0, "witness: expression throws"); }
#endif
#elif KIND == K_BREAK || KIND == K_CONTINUE
  __CPROVER_assert(__exc_pending && __VERIF_exc_type() == (KIND == K_BREAK ? TI_BREAK : TI_CONTINUE), "C03: break / continue leave the statement as the loop-control signal of their kind"); __CPROVER_assert(0, "witness: signal");
#elif KIND == K_FILE
  int first_bad = 0; for (int i = NCH; i >= 1; i--) if (behav[i] != B_RET) first_bad = i;
  for (int i = 1; i <= NCH; i++) __CPROVER_assert(evals[i] == ((first_bad == 0 || i <= first_bad) ? 1 : 0), "C03: the statements of a file are evaluated once each, in order, up to the first that throws");
  for (int i = 2; i <= NCH; i++) if (evals[i]) __CPROVER_assert(eval_order[i] > eval_order[i - 1], "C03: in order");
  if (!first_bad) { __CPROVER_assert(!__exc_pending && out.p == (NCH ? valpool[NCH] : (char*)&void_data), "C03: the value of a file is the value of its last statement (void when empty)"); __CPROVER_assert(0, "witness: completes"); }
  else if (behav[first_bad] == B_BREAK || behav[first_bad] == B_CONTINUE) { __CPROVER_assert(__exc_pending && __VERIF_exc_type() == TI_EVAL_ERROR, "C03: break / continue outside of a loop is an eval_error"); __CPROVER_assert(0, "witness: stray loop control"); }
  else { __CPROVER_assert(__exc_pending && __exc_obj == thrown_obj, "C10: every other exception of a top-level statement - a top-level return included - leaves the file node as the very same object"); __CPROVER_assert(0, "witness: statement throws"); }
#elif KIND == K_ID
  __CPROVER_assert(n_lookup == 1 && lookup_len == nodes[0].text.n && lookup_name == nodes[0].text.buf && lookup_loc >= (char*)&nodes[0] + SZ_Node && lookup_loc < (char*)&nodes[0] + SZ_Node + 16, "C04: an identifier is looked up once, by this node's own text, with this node's own cache slot");
  if (lookup_beh == B_RET) { __CPROVER_assert(!__exc_pending && out.p == (char*)&found_data, "C04: the identifier's value is what the lookup returns"); __CPROVER_assert(0, "witness: found"); }
  else if (lookup_beh == B_BV || lookup_beh == B_FOREIGN) { __CPROVER_assert(__exc_pending && __exc_obj == thrown_obj, "C10: a non-standard exception passes through unchanged"); __CPROVER_assert(0, "witness: foreign exception"); }
  else { __CPROVER_assert(__exc_pending && __VERIF_exc_type() == TI_EVAL_ERROR && __exc_obj != thrown_obj, "C20: a failed lookup is reported as a NEW eval_error raised by the identifier node itself (so the first call-stack entry eval() appends is this identifier)"); __CPROVER_assert(0, "witness: not found"); }
#elif KIND == K_VAR_DECL || KIND == K_REFERENCE
  __CPROVER_assert(evals[1] == 0, "C03: a declaration does not evaluate the identifier it declares");
  __CPROVER_assert(n_add == 1 && add_name == (char*)&nodes[1].text && add_val == (char*)&undef_data && n_undef == 1, "C03: a declaration binds the name written in it, once, to a fresh undefined value");
  if (add_beh == B_RET) { __CPROVER_assert(!__exc_pending && out.p == (char*)&undef_data, "C03: the value of a declaration is the new variable itself (so `var x = e` assigns into it)"); __CPROVER_assert(0, "witness: declared"); }
#if KIND == K_VAR_DECL
  else if (add_beh == B_CONFLICT) { __CPROVER_assert(__exc_pending && __VERIF_exc_type() == TI_EVAL_ERROR, "C03: redeclaring a name in the same scope is an eval_error"); __CPROVER_assert(0, "witness: redefinition"); }
#endif
  else { __CPROVER_assert(__exc_pending && __exc_obj == thrown_obj, "C10: other exceptions pass unchanged"); __CPROVER_assert(0, "witness: other exception"); }
#elif KIND == K_GLOBAL_DECL
  { struct node* idn = nodes[1].identifier == AST_Reference ? &nodes[4] : &nodes[1];
    __CPROVER_assert(n_global == 1 && global_val == (char*)&undef_data && gname_n == idn->text.n && gname[0] == idn->text.buf[0] && (idn->text.n < 2 || gname[1] == idn->text.buf[1]), "C03: `global x` / `global &x` registers the identifier x, once, with a fresh undefined value");
    __CPROVER_assert(!__exc_pending && out.p == (char*)&global_ret && evals[1] == 0 && evals[4] == 0, "C03: its value is the global (the existing one if there is one)");
    if (nodes[1].identifier == AST_Reference) __CPROVER_assert(0, "witness: reference form"); else __CPROVER_assert(0, "witness: plain form"); }
#else
#error "unknown KIND"
#endif
  return 0;
}
