#ifndef PARSER_MODEL_H
#define PARSER_MODEL_H
/* Harness-side image of a ChaiScript_Parser object in an arbitrary valid cursor state.  Typed (CBMC stays field-sensitive on
   typed objects; a char[] image cost 100x the variables) and checked against the compiler-derived layout.h. */
#include "bv_model.h"
struct position_model { int32_t line, col; char* pos; char* end; int32_t last_col; int32_t pad_; };
struct parser_model { char* vptr; uint64_t depth; char* fname_obj; char* fname_ctl; struct vec3 match_stack; struct position_model position; char tail[SZ_Parser - OFF_Parser_position - SZ_Position + 8]; };
_Static_assert(offsetof(struct parser_model, depth) == OFF_Parser_current_parse_depth && offsetof(struct parser_model, fname_obj) == OFF_Parser_filename &&
               offsetof(struct parser_model, match_stack) == OFF_Parser_match_stack && offsetof(struct parser_model, position) == OFF_Parser_position &&
               sizeof(struct position_model) == SZ_Position && offsetof(struct position_model, pos) == OFF_Pos_pos && offsetof(struct position_model, end) == OFF_Pos_end &&
               offsetof(struct position_model, line) == OFF_Pos_line && offsetof(struct position_model, col) == OFF_Pos_col && offsetof(struct position_model, last_col) == OFF_Pos_last_col &&
               sizeof(struct parser_model) >= SZ_Parser, "ChaiScript_Parser/Position layout changed: update parser_model.h");
#define PM(p) ((struct parser_model*)(p))
#define P_POS(p)  (PM(p)->position.pos)
#define P_END(p)  (PM(p)->position.end)
#define P_LINE(p) (PM(p)->position.line)
#define P_COL(p)  (PM(p)->position.col)
#define P_LASTCOL(p) (PM(p)->position.last_col)
#define P_DEPTH(p) (PM(p)->depth)
static struct sso_string parser_fname;
static void parser_init(char* parser, char* buf, unsigned len, unsigned off, int32_t line, int32_t col, int32_t lastcol) {
  parser_fname.p = parser_fname.buf; parser_fname.n = 1; parser_fname.buf[0] = 'f'; parser_fname.buf[1] = 0;
  PM(parser)->fname_obj = (char*)&parser_fname;       /* shared_ptr<std::string>: object pointer; control block null */
  P_POS(parser) = len ? buf + off : (char*)0; P_END(parser) = len ? buf + len : (char*)0;
  P_LINE(parser) = line; P_COL(parser) = col; P_LASTCOL(parser) = lastcol;
}
int eval_error_ctor_calls;
#endif
