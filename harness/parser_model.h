#ifndef PARSER_MODEL_H
#define PARSER_MODEL_H
/* Harness-side construction of a ChaiScript_Parser object in an arbitrary valid cursor state (offsets from layout.h). */
#include "bv_model.h"
#define P_POSITION(p) ((p) + OFF_Parser_position)
#define P_POS(p)  (*(char**)(P_POSITION(p) + OFF_Pos_pos))
#define P_END(p)  (*(char**)(P_POSITION(p) + OFF_Pos_end))
#define P_LINE(p) (*(int32_t*)(P_POSITION(p) + OFF_Pos_line))
#define P_COL(p)  (*(int32_t*)(P_POSITION(p) + OFF_Pos_col))
#define P_LASTCOL(p) (*(int32_t*)(P_POSITION(p) + OFF_Pos_last_col))
#define P_DEPTH(p) (*(uint64_t*)((p) + OFF_Parser_current_parse_depth))
static struct sso_string parser_fname;
static void parser_init(char* parser, char* buf, unsigned len, unsigned off, int32_t line, int32_t col, int32_t lastcol) {
  memset(parser, 0, SZ_Parser);
  parser_fname.p = parser_fname.buf; parser_fname.n = 1; parser_fname.buf[0] = 'f'; parser_fname.buf[1] = 0;
  *(char**)(parser + OFF_Parser_filename) = (char*)&parser_fname;       /* shared_ptr<std::string>: object pointer; control block null */
  P_POS(parser) = len ? buf + off : (char*)0; P_END(parser) = len ? buf + len : (char*)0;
  P_LINE(parser) = line; P_COL(parser) = col; P_LASTCOL(parser) = lastcol;
}
/* eval_error construction/destruction is cut (pair): the message and trace carry nothing these harnesses read */
int eval_error_ctor_calls;
#endif
