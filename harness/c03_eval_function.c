/* C03 / C09 / C10: the real chaiscript::eval::detail::eval_function<Tracer> - the frame every script function, lambda, method and guard runs in.
   State: a Stack_Holder image whose current scope is empty or ends in one entry with a symbolic name (possibly "__this", the marker This_Foist
   leaves for attribute-held functions), NP parameter names (symbolic text, possibly "this"), NP argument values, an optional captures map with
   0..2 entries, has_this_capture symbolic.  Stubs: Dispatch_State constructor/stack_holder (hand out the image), Stack_Push_Pop constructor /
   destructor (counters; the constructor really switches the holder to a fresh empty stack, so a lookup made after it sees no "__this"),
   add_object (recorder; may throw at any call), the body's eval (returns, throws Return_Value or one of 6 other kinds).
   Asserted:
   C03  the frame is: `this` (the attribute-held object if the caller's scope ends in "__this", else the first argument; not bound at all when the
        lambda captured `this` itself), then the captures in map order, then each parameter under its name with the argument of the same position,
        except a parameter called "this"; the object `this` denotes is determined in the CALLER's scope, i.e. before the new stack is pushed;
        every binding happens inside the new stack; the body runs once, after all bindings; its value - or the value of a `return` - is the result.
   C09  exactly one stack is pushed and popped on every exit (normal, return, any exception from the body or from a binding).
   C10  every exception other than Return_Value leaves as the very same object. */
#define NNODES 2
#include "node_model.h"
#ifndef NP
#define NP 1
#endif
#ifndef NL
#define NL 0          /* -1: t_locals == nullptr */
#endif
#ifndef TOP
#define TOP 1
#endif
struct holder { struct vec3 stacks; struct vec3 call_params; int32_t call_depth; int32_t pad_; };
_Static_assert(offsetof(struct holder, stacks) == OFF_SH_stacks && sizeof(struct holder) == SZ_Stack_Holder, "Stack_Holder layout");
struct scope { char cmp_[OFF_Scope_data]; struct vec3 data; char tail_[SZ_Scope - OFF_Scope_data - sizeof(struct vec3)]; };
struct entry { struct sso_string name; struct BV val; };
_Static_assert(sizeof(struct scope) == SZ_Scope && sizeof(struct entry) == SZ_Scope_Entry && offsetof(struct entry, val) == OFF_Entry_second, "Scope layout");
static struct holder H; static struct vec3 stacks_before[1], stacks_in_frame[2]; static struct scope caller_scope[1], fresh_scope[1]; static struct entry top_entry[1];
/* captures: std::map<std::string, Boxed_Value> image */
struct mapnode { char base[32]; struct sso_string key; struct BV val; };
static struct { char cmp[8]; uint32_t color; uint32_t pad_; char* parent; char* left; char* right; uint64_t count; } locals_map;
static struct mapnode lnode[2];
char* RB_INCREMENT(char* n) { if (NL >= 2 && n == (char*)&lnode[0]) return (char*)&lnode[1]; return (char*)&locals_map.color; }
static struct sso_string names[3]; static struct BV vals[3]; static char valobj[3][8], thisobj_[8], capobj[2][8];
static char engine[SZ_Dispatch_Engine] __attribute__((aligned(8)));
static char* ds_ptr; static int n_ds, n_push, n_pop, n_add, n_body, add_throw_at, body_beh, body_after_adds, adds_in_frame = 1, lookups_frame_ok = 1;
#define B_RETURN_VALUE B_NKINDS
static struct { char* name_ptr; uint64_t len; char b[6]; char* val; } rec[8];
void DS_CTOR(char* self, char* eng) { n_ds++; ds_ptr = self; __CPROVER_assert(eng == engine, "C03: the frame is built on the engine the function belongs to"); }
char* STACK_HOLDER(char* st) { return (char*)&H; }
void SPP_CTOR(char* self, char* st) { n_push++; H.stacks.b = (char*)&stacks_in_frame[0]; H.stacks.e = H.stacks.c = (char*)&stacks_in_frame[2]; }
void SPP_DTOR(char* self) { n_pop++; H.stacks.b = (char*)&stacks_before[0]; H.stacks.e = H.stacks.c = (char*)&stacks_before[1]; }
void ADD_OBJECT(char* st, char* name, char* bv) {
  int k = n_add++; if (!(n_push == 1 && n_pop == 0)) adds_in_frame = 0;
  if (k < 8) { rec[k].name_ptr = name; rec[k].len = *(uint64_t*)(name + 8); char* p = *(char**)name; for (int i = 0; i < 6; i++) rec[k].b[i] = (uint64_t)i < rec[k].len ? p[i] : 0; rec[k].val = ((struct BV*)bv)->p; }
  if (k == add_throw_at) child_throw(B_RUNTIME, TI_EVAL_ERROR, TI_BOXED_VALUE);
}
static struct bv_data rv_value; static struct exc_image { char* p; char* pn; char rest[144]; } rv_exc;
void NODE_EVAL_CHILD(char* sret, char* self, char* st) {
  n_body++; body_after_adds = n_add; __CPROVER_assert(self == (char*)&nodes[0] && st == ds_ptr && n_push == 1 && n_pop == 0, "C03: the body is evaluated inside the new frame");
  if (body_beh == B_RET) { ((struct BV*)sret)->p = valpool[0]; ((struct BV*)sret)->pn = 0; return; }
  if (body_beh == B_RETURN_VALUE) { rv_exc.p = (char*)&rv_value; rv_exc.pn = 0; thrown_obj = (char*)&rv_exc; thrown_kind = B_RETURN_VALUE; __VERIF_throw_static(thrown_obj, (char*)&g__ZTIN10chaiscript4eval6detail12Return_ValueE); return; }
  child_throw(body_beh, TI_EVAL_ERROR, TI_BOXED_VALUE);
}
static void sym_name(struct sso_string* s, unsigned maxlen) { s->p = s->buf; uint64_t n = nondet_u8(); __CPROVER_assume(n >= 1 && n <= maxlen); s->n = n; for (unsigned i = 0; i < 8; i++) { char c = (char)nondet_u8(); s->buf[i] = i < n ? c : 0; } }
static int name_is(struct sso_string* s, const char* lit, unsigned n) { if (s->n != n) return 0; for (unsigned i = 0; i < n; i++) if (s->buf[i] != lit[i]) return 0; return 1; }
void EVAL_FUNCTION(char* sret, char* eng, char* node, char* names_vec, char* params, char* locals, uint8_t has_this_capture);
int main(void) {
  /* caller's stack: one stack, one scope, TOP entries */
  H.stacks.b = (char*)&stacks_before[0]; H.stacks.e = H.stacks.c = (char*)&stacks_before[1]; H.call_depth = 1;
  stacks_before[0].b = (char*)&caller_scope[0]; stacks_before[0].e = stacks_before[0].c = (char*)&caller_scope[1];
  stacks_in_frame[0] = stacks_before[0]; stacks_in_frame[1].b = (char*)&fresh_scope[0]; stacks_in_frame[1].e = stacks_in_frame[1].c = (char*)&fresh_scope[1];
  caller_scope[0].data.b = (char*)&top_entry[0]; caller_scope[0].data.e = caller_scope[0].data.c = (char*)&top_entry[TOP];
  sym_name(&top_entry[0].name, 7); top_entry[0].val.p = thisobj_; top_entry[0].val.pn = 0;
  int top_is_this = TOP && name_is(&top_entry[0].name, "__this", 6);
  for (int i = 0; i < 3; i++) { sym_name(&names[i], 5); vals[i].p = valobj[i]; vals[i].pn = 0; }
  struct vec3 names_vec = { (char*)&names[0], (char*)&names[NP], (char*)&names[NP] };
  struct { struct BV* b; struct BV* e; } params = { &vals[0], &vals[NP] };        /* the proxy function's arity check: as many arguments as parameter names */
  for (int i = 0; i < 2; i++) { sym_name(&lnode[i].key, 4); lnode[i].val.p = capobj[i]; lnode[i].val.pn = 0; }
  locals_map.left = NL >= 1 ? (char*)&lnode[0] : (char*)&locals_map.color; locals_map.count = NL >= 0 ? NL : 0;
  uint8_t has_this_capture = nondet_u8() & 1;
  { unsigned b = nondet_u32(); __CPROVER_assume(b <= B_NKINDS); body_beh = (int)b; } add_throw_at = (int)(nondet_u8() & 7);
  struct BV out = { 0, 0 };
  EVAL_FUNCTION((char*)&out, engine, (char*)&nodes[0], (char*)&names_vec, (char*)&params, NL >= 0 ? (char*)&locals_map : (char*)0, has_this_capture);
  /* ---- expected bindings */
  struct { int is_this; char* name_ptr; char* val; } ex[8]; int en = 0;
  char* thisobj = top_is_this ? thisobj_ : (NP > 0 ? valobj[0] : (char*)0);
  if (thisobj && !has_this_capture) { ex[en].is_this = 1; ex[en].name_ptr = 0; ex[en].val = thisobj; en++; }
  for (int i = 0; i < (NL > 0 ? NL : 0); i++) { ex[en].is_this = 0; ex[en].name_ptr = (char*)&lnode[i].key; ex[en].val = capobj[i]; en++; }
  for (int i = 0; i < NP; i++) if (!name_is(&names[i], "this", 4)) { ex[en].is_this = 0; ex[en].name_ptr = (char*)&names[i]; ex[en].val = valobj[i]; en++; }
  __CPROVER_assert(n_ds == 1 && n_push == 1 && n_pop == 1, "C09: a function frame pushes exactly one stack and pops it on every exit");
  __CPROVER_assert(adds_in_frame, "C03: parameters, captures and this are bound inside the function's own stack");
  __CPROVER_assert(H.stacks.b == (char*)&stacks_before[0], "C09: the caller's stack is current again");
  int done = add_throw_at < en ? add_throw_at + 1 : en;
  __CPROVER_assert(n_add == done, "C03: the frame holds this (unless captured), the captures and the parameters - each bound once, nothing else");
  for (int k = 0; k < 8; k++) if (k < done) {
    if (ex[k].is_this) __CPROVER_assert(rec[k].len == 4 && rec[k].b[0] == 't' && rec[k].b[1] == 'h' && rec[k].b[2] == 'i' && rec[k].b[3] == 's' && rec[k].val == ex[k].val, "C03: `this` is the attribute-held object when the call came through one, else the first argument (determined in the caller's scope)");
    else __CPROVER_assert(rec[k].name_ptr == ex[k].name_ptr && rec[k].val == ex[k].val, "C03: captures in map order, then each parameter bound under its own name to the argument of the same position (a parameter called this is not rebound)");
  }
  if (add_throw_at < en) {
    __CPROVER_assert(n_body == 0 && __exc_pending && __exc_obj == thrown_obj, "C10: a failing binding (name conflict) leaves as the same exception; the body does not run");
    __CPROVER_assert(0, "witness: binding throws"); return 0; }
  __CPROVER_assert(n_body == 1 && body_after_adds == en, "C03: the body runs exactly once, after every binding");
  if (body_beh == B_RET) { __CPROVER_assert(!__exc_pending && out.p == valpool[0], "C03: the value of the body is the result of the call"); __CPROVER_assert(0, "witness: body returns"); }
  else if (body_beh == B_RETURN_VALUE) { __CPROVER_assert(!__exc_pending && out.p == (char*)&rv_value, "C03: a return statement's value is the result of the call"); __CPROVER_assert(0, "witness: return statement"); }
  else { __CPROVER_assert(__exc_pending && __exc_obj == thrown_obj, "C10: an exception thrown in a function body leaves the frame as the very same object"); __CPROVER_assert(0, "witness: body throws"); }
  if (top_is_this) __CPROVER_assert(0, "witness: attribute-held this");
  if (en >= 2) __CPROVER_assert(0, "witness: two bindings");
  return 0;
}
