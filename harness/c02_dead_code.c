/* C02 O1: the real optimizer::Dead_Code::optimize on a heap node with K children of symbolic kinds (Id, Constant, Noop, or an
   effectful kind); the new Block it builds (chaiscript::make_unique<..., Block_AST_Node>) is a recorder.
   Asserted: a node that is not a Block is returned untouched; in a Block exactly the non-final children that are Constant or
   Noop are dropped - statements whose evaluation can neither fail nor have an effect (lemma harnesses O1.lemma) - and every
   other child is kept, the same node objects in the same order, with the block's text and location. */
#define NNODES 6
#include "node_model.h"
static int mk_calls; static char* mk_children[4]; static uint64_t mk_n; static char* mk_text; static char* mk_loc; static struct node new_block;
void MAKE_BLOCK(char* sret, char* text, char* loc, char* children) {
  mk_calls++; mk_text = text; mk_loc = loc; struct vec3* v = (struct vec3*)children; mk_n = (v->b == v->e) ? 0 : (uint64_t)((char**)v->e - (char**)v->b);
  for (unsigned i = 0; i < 4; i++) if (i < mk_n) mk_children[i] = ((char**)v->b)[i];
  *(char**)sret = (char*)&new_block; }
static int dtor_calls;
void UPTR_DTOR(char* self) { dtor_calls++; }
void OPTIMIZE(char* sret, char* self, char* node_uptr);
int main(void) {
  const int kinds[4] = { AST_Id, AST_Constant, AST_Noop, AST_Fun_Call };
  unsigned root_is_block = nondet_u8() & 1; nodes[0].identifier = root_is_block ? AST_Block : AST_Scopeless_Block;
  int ck[4]; for (int i = 1; i <= KCH; i++) { unsigned k = nondet_u32() & 3; ck[i] = kinds[k]; nodes[i].identifier = ck[i]; }
  /* children vector lives on the heap like the parser builds it: exactly KCH slots */
  char** slots = (char**)malloc((KCH ? KCH : 1) * sizeof(char*)); for (int i = 0; i < KCH; i++) slots[i] = (char*)&nodes[i + 1];
  nodes[0].children.b = (char*)slots; nodes[0].children.e = (char*)(slots + KCH); nodes[0].children.c = nodes[0].children.e; nodes[0].text.p = nodes[0].text.buf;
  char* in = (char*)&nodes[0]; char* out = 0; char pass_obj[1];
  OPTIMIZE((char*)&out, pass_obj, (char*)&in);
  __CPROVER_assert(!__exc_pending, "C02: the pass does not fail");
  int nkeep = 0; int keep[4];
  for (int i = 1; i <= KCH; i++) if ((ck[i] != AST_Constant && ck[i] != AST_Noop) || i == KCH) keep[nkeep++] = i;
  if (!root_is_block || nkeep == KCH) {
    __CPROVER_assert(out == (char*)&nodes[0] && mk_calls == 0, "C02: a node with nothing to remove is returned as it is");
    for (int i = 0; i < KCH; i++) __CPROVER_assert(slots[i] == (char*)&nodes[i + 1], "C02: its children are untouched");
    __CPROVER_assert(0, "witness: unchanged");
  } else {
    __CPROVER_assert(mk_calls == 1 && out == (char*)&new_block, "C02: the rewritten block replaces the original");
    __CPROVER_assert(mk_n == (uint64_t)nkeep, "C02: only non-final Constant/Noop statements are dropped from a block (an identifier may fail to resolve and must stay)");
    for (int j = 0; j < 4; j++) if (j < nkeep && j < (int)mk_n) __CPROVER_assert(mk_children[j] == (char*)&nodes[keep[j]], "C02: the kept statements are the same nodes in the same order");
    __CPROVER_assert(mk_text == (char*)&nodes[0].text && mk_loc == nodes[0].location, "C02: the rewritten block keeps the text and location of the original");
    __CPROVER_assert(0, "witness: statements dropped");
  }
  return 0;
}
