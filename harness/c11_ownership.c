/* C11 L1: the ownership table.  Every real Boxed_Value::Object_Data::get<...> overload over int (the routes by which a C++ object enters a
   Boxed_Value: by value, T*, const T*, reference_wrapper, shared_ptr const&, shared_ptr&&, unique_ptr&&) runs on symbolic arguments.  The
   constructors of detail::Any and the std::make_shared calls are recorders with a reference-count model (generated from the prototypes
   in the IR: c11_stubs.h), so what the solver sees is exactly which object the new Data refers to, whether the Any it stores owns a share of it,
   and what happened to the caller's handle.
   Asserted per form:
     value            -> a fresh heap copy of the value exists, the Any holds the only share of it (use_count 1, not disposed), is_ref false
     shared_ptr const&-> the Any holds an additional share (use_count before + 1), the caller's handle is untouched, is_ref false
     shared_ptr &&    -> the share moves into the Any (use_count unchanged, caller's handle emptied, nothing disposed), is_ref false
     T* / const T* / reference_wrapper -> no share is taken or released, is_ref true (the value is copied, not aliased, when it is stored)
     unique_ptr &&    -> ownership moves into a shared holder that the Any owns; the caller's unique_ptr is emptied; is_ref true
   and for all: Data points at exactly that object, const-ness follows the form, the return-value flag is passed through, exactly one Data is built. */
#include "layout.h"
#include "bv_model.h"
extern struct verif_ti g__ZTIi;
#define F_VALUE 1
#define F_PTR 2
#define F_CPTR 3
#define F_REFW 4
#define F_CREFW 5
#define F_SP_CREF 6
#define F_CSP_CREF 7
#define F_CSP_MOVE 8
#define F_UP_MOVE 9
#define K_REF 1
#define K_SP_MOVE 2
#define K_SP_COPY 3
#define K_UP_MOVE 4
#define K_UP_COPY 5
/* ---- reference-count model: libstdc++ control block image {vptr, use, weak}; _M_dispose / _M_destroy are recorders */
struct ctrl { char* vptr; uint32_t use; uint32_t weak; };
static int disposed[3], destroyed[3];
static struct ctrl cb[3];                         /* 0: caller's object  1: the copy made by the value form  2: the unique_ptr holder */
static int cb_index(char* c) { return c == (char*)&cb[0] ? 0 : c == (char*)&cb[1] ? 1 : 2; }
static void cb_dispose(char* c) { disposed[cb_index(c)]++; }
static void cb_destroy(char* c) { destroyed[cb_index(c)]++; }
static void cb_dtor(char* c) { }
static char* cb_vtable[4] = { (char*)cb_dtor, (char*)cb_dtor, (char*)cb_dispose, (char*)cb_destroy };
struct SP { char* p; char* pn; };
static int32_t caller_obj, copy_obj; static char* up_holder;
static int n_mk_int, n_mk_up, n_mk_data, n_any;
static int any_kind; static char* any_ptr; static char* any_ctrl; static char* any_self;
static char* d_ti; static char* d_bare; static uint32_t d_flags; static int d_isref, d_rv, d_any_ok; static char* d_ptr;
static struct bv_data made_data; static struct ctrl data_cb;
static void any_ctor(char* self, char* arg, int kind) {
  n_any++; any_kind = kind; any_self = self; *(uint64_t*)self = 0xA11A11;
  if (kind == K_REF) { any_ptr = *(char**)arg; any_ctrl = 0; return; }
  struct SP* s = (struct SP*)arg; any_ptr = s->p; any_ctrl = s->pn;
  if (kind == K_SP_MOVE || kind == K_UP_MOVE) { s->p = 0; s->pn = 0; }
  else if (s->pn) ((struct ctrl*)s->pn)->use++;
}
static void mk_int(char* sret, char* val) { n_mk_int++; copy_obj = *(int32_t*)val; cb[1].vptr = (char*)cb_vtable; cb[1].use = 1; cb[1].weak = 1; ((struct SP*)sret)->p = (char*)&copy_obj; ((struct SP*)sret)->pn = (char*)&cb[1]; }
static void mk_up(char* sret, char* up) { n_mk_up++; up_holder = *(char**)up; *(char**)up = 0; cb[2].vptr = (char*)cb_vtable; cb[2].use = 1; cb[2].weak = 1; ((struct SP*)sret)->p = (char*)&up_holder; ((struct SP*)sret)->pn = (char*)&cb[2]; }
static void mk_data(char* sret, char* ti, char* any, char* isref, char* ptr, char* rv) {
  n_mk_data++; d_ti = *(char**)(ti + OFF_TI_type_info); d_bare = *(char**)(ti + OFF_TI_bare_type_info); d_flags = *(uint32_t*)(ti + OFF_TI_flags);
  d_any_ok = (any == any_self) && *(uint64_t*)any == 0xA11A11; *(uint64_t*)any = 0;      /* the Any is moved into the Data */
  d_isref = *(uint8_t*)isref & 1; d_ptr = *(char**)ptr; d_rv = *(uint8_t*)rv & 1;
  data_cb.vptr = (char*)cb_vtable; data_cb.use = 1; data_cb.weak = 1; ((struct SP*)sret)->p = (char*)&made_data; ((struct SP*)sret)->pn = (char*)&data_cb;
}
#include "c11_stubs.h"
#if FORM == F_VALUE
void GET(char* sret, uint32_t v, uint8_t rv);
#else
void GET(char* sret, char* a, uint8_t rv);
#endif
int main(void) {
  struct SP out = {0, 0}; uint8_t rv = nondet_u8() & 1; caller_obj = nondet_i32();
  uint32_t use0 = nondet_u32(); __CPROVER_assume(use0 >= 1 && use0 < 1000000);
  cb[0].vptr = (char*)cb_vtable; cb[0].use = use0; cb[0].weak = 1;
  struct SP sp = { (char*)&caller_obj, (char*)&cb[0] }; char* refw = (char*)&caller_obj; char* up = (char*)&caller_obj;
#if FORM == F_VALUE
  GET((char*)&out, (uint32_t)caller_obj, rv);
#elif FORM == F_PTR || FORM == F_CPTR
  GET((char*)&out, (char*)&caller_obj, rv);
#elif FORM == F_REFW || FORM == F_CREFW
  GET((char*)&out, refw, rv);       /* reference_wrapper<T> is passed as its one pointer */
#elif FORM == F_UP_MOVE
  GET((char*)&out, (char*)&up, rv);
#else
  GET((char*)&out, (char*)&sp, rv);
#endif
  __CPROVER_assert(!__exc_pending, "C11: wrapping an object does not fail");
  __CPROVER_assert(n_mk_data == 1 && out.p == (char*)&made_data, "C11: exactly one Data is built and returned");
  __CPROVER_assert(n_any == 1 && d_any_ok, "C11: the Any handed to the Data is the one constructed for this object");
  __CPROVER_assert(d_rv == rv, "C11: the return-value flag is passed through");
  __CPROVER_assert(d_bare == (char*)&g__ZTIi && d_ti == (char*)&g__ZTIi, "C11: the Data is typed as the wrapped type");
#if FORM == F_CPTR || FORM == F_CREFW || FORM == F_CSP_CREF || FORM == F_CSP_MOVE
  __CPROVER_assert((d_flags & TIF_const) != 0, "C11: a const route yields a const Data");
#else
  __CPROVER_assert((d_flags & TIF_const) == 0, "C11: a non-const route yields a mutable Data");
#endif
  __CPROVER_assert(disposed[0] == 0 && destroyed[0] == 0, "C11: the caller's object is not destroyed by wrapping it");
#if FORM == F_VALUE
  __CPROVER_assert(n_mk_int == 1 && copy_obj == caller_obj, "C11: the value form stores a heap copy of the value");
  __CPROVER_assert((any_kind == K_SP_MOVE || any_kind == K_SP_COPY) && any_ptr == (char*)&copy_obj && any_ctrl == (char*)&cb[1], "C11: the value form's Any owns the copy");
  __CPROVER_assert(cb[1].use == 1 && disposed[1] == 0, "C11: the copy is alive and referred to exactly once (by the Any) when get() returns");
  __CPROVER_assert(d_ptr == (char*)&copy_obj && !d_isref, "C11: the Data points at the owned copy and is not marked as a reference");
  __CPROVER_assert(cb[0].use == use0, "C11: unrelated reference counts are untouched");
#elif FORM == F_PTR || FORM == F_CPTR || FORM == F_REFW || FORM == F_CREFW
  __CPROVER_assert(any_kind == K_REF && any_ptr == (char*)&caller_obj, "C11: a pointer/reference route stores a reference to the caller's object");
  __CPROVER_assert(d_ptr == (char*)&caller_obj && d_isref, "C11: the Data points at the caller's object and is marked as a reference");
  __CPROVER_assert(cb[0].use == use0 && n_mk_int == 0, "C11: a pointer/reference route takes no share and makes no copy");
#elif FORM == F_SP_CREF || FORM == F_CSP_CREF
  __CPROVER_assert(any_kind == K_SP_COPY && any_ptr == (char*)&caller_obj && any_ctrl == (char*)&cb[0], "C11: the shared_ptr const& route stores a copy of the shared_ptr");
  __CPROVER_assert(cb[0].use == use0 + 1, "C11: the stored copy holds one additional share");
  __CPROVER_assert(sp.p == (char*)&caller_obj && sp.pn == (char*)&cb[0], "C11: the caller's shared_ptr is untouched");
  __CPROVER_assert(d_ptr == (char*)&caller_obj && !d_isref, "C11: the Data points at the shared object and is not marked as a reference");
#elif FORM == F_CSP_MOVE
  __CPROVER_assert((any_kind == K_SP_MOVE || any_kind == K_SP_COPY) && any_ptr == (char*)&caller_obj && any_ctrl == (char*)&cb[0], "C11: the shared_ptr&& route stores the shared_ptr");
  __CPROVER_assert(any_kind == K_SP_COPY ? (cb[0].use == use0 + 1 && sp.pn == (char*)&cb[0]) : (cb[0].use == use0 && sp.p == 0 && sp.pn == 0), "C11: the share is moved (caller emptied) or copied (count + 1), never both or neither");
  __CPROVER_assert(d_ptr == (char*)&caller_obj && !d_isref, "C11: the Data points at the shared object and is not marked as a reference");
#elif FORM == F_UP_MOVE
  __CPROVER_assert(n_mk_up == 1 && up_holder == (char*)&caller_obj && up == 0, "C11: ownership moves out of the caller's unique_ptr into the holder");
  __CPROVER_assert((any_kind == K_UP_MOVE || any_kind == K_UP_COPY) && any_ptr == (char*)&up_holder && any_ctrl == (char*)&cb[2], "C11: the Any owns the unique_ptr holder");
  __CPROVER_assert(cb[2].use == 1 && disposed[2] == 0, "C11: the holder is alive and referred to exactly once when get() returns");
  __CPROVER_assert(d_ptr == (char*)&caller_obj && d_isref, "C11: the Data points at the owned object (marked as reference: it cannot be reseated)");
#endif
  __CPROVER_assert(0, "witness: wrapped");
  return 0;
}
