/* C09 S1: the three RAII guards every evaluator node uses - the real constructors and destructors of eval::detail::Scope_Push_Pop,
   Function_Push_Pop (+ save_params) and Stack_Push_Pop - over counter stubs of the six stack primitives (their real code: S0) and a Stack_Holder image
   with a symbolic call depth.  The primitives really move the holder's counters, so anything the guard code reads from the holder is consistent.
   Asserted (what makes "a guard on the C++ stack" equal to "balanced on every exit"):
     - a constructor that RETURNS has pushed exactly once, on this thread's holder (and pushed nothing else);
     - a constructor that THROWS has left nothing pushed: the object does not exist, so its destructor will never pop;
     - the destructor pops exactly once, the same kind, and cannot throw; push followed by pop restores depth, scopes, stacks;
     - save_params hands exactly the caller's parameter list to the engine, once. */
#include "layout.h"
#include "bv_model.h"
#define G_SCOPE 1
#define G_FUNCTION 2
#define G_STACK 3
struct holder { struct vec3 stacks; struct vec3 call_params; int32_t call_depth; int32_t pad_; };
_Static_assert(offsetof(struct holder, call_depth) == OFF_SH_call_depth && sizeof(struct holder) == SZ_Stack_Holder, "Stack_Holder layout");
static struct holder H; static char engine[SZ_Dispatch_Engine] __attribute__((aligned(16))); static char saves[SZ_Conversion_Saves] __attribute__((aligned(8)));
static char* state[4];      /* Dispatch_State: { engine&, stack_holder&, conversion_saves& } - only handed to the stubs below */
char* DS_STACK_HOLDER(char* st) { __CPROVER_assert(st == (char*)state, "C09: the guard works on the Dispatch_State it was given"); return (char*)&H; }
char* DS_CONV_SAVES(char* st) { return saves; }
static int scopes, stacks_, calls, n_save; static char* saved_params; static int wrong_target;
#define CHK(h) do { if ((h) != (char*)&H) wrong_target = 1; } while (0)
void NEW_SCOPE(char* h) { CHK(h); scopes++; } void POP_SCOPE(char* h) { CHK(h); scopes--; }
void NEW_STACK(char* h) { CHK(h); stacks_++; } void POP_STACK(char* h) { CHK(h); stacks_--; }
void NEW_CALL(char* eng, char* h, char* s) { CHK(h); if (eng != engine || s != saves) wrong_target = 1; calls++; H.call_depth++; }
void POP_CALL(char* eng, char* h, char* s) { CHK(h); if (eng != engine || s != saves) wrong_target = 1; calls--; H.call_depth--; }
void SAVE_PARAMS(char* eng, char* params) { n_save++; saved_params = params; if (eng != engine) wrong_target = 1; }
void G_CTOR(char* self, char* st); void G_DTOR(char* self);
#if GUARD == G_FUNCTION
void G_SAVE(char* self, char* params);
#endif
int main(void) {
  state[0] = engine; state[1] = (char*)&H; state[2] = saves;
  int32_t d0 = nondet_i32(); __CPROVER_assume(d0 >= 0 && d0 < 2000000000); H.call_depth = d0;
  char guard[16] __attribute__((aligned(8)));
  G_CTOR(guard, (char*)state);
  int pushed = GUARD == G_SCOPE ? scopes : GUARD == G_FUNCTION ? calls : stacks_;
  int others = (GUARD == G_SCOPE ? 0 : scopes) + (GUARD == G_FUNCTION ? 0 : calls) + (GUARD == G_STACK ? 0 : stacks_);
  __CPROVER_assert(!wrong_target && others == 0, "C09: a guard pushes on this thread's holder, and only its own kind of frame");
  if (__exc_pending) {
    __CPROVER_assert(pushed == 0 && H.call_depth == d0, "C09: a guard whose constructor throws leaves nothing pushed (its destructor will never run)");
    __CPROVER_assert(0, "witness: constructor throws"); return 0;
  }
  __CPROVER_assert(pushed == 1, "C09: a guard whose constructor returns has pushed exactly one frame");
#if GUARD == G_FUNCTION
  static char plist[16]; G_SAVE(guard, plist);
  __CPROVER_assert(!__exc_pending && n_save == 1 && saved_params == plist && calls == 1, "C11: save_params hands the caller's parameter list to the engine, once");
#endif
  G_DTOR(guard);
  pushed = GUARD == G_SCOPE ? scopes : GUARD == G_FUNCTION ? calls : stacks_;
  __CPROVER_assert(!__exc_pending && pushed == 0 && scopes == 0 && calls == 0 && stacks_ == 0 && H.call_depth == d0 && !wrong_target, "C09: the destructor pops exactly the frame the constructor pushed; depth, scopes and stacks are as before");
  __CPROVER_assert(0, "witness: constructed and destroyed");
  return 0;
}
