/* C11 L6 (+ C07 Data invariant): the guard under which a C++ function taking std::shared_ptr<T>& is called - the real constructor and destructor of the
   Sentinel made by Boxed_Value::pointer_sentinel<T>.  While the function runs it may reseat or reset the script value's shared_ptr (the object it
   owned before is then destroyed, correctly).  The box caches two raw pointers to the object next to the shared_ptr.
   Asserted: after the guard is gone BOTH cached pointers denote the object the shared_ptr owns NOW (null after a reset): every later access - through
   a mutable form or a const one (const member, const T&, by-value copy, clone) - reaches the live object, never the one that was destroyed; the
   shared_ptr itself is not touched by the guard. */
#include "layout.h"
#include "bv_model.h"
static struct bv_data data; static struct BV sp; static int32_t old_obj, new_obj; static char cb[16];
void S_CTOR(char* self, char* spref, char* dataref); void S_DTOR(char* self);
int main(void) {
  D_PTR(&data) = &old_obj; D_CPTR(&data) = &old_obj; D_FLAGS(&data) = 0; D_IS_REF(&data) = 0;
  sp.p = (char*)&old_obj; sp.pn = cb;
  char guard[16] __attribute__((aligned(8)));
  S_CTOR(guard, (char*)&sp, (char*)&data);
  /* the called function: leaves the pointer alone, reseats it to another object, or resets it */
  unsigned what = nondet_u8() % 3; char* now = what == 0 ? (char*)&old_obj : what == 1 ? (char*)&new_obj : (char*)0;
  sp.p = now; sp.pn = now ? (char*)cb : (char*)0;
  S_DTOR(guard);
  __CPROVER_assert(!__exc_pending && D_PTR(&data) == (void*)now && D_CPTR(&data) == (const void*)now, "C11: after a call that may reseat a shared_ptr& both cached object pointers of the box - the mutable and the const one - denote the object owned now, not the one that was destroyed");
  __CPROVER_assert(sp.p == now, "C11: the guard does not touch the shared_ptr");
  if (what == 1) __CPROVER_assert(0, "witness: reseated"); if (what == 2) __CPROVER_assert(0, "witness: reset");
  __CPROVER_assert(0, "witness: done");
  return 0;
}
