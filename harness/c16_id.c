/* C16 I5(b) / C20 E2: the real ChaiScript_Parser::Id(validate) (+ real Id_) on an N-byte buffer, either fully symbolic or a
   concrete identifier supplied by the FNV collision search (smtq, I5(a)).  make_node<...> and vector::push_back are recorders.
   Asserted: exactly one node is produced; it is a Constant node <=> the identifier is spelled exactly as one of the nine word
   literals (and then carries that literal's value); otherwise an Id node with the identifier's own text; the node's start
   coordinates are those of the identifier's first byte; the cursor ends right behind the identifier. */
#include "parser_model.h"
#ifndef N
#define N 4
#endif
void F__ZN10chaiscript9exception10eval_errorC2ERKNSt7__cxx1112basic_stringIcSt11char_traitsIcESaIcEEERKNS_13File_PositionES9_(char* self, char* why, char* where, char* fname) { }
void F__ZN10chaiscript9exception10eval_errorD2Ev(char* self) { }
void F__ZN10chaiscript9exception10eval_errorD0Ev(char* self) { }
enum { CK_NONE, CK_BOOL, CK_DOUBLE, CK_INT, CK_FILENAME, CK_STRING, CK_PLACEHOLDER };
int cv_kind, cv_calls; uint64_t cv_bits; static struct bv_data cv_data;
static void cv_ret(char* sret) { ((struct BV*)sret)->p = (char*)&cv_data; ((struct BV*)sret)->pn = 0; cv_calls++; }
void F__ZN10chaiscript9const_varEb(char* sret, uint8_t b) { cv_kind = CK_BOOL; cv_bits = b & 1; cv_ret(sret); }
void F__ZN10chaiscript9const_varIdEENS_11Boxed_ValueERKT_(char* sret, char* v) { cv_kind = CK_DOUBLE; cv_bits = *(uint64_t*)v; cv_ret(sret); }
void F__ZN10chaiscript9const_varIiEENS_11Boxed_ValueERKT_(char* sret, char* v) { cv_kind = CK_INT; cv_bits = (uint64_t)*(uint32_t*)v; cv_ret(sret); }
void F__ZN10chaiscript9const_varISt10shared_ptrINSt7__cxx1112basic_stringIcSt11char_traitsIcESaIcEEEEEENS_11Boxed_ValueERKT_(char* sret, char* v) { cv_kind = CK_FILENAME; cv_bits = (uint64_t)(uintptr_t)*(char**)v; cv_ret(sret); }
void F__ZN10chaiscript9const_varINSt7__cxx1112basic_stringIcSt11char_traitsIcESaIcEEEEENS_11Boxed_ValueERKT_(char* sret, char* v) { cv_kind = CK_STRING; cv_bits = *(uint64_t*)(v + 8); cv_ret(sret); }
void F__ZN10chaiscript11Boxed_ValueC2ISt10shared_ptrINS_8dispatch18Placeholder_ObjectEEvEEOT_b(char* self, char* sp, uint8_t rv) { cv_kind = CK_PLACEHOLDER; *(char**)sp = 0; *(char**)(sp + 8) = 0; /* moved from */ cv_ret(self); }
/* recorders */
enum { NK_NONE, NK_CONST, NK_ID };
int node_kind, node_calls, node_line, node_col, node_cv_kind; uint64_t node_text_len, node_cv_bits; char* node_text; int pushes; static char node_obj[8];
void MK_CONST(char* sret, char* self, uint64_t len, char* ptr, uint32_t line, uint32_t col, char* bv) {
  node_kind = NK_CONST; node_calls++; node_text_len = len; node_text = ptr; node_line = (int)line; node_col = (int)col; node_cv_kind = cv_kind; node_cv_bits = cv_bits; *(char**)sret = node_obj; }
void MK_ID(char* sret, char* self, uint64_t len, char* ptr, uint32_t line, uint32_t col) {
  node_kind = NK_ID; node_calls++; node_text_len = len; node_text = ptr; node_line = (int)line; node_col = (int)col; *(char**)sret = node_obj; }
void PUSH_BACK(char* vec, char* uptr) { pushes++; *(char**)uptr = 0; }
int validate_calls;
void VALIDATE(char* self, uint64_t len, char* ptr) { validate_calls++; }
uint8_t SKIPWS(char* self, uint8_t cr) { return 0; }          /* cut: leading trivia is SkipWS's own harness; here the cursor sits on the token */
uint8_t EOL(char* self) { return 0; }
uint8_t ID(char* self, uint8_t validate);
static int is_id_start(char c) { return (c >= 'a' && c <= 'z') || (c >= 'A' && c <= 'Z') || c == '_'; }
static int is_id_char(char c) { return is_id_start(c) || (c >= '0' && c <= '9'); }
static int eq(const char* a, unsigned n, const char* lit) { unsigned i = 0; for (; i < n; i++) { if (lit[i] == 0 || a[i] != lit[i]) return 0; } return lit[i] == 0; }
int main(void) {
  static struct parser_model PMODEL; char* parser = (char*)&PMODEL;
  char buf[N];
#ifdef TEXT
  { const char* t = TEXT; for (unsigned i = 0; i < N; i++) buf[i] = t[i]; }
#else
  for (unsigned i = 0; i < N; i++) buf[i] = (char)nondet_u8();
  __CPROVER_assume(buf[0] != '`');                              /* quoted identifiers: Id_'s own harness */
#endif
  int32_t line = nondet_i32(), col = nondet_i32(); __CPROVER_assume(line >= 1 && line < (1 << 20) && col >= 1 && col < (1 << 20));
  parser_init(parser, buf, N, 0, line, col, 1);
  uint8_t validate = nondet_u8() & 1;
  unsigned idlen = 0; if (is_id_start(buf[0])) { idlen = 1; for (unsigned i = 1; i < N; i++) { if (idlen == i && is_id_char(buf[i])) idlen = i + 1; } }
  uint8_t r = ID(parser, validate);
  __CPROVER_assert(!__exc_pending, "C16: scanning an identifier does not throw");
  if (idlen == 0) {
    __CPROVER_assert(!(r & 1) && node_calls == 0 && pushes == 0 && P_POS(parser) == buf, "C16: no identifier at the cursor: nothing is produced, nothing consumed");
    __CPROVER_assert(0, "witness: not an identifier");
    return 0;
  }
  __CPROVER_assert((r & 1) && node_calls == 1 && pushes == 1, "C16: an identifier yields exactly one node");
  __CPROVER_assert(P_POS(parser) == buf + idlen, "C20: the cursor ends right behind the identifier");
  __CPROVER_assert(node_text == buf && node_text_len == idlen, "C16: the node carries the identifier's own spelling");
  __CPROVER_assert(node_line == line && node_col == col, "C20: the node starts at the line/column of the identifier's first byte");
  __CPROVER_assert(validate_calls == (validate ? 1 : 0), "C16: declared names are validated exactly when requested");
  int w = eq(buf, idlen, "true") ? 1 : eq(buf, idlen, "false") ? 2 : eq(buf, idlen, "Infinity") ? 3 : eq(buf, idlen, "NaN") ? 4 : eq(buf, idlen, "__LINE__") ? 5 :
          eq(buf, idlen, "__FILE__") ? 6 : eq(buf, idlen, "__FUNC__") ? 7 : eq(buf, idlen, "__CLASS__") ? 8 : eq(buf, idlen, "_") ? 9 : 0;
  if (w == 0) {
    __CPROVER_assert(node_kind == NK_ID, "C16: every identifier not spelled exactly like a word literal is an ordinary name");
    __CPROVER_assert(0, "witness: ordinary identifier");
  } else {
    __CPROVER_assert(node_kind == NK_CONST, "C16: a word literal is recognised");
    const uint64_t INF = 0x7ff0000000000000ull;
    switch (w) {
      case 1: __CPROVER_assert(node_cv_kind == CK_BOOL && node_cv_bits == 1, "C16: true denotes the bool true"); break;
      case 2: __CPROVER_assert(node_cv_kind == CK_BOOL && node_cv_bits == 0, "C16: false denotes the bool false"); break;
      case 3: __CPROVER_assert(node_cv_kind == CK_DOUBLE && node_cv_bits == INF, "C16: Infinity denotes +inf (double)"); break;
      case 4: __CPROVER_assert(node_cv_kind == CK_DOUBLE && (node_cv_bits & INF) == INF && (node_cv_bits & 0xfffffffffffffull) != 0, "C16: NaN denotes a NaN (double)"); break;
      case 5: __CPROVER_assert(node_cv_kind == CK_INT && (int32_t)node_cv_bits == line, "C16: __LINE__ denotes the current line"); break;
      case 6: __CPROVER_assert(node_cv_kind == CK_FILENAME && node_cv_bits == (uint64_t)(uintptr_t)&parser_fname, "C16: __FILE__ denotes the file name given to the parser"); break;
      case 7: case 8: __CPROVER_assert(node_cv_kind == CK_STRING, "C16: __FUNC__/__CLASS__ denote strings"); break;
      case 9: __CPROVER_assert(node_cv_kind == CK_PLACEHOLDER, "C16: _ denotes the bind placeholder"); break;
    }
    __CPROVER_assert(0, "witness: word literal");
  }
  return 0;
}
