/* C05 A3: one Boxed_Number::go<L,R> instance (real code, from the IR) against C++ arithmetic on the same
   fixed-width types.
   Shape (props/C05.py): GO, LT, RT, ART (type after the usual arithmetic conversions, computed independently in
   python), SHT/USHT (promoted lhs type), EXPK_ARITH/EXPK_SHIFT (expected static result types), L_FLOAT, R_FLOAT,
   ARITH_FLOAT, ARITH_SIGNED and the macro family CVT_L/CVT_R/CVT_RL/BACK/ADD/SUB/MUL/DIV/REM.
   Data: both operands (every bit pattern), the operator code (all 33), mutability of the lhs: symbolic.
   Leaf arithmetic (mul/div/rem, every FP op and int<->fp conversion) is the same uninterpreted symbol on both
   sides (rt/verif_arith.h, -DVERIF_UF_ARITH): the claim is "the C++ operation is applied to the C++-converted
   operands and the result has the C++ type", not what the ALU computes.  + - & | ^ << >> and comparisons are exact. */
#include "layout.h"
#include "bv_model.h"

/* ---- recorder stubs for const_var<T> / const_var(bool): remember the static type and the value */
enum { K_int8 = 1, K_uint8, K_int16, K_uint16, K_int32, K_uint32, K_int64, K_uint64, K_float, K_double, K_ldouble, K_bool };
int res_kind; int res_calls;
union { int8_t i8; uint8_t u8; int16_t i16; uint16_t u16; int32_t i32; uint32_t u32; int64_t i64; uint64_t u64; float f; double d; long double ld; uint8_t b; } res;
static struct bv_data res_data;
#define CV(M, T, FIELD, K) void F__ZN10chaiscript9const_varI##M##EENS_11Boxed_ValueERKT_(char* sret, char* v) { res.FIELD = *(T*)v; res_kind = K; res_calls++; ((struct BV*)sret)->p = (char*)&res_data; ((struct BV*)sret)->pn = 0; }
CV(a, int8_t, i8, K_int8) CV(h, uint8_t, u8, K_uint8) CV(s, int16_t, i16, K_int16) CV(t, uint16_t, u16, K_uint16)
CV(i, int32_t, i32, K_int32) CV(j, uint32_t, u32, K_uint32) CV(l, int64_t, i64, K_int64) CV(m, uint64_t, u64, K_uint64)
CV(f, float, f, K_float) CV(d, double, d, K_double) CV(e, long double, ld, K_ldouble)
void F__ZN10chaiscript9const_varEb(char* sret, uint8_t b) { res.b = b & 1; res_kind = K_bool; res_calls++; ((struct BV*)sret)->p = (char*)&res_data; ((struct BV*)sret)->pn = 0; }
/* cut (pairs): message strings and exception constructors carry no value the property reads */
void F__ZN10chaiscript9exception16arithmetic_errorC2ERKNSt7__cxx1112basic_stringIcSt11char_traitsIcESaIcEEE(char* self, char* s) { }
void F__ZN10chaiscript6detail9exception12bad_any_castC2Ev(char* self) { }
void F__ZNSt7__cxx1112basic_stringIcSt11char_traitsIcESaIcEEC2IS3_EEPKcRKS3_(char* self, char* lit, char* al) { *(char**)self = self + 16; *(uint64_t*)(self + 8) = 0; self[16] = 0; }
char* __VERIF_exc_type(void);
void GO(char* sret, uint32_t op, char* t_bv, char* t_lhs, char* c_lhs, char* c_rhs);

#define SAME(x, y) ((x) == (y) || ((x) != (x) && (y) != (y)))
#if defined(CONV_CHECK)
#if CONV_LO_INCL
#define CONV_OK(x) ((long double)(x) >= CONV_LO && (long double)(x) < CONV_HI)
#else
#define CONV_OK(x) ((long double)(x) > CONV_LO && (long double)(x) < CONV_HI)
#endif
#else
#define CONV_OK(x) 1
#endif
#if defined(CONVR_CHECK)   /* plain assignment converts RT -> LT directly */
#define CONVR_OK(x) ((long double)(x) >= CONVR_LO && (long double)(x) < CONVR_HI)
#else
#define CONVR_OK(x) 1
#endif

enum { C_BOOL = 1, C_ARITH, C_SHIFT, C_ASSIGN, C_BADCAST, C_DIV0, C_MINDIV };

int main(void) {
  LT a; RT b; uint32_t op = nondet_u32(); uint8_t lhs_mutable = nondet_u8() & 1;
  { LT ta; RT tb; a = ta; b = tb; }              /* unconstrained: every bit pattern of both operand types */
  __CPROVER_assume(op <= OP_invalid);
#ifdef FIXOP
  __CPROVER_assume(op == FIXOP);
#endif
  const int both_int = !L_FLOAT && !R_FLOAT;
  const int is_assign = (op == OP_assign || op == OP_assign_product || op == OP_assign_sum || op == OP_assign_quotient || op == OP_assign_difference ||
                         op == OP_assign_bitwise_and || op == OP_assign_bitwise_or || op == OP_assign_shift_left || op == OP_assign_shift_right ||
                         op == OP_assign_remainder || op == OP_assign_bitwise_xor);
  const int int_only = (op == OP_shift_left || op == OP_shift_right || op == OP_remainder || op == OP_bitwise_and || op == OP_bitwise_or || op == OP_bitwise_xor ||
                        op == OP_assign_bitwise_and || op == OP_assign_bitwise_or || op == OP_assign_shift_left || op == OP_assign_shift_right ||
                        op == OP_assign_remainder || op == OP_assign_bitwise_xor);
  const int unary_or_invalid = (op == OP_pre_increment || op == OP_pre_decrement || op == OP_bitwise_complement || op == OP_unary_plus || op == OP_unary_minus || op == OP_invalid);
  const int divides = (op == OP_quotient || op == OP_remainder || op == OP_assign_quotient || op == OP_assign_remainder);
  const int shifts = (op == OP_shift_left || op == OP_shift_right || op == OP_assign_shift_left || op == OP_assign_shift_right);
  /* ---- the reference: class of outcome and value, computed BEFORE the call (assumptions are not retroactive) */
  const ART A_ = CVT_L(a), B_ = CVT_R(b);
#if ARITH_FLOAT
  { ART s1 = ADD(A_, B_), s2 = ADD(B_, A_), p1 = MUL(A_, B_), p2 = MUL(B_, A_);      /* same bits: the symbols are uninterpreted, so 'same value' has to be said as 'same representation' */
    __CPROVER_assume(memcmp(&s1, &s2, sizeof s1) == 0 && memcmp(&p1, &p2, sizeof p1) == 0); }
#endif
#ifdef DIVREM_NARROW_LEMMA
  __CPROVER_assume(DIVREM_NARROW_LEMMA(A_, B_));  /* x / y and x % y of two small non-negative values do not depend on the width or signedness they are computed in */
#endif
#ifdef MUL_NARROW_LEMMA
  __CPROVER_assume(MUL_NARROW_LEMMA(A_, B_));     /* trunc(x * y) == trunc(x) * trunc(y): holds for every two's complement multiplier */
#endif
  int cls; ART ev; SHT sv = 0; uint8_t bv = 0; LT lv = a;
  ev = A_;
  if (unary_or_invalid || (int_only && !both_int) || (is_assign && !lhs_mutable)) cls = C_BADCAST;
#if !ARITH_FLOAT
  else if (divides && B_ == 0) cls = C_DIV0;
#if ARITH_SIGNED
  else if (divides && A_ == ART_MIN && B_ == (ART)-1) cls = C_MINDIV;
#endif
#endif
  else {
#if !ARITH_FLOAT
    if (shifts) { __CPROVER_assume(b >= 0 && (uint64_t)b < sizeof(SHT) * 8); }     /* over-wide shifts are excluded by the property */
#endif
    switch (op) {
      case OP_equals: cls = C_BOOL; bv = (A_ == B_); break;
      case OP_less_than: cls = C_BOOL; bv = (A_ < B_); break;
      case OP_greater_than: cls = C_BOOL; bv = (A_ > B_); break;
      case OP_less_than_equal: cls = C_BOOL; bv = (A_ <= B_); break;
      case OP_greater_than_equal: cls = C_BOOL; bv = (A_ >= B_); break;
      case OP_not_equal: cls = C_BOOL; bv = (A_ != B_); break;
      case OP_sum: cls = C_ARITH; ev = ADD(A_, B_); break;
      case OP_difference: cls = C_ARITH; ev = SUB(A_, B_); break;
      case OP_product: cls = C_ARITH; ev = MUL(A_, B_); break;
      case OP_quotient: cls = C_ARITH; ev = DIV(A_, B_); break;
      case OP_assign: cls = C_ASSIGN; __CPROVER_assume(CONVR_OK(b)); lv = CVT_RL(b); break;
      case OP_assign_sum: cls = C_ASSIGN; ev = ADD(A_, B_); __CPROVER_assume(CONV_OK(ev)); lv = BACK(ev); break;
      case OP_assign_difference: cls = C_ASSIGN; ev = SUB(A_, B_); __CPROVER_assume(CONV_OK(ev)); lv = BACK(ev); break;
      case OP_assign_product: cls = C_ASSIGN; ev = MUL(A_, B_); __CPROVER_assume(CONV_OK(ev)); lv = BACK(ev); break;
      case OP_assign_quotient: cls = C_ASSIGN; ev = DIV(A_, B_); __CPROVER_assume(CONV_OK(ev)); lv = BACK(ev); break;
#if !ARITH_FLOAT
      case OP_remainder: cls = C_ARITH; ev = REM(A_, B_); break;
      case OP_bitwise_and: cls = C_ARITH; ev = A_ & B_; break;
      case OP_bitwise_or: cls = C_ARITH; ev = A_ | B_; break;
      case OP_bitwise_xor: cls = C_ARITH; ev = A_ ^ B_; break;
      case OP_shift_left: cls = C_SHIFT; sv = (SHT)((USHT)(SHT)a << (unsigned)b); break;
      case OP_shift_right: cls = C_SHIFT; sv = (SHT)a >> (unsigned)b; break;
      case OP_assign_remainder: cls = C_ASSIGN; lv = BACK(REM(A_, B_)); break;
      case OP_assign_bitwise_and: cls = C_ASSIGN; lv = BACK(A_ & B_); break;
      case OP_assign_bitwise_or: cls = C_ASSIGN; lv = BACK(A_ | B_); break;
      case OP_assign_bitwise_xor: cls = C_ASSIGN; lv = BACK(A_ ^ B_); break;
      case OP_assign_shift_left: cls = C_ASSIGN; lv = (LT)(SHT)((USHT)(SHT)a << (unsigned)b); break;
      case OP_assign_shift_right: cls = C_ASSIGN; lv = (LT)((SHT)a >> (unsigned)b); break;
#endif
      default: cls = 0; break;
    }
  }
  /* ---- the real code */
  LT lhs_store = a; RT rhs_store = b;
  static struct bv_data lhs_data; struct BV tbv = { (char*)&lhs_data, 0 }, out = { 0, 0 };
  GO((char*)&out, op, (char*)&tbv, lhs_mutable ? (char*)&lhs_store : (char*)0, (char*)&lhs_store, (char*)&rhs_store);
  /* ---- comparison */
  __CPROVER_assert(cls != 0, "C05: harness covers every operator");
  __CPROVER_assert(SAME(rhs_store, b), "C05: the right operand is never written");
  if (cls != C_ASSIGN) __CPROVER_assert(SAME(lhs_store, a), "C05/C07: the left operand is written only by compound assignment through a mutable pointer");
  switch (cls) {
    case C_BADCAST:
      __CPROVER_assert(0, "witness: undefined (operator, type) combination");
      __CPROVER_assert(__exc_pending && __VERIF_exc_type() == (char*)&g__ZTIN10chaiscript6detail9exception12bad_any_castE, "C05: operator not defined for these operand types raises bad_any_cast");
      __CPROVER_assert(res_calls == 0, "C05: no result is produced when the operation raises");
      break;
#if !ARITH_FLOAT
    case C_DIV0:
      __CPROVER_assert(0, "witness: integer division by zero");
      __CPROVER_assert(__exc_pending && __VERIF_exc_type() == (char*)&g__ZTIN10chaiscript9exception16arithmetic_errorE, "C05: integer division or remainder by zero raises arithmetic_error");
      __CPROVER_assert(res_calls == 0 && SAME(lhs_store, a), "C05: no result is produced when the operation raises");
      break;
    case C_MINDIV:
      __CPROVER_assert(0, "witness: MIN / -1");
      __CPROVER_assert(__exc_pending, "C05: MIN / -1 and MIN % -1 (which trap the CPU) raise an exception");
      break;
#endif
    case C_BOOL:
      __CPROVER_assert(!__exc_pending, "C05: comparison does not throw");
      __CPROVER_assert(res_kind == K_bool && res.b == bv, "C05: comparison yields the C++ truth value as bool");
      break;
    case C_ARITH:
      __CPROVER_assert(!__exc_pending, "C05: defined arithmetic does not throw");
      __CPROVER_assert(res_kind == EXPK_ARITH, "C05: result has the C++ common type (width, signedness, floating-ness)");
      __CPROVER_assert(SAME(*(ART*)&res, ev), "C05: result value equals the C++ expression");
      break;
    case C_SHIFT:
      __CPROVER_assert(!__exc_pending, "C05: defined shift does not throw");
      __CPROVER_assert(res_kind == EXPK_SHIFT, "C05: shift result has the promoted type of the left operand");
      __CPROVER_assert(*(SHT*)&res == sv, "C05: shift value equals the C++ expression");
      break;
    case C_ASSIGN:
      __CPROVER_assert(!__exc_pending, "C05: defined compound assignment does not throw");
      __CPROVER_assert(out.p == tbv.p && res_calls == 0, "C05: compound assignment returns the left operand itself");
      __CPROVER_assert(SAME(lhs_store, lv), "C05: compound assignment updates the left operand in place with the C++ value");
      break;
  }
#ifndef NO_WITNESS
  if (cls == C_BOOL) __CPROVER_assert(0, "witness: comparison evaluated");
  if (cls == C_ARITH) __CPROVER_assert(0, "witness: arithmetic evaluated");
  if (cls == C_ASSIGN) __CPROVER_assert(0, "witness: compound assignment evaluated");
#endif
  return 0;
}
