/* C07 N4: the registered `=` overloads whose target is a plain Boxed_Value - ptr_assign<Proxy_Function_Base>, ptr_assign<const Proxy_Function_Base>
   (assignment of function objects) and Bootstrap::unknown_assign (assignment to an undefined value).  No typed parameter cast stands in front of
   them, so they alone decide whether the target may be written; `=`(lhs, rhs) in function-call form reaches them without passing the Equation node.
   The target is an arbitrary box satisfying the Data invariant (undefined => not const) of a type from {function object, other, undefined};
   Boxed_Value::assign (what overwrites the shared Data block) and the construction of the value to store are recorders.
   Asserted: a const target is never written (bad_boxed_cast leaves instead); a target of another type is never written; an undefined target, or a
   mutable function object, is written exactly once with the given value and returned. */
#include "layout.h"
#include "bv_model.h"
static struct verif_ti ti_other = {0, "*other"};      /* some other type (name compared by address, as for local types) */
static struct bv_data lhs_data, rhs_data, made_data; static int n_assign, n_made; static char* assign_self; static char* assign_from; static char* made_from;
void ASSIGN(char* sret, char* self, char* rhs) { n_assign++; assign_self = ((struct BV*)self)->p; assign_from = ((struct BV*)rhs)->p; *(struct BV*)sret = *(struct BV*)self; }      /* Boxed_Value assign(const Boxed_Value&): returns *this by value */
void BV_FROM_SP(char* self, char* sp, uint8_t rv) { n_made++; made_from = *(char**)sp; ((struct BV*)self)->p = (char*)&made_data; ((struct BV*)self)->pn = 0; }
void BV_FROM_CSP(char* self, char* sp, uint8_t rv) { n_made++; made_from = *(char**)sp; ((struct BV*)self)->p = (char*)&made_data; ((struct BV*)self)->pn = 0; }
void BBC_CTOR(char* self, uint64_t n, char* p) { }
void PTR_ASSIGN(char* sret, char* lhs, char* rhs_sp); void PTR_ASSIGN_C(char* sret, char* lhs, char* rhs_sp); void UNKNOWN_ASSIGN(char* sret, char* lhs, char* rhs);
char* __VERIF_exc_type(void);
enum { T_FUN = 0, T_OTHER = 1, T_UNDEF = 2 };
int main(void) {
  int t = nondet_u8() % 3; uint32_t fl = nondet_u32() & (TIF_const | TIF_reference | TIF_pointer);
  if (t == T_UNDEF) fl = TIF_undef;                                      /* Data invariant: an undefined value has the undefined Type_Info (flags: undef only) */
  D_TI(&lhs_data) = t == T_FUN ? TI_FUNCTION_OBJ : (char*)&ti_other; D_BARE_TI(&lhs_data) = D_TI(&lhs_data); D_FLAGS(&lhs_data) = fl;
  struct BV lhs = { (char*)&lhs_data, 0 }; struct BV rhs = { (char*)&rhs_data, 0 }; static char fobj[8]; struct BV rhs_sp = { fobj, 0 }; struct BV out = { 0, 0 };
  int is_const = (fl & TIF_const) != 0;
#if ENTRY == 1
  PTR_ASSIGN((char*)&out, (char*)&lhs, (char*)&rhs_sp);
  int may_write = t == T_UNDEF || (t == T_FUN && !is_const);
#elif ENTRY == 2
  PTR_ASSIGN_C((char*)&out, (char*)&lhs, (char*)&rhs_sp);
  int may_write = t == T_UNDEF || (t == T_FUN && !is_const);
#else
  UNKNOWN_ASSIGN((char*)&out, (char*)&lhs, (char*)&rhs);
  int may_write = t == T_UNDEF;
#endif
  if (is_const) __CPROVER_assert(n_assign == 0, "C07: a const object is never overwritten by an assignment function, whatever route reaches it");
  if (!may_write) { __CPROVER_assert(n_assign == 0 && __exc_pending && __VERIF_exc_type() == TI_BAD_BOXED_CAST, "C07: a target that may not be assigned (const, or of another type) is refused with bad_boxed_cast and left untouched");
    if (is_const && t == T_FUN) __CPROVER_assert(0, "witness: const function object refused"); else __CPROVER_assert(0, "witness: refused"); return 0; }
  __CPROVER_assert(!__exc_pending && n_assign == 1 && assign_self == (char*)&lhs_data && out.p == (char*)&lhs_data, "C03: an assignable target is written exactly once and is the result");
#if ENTRY <= 2
  __CPROVER_assert(n_made == 1 && made_from == fobj && assign_from == (char*)&made_data, "C06: the value stored is the function object given");
#else
  __CPROVER_assert(assign_from == (char*)&rhs_data, "C06: the value stored is the value given");
#endif
  __CPROVER_assert(0, "witness: assigned");
  return 0;
}
