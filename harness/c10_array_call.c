/* C10 X5 / C03 / C09 / C11: the real Array_Call_AST_Node::eval_internal - the index expression  a[i]  - with abstract operand expressions and the
   dispatched call of "[]" an abstract step that returns or throws (dispatch_error, bad_boxed_cast, arity_error, guard_error, Return_Value,
   eval_error, std::runtime_error, a script value, a foreign type).
   Asserted: container expression, then index expression, once each; the call happens once, to the function named "[]", with exactly those two
   values in that order and this node's own cache slot; both values are saved for the duration of the call BEFORE it (the element reference it
   returns may point into a temporary container); a dispatch_error is reported as eval_error; EVERY other exception leaves as the very same object;
   one function-call frame is pushed and popped on every path. */
#define NNODES 4
#include "node_model.h"
enum { C_RET = 0, C_DISPATCH, C_BADCAST, C_ARITY, C_GUARD, C_RETURN, C_EVAL_ERROR, C_RUNTIME, C_BV, C_FOREIGN, C_NKINDS };
static int evals[NNODES], eval_order[NNODES], eval_seq;
void NODE_EVAL_CHILD(char* sret, char* self, char* st) {
  int idx = (int)((struct node*)self - nodes); evals[idx]++; eval_order[idx] = eval_seq++;
  if (behav[idx] != B_RET) { child_throw(behav[idx], TI_EVAL_ERROR, TI_BOXED_VALUE); return; }
  ((struct BV*)sret)->p = valpool[idx]; ((struct BV*)sret)->pn = 0; }
static int n_push, n_pop, n_save, save_before_call, save_ok; static int n_call, call_beh, call_ok; static struct bv_data call_result;
void FPP_CTOR(char* self, char* st) { n_push++; }
void FPP_DTOR(char* self) { n_pop++; }
static int two_values(char* params) { struct BV* b = *(struct BV**)params; struct BV* e = *(struct BV**)(params + 8); return e - b == 2 && b[0].p == valpool[1] && b[1].p == valpool[2]; }
void FPP_SAVE(char* self, char* params) { n_save++; save_ok = two_values(params); save_before_call = (n_call == 0); }
static char* what_stub(char* self) { return "x"; }
static char* exc_vtable[6] = { (char*)what_stub, (char*)what_stub, (char*)what_stub, (char*)what_stub, (char*)what_stub, (char*)what_stub };
static struct exc_image { char* vptr; char* f1; char rest[144]; } call_exc = { (char*)exc_vtable, 0, {0} };
static void throw_kind(char* ti) { thrown_obj = (char*)&call_exc; __VERIF_throw_static(thrown_obj, ti); }
void CALL_FUNCTION(char* sret, char* engine, uint64_t nlen, char* nptr, char* loc, char* params, char* conv) {
  n_call++; call_ok = nlen == 2 && nptr[0] == '[' && nptr[1] == ']' && two_values(params) && loc >= (char*)&nodes[0] + SZ_Node && loc < (char*)&nodes[0] + SZ_Node + 16;
  thrown_kind = call_beh;
  switch (call_beh) {
    case C_RET: ((struct BV*)sret)->p = (char*)&call_result; ((struct BV*)sret)->pn = 0; return;
    case C_DISPATCH: throw_kind(TI_DISPATCH_ERROR); return;
    case C_BADCAST: throw_kind(TI_BAD_BOXED_CAST); return;
    case C_ARITY: throw_kind(TI_ARITY_ERROR); return;
    case C_GUARD: throw_kind(TI_GUARD_ERROR); return;
    case C_RETURN: throw_kind(TI_RETURN_VALUE); return;
    case C_EVAL_ERROR: throw_kind(TI_EVAL_ERROR); return;
    case C_RUNTIME: throw_kind((char*)&g__ZTISt13runtime_error); return;
    case C_BV: throw_kind(TI_BOXED_VALUE); return;
    default: throw_kind((char*)&ti_foreign); return;
  }
}
void __VERIF_v1_hook(char* f, char* a) { }
static char conv_state[32] __attribute__((aligned(8)));
char* CONVERSIONS(char* st) { return conv_state; }
char* __VERIF_exc_type(void);
void NODE_EVAL(char* sret, char* self, char* st);
int main(void) {
  for (int i = 0; i < NNODES; i++) { unsigned b = nondet_u32(); __CPROVER_assume(b < B_NKINDS); behav[i] = (int)b; }
  { unsigned b = nondet_u32(); __CPROVER_assume(b < C_NKINDS); call_beh = (int)b; }
  node_set_children(0, 1, 2, -1, -1);
  static char engine[SZ_Dispatch_Engine] __attribute__((aligned(8))); static char* state[4]; state[0] = engine; struct BV out = { 0, 0 };
  NODE_EVAL((char*)&out, (char*)&nodes[0], (char*)state);
  __CPROVER_assert(n_push == 1 && n_pop == 1, "C09: an index expression pushes and pops exactly one function-call frame on every exit");
  __CPROVER_assert(evals[1] == 1 && evals[2] == (behav[1] == B_RET ? 1 : 0) && (!evals[2] || eval_order[2] > eval_order[1]), "C03: the container expression, then the index expression, once each, stopping at the first that throws");
  if (behav[1] != B_RET || behav[2] != B_RET) { __CPROVER_assert(__exc_pending && __exc_obj == thrown_obj && n_call == 0, "C10: an exception in an operand leaves unchanged; nothing is called"); __CPROVER_assert(0, "witness: operand throws"); return 0; }
  __CPROVER_assert(n_save == 1 && save_ok && save_before_call, "C11: both operand values are saved for the duration of the call, before it (the element reference may point into a temporary container)");
  __CPROVER_assert(n_call == 1 && call_ok, "C03: a[i] is one call of the function named [] with the container and the index, in that order, through this node's own cache slot");
  switch (call_beh) {
    case C_RET: __CPROVER_assert(!__exc_pending && out.p == (char*)&call_result, "C03: the value of a[i] is what [] returns"); __CPROVER_assert(0, "witness: call returns"); break;
    case C_DISPATCH: __CPROVER_assert(__exc_pending && __VERIF_exc_type() == TI_EVAL_ERROR, "C10: no [] overload accepting the operands is reported as eval_error"); __CPROVER_assert(0, "witness: dispatch failure reported"); break;
    default: __CPROVER_assert(__exc_pending && __exc_obj == thrown_obj, "C10: every other exception thrown by [] leaves the index expression as the very same object"); __CPROVER_assert(0, "witness: callee exception passes"); break;
  }
  return 0;
}
