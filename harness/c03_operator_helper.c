/* C03 S3c: which operator spellings the parser tries at a precedence level - the real Operator_Helper(level, oper) with the real
   Operator_Matches::any_of (the switch over the twelve rows of the table and std::any_of over the row); Symbol() is a stub that records the
   spelling it is offered and answers from an oracle.  Asserted for every level 0..12: each spelling offered belongs to that level of the C
   table (0 `?`, 1 `||`, 2 `&&`, 3 `|`, 4 `^`, 5 `&`, 6 `== !=`, 7 `< <= > >=`, 8 `<< >>`, 9 `+ -`, 10 `* / %`, 11 prefix), none is offered
   twice, when none matches ALL spellings of the level were offered and the result is false, the search stops at the first match, and
   `oper` is then the matched spelling.  (S3 checks is_match(level, text), the other reader of the same table.) */
#include "parser_model.h"
struct sstr { uint64_t n; const char* p; };
#define MAXQ 8
static int n_q, hit_at; static struct sstr asked[MAXQ];
uint8_t SYMBOL(char* self, char* s, uint8_t disallow) { int i = n_q < MAXQ ? n_q : MAXQ - 1; asked[i] = *(struct sstr*)s; n_q++; return (uint8_t)(i == hit_at); }
static int eq(const struct sstr* s, const char* lit) { unsigned l = 0; while (lit[l]) l++; if (l != s->n) return 0; for (unsigned i = 0; i < 2; i++) if (i < l && s->p[i] != lit[i]) return 0; return 1; }
static int in_level(uint64_t g, const struct sstr* s) {
  switch (g) {
    case 0: return eq(s, "?"); case 1: return eq(s, "||"); case 2: return eq(s, "&&"); case 3: return eq(s, "|"); case 4: return eq(s, "^"); case 5: return eq(s, "&");
    case 6: return eq(s, "==") || eq(s, "!="); case 7: return eq(s, "<") || eq(s, "<=") || eq(s, ">") || eq(s, ">="); case 8: return eq(s, "<<") || eq(s, ">>");
    case 9: return eq(s, "+") || eq(s, "-"); case 10: return eq(s, "*") || eq(s, "/") || eq(s, "%"); case 11: return eq(s, "++") || eq(s, "--") || eq(s, "-") || eq(s, "+") || eq(s, "!") || eq(s, "~");
    default: return 0; } }
uint8_t HELPER(char* self, uint64_t level, char* oper);
int main(void) {
  static struct parser_model PMODEL; char* parser = (char*)&PMODEL; static char buf[4]; parser_init(parser, buf, 4, 0, 1, 1, 1);
  static const int rowlen[13] = { 1, 1, 1, 1, 1, 1, 2, 4, 2, 2, 3, 6, 0 };
  uint64_t g = LEVEL; hit_at = nondet_u8() % 8;
  static struct sso_string oper; oper.p = oper.buf; oper.n = 0; oper.buf[0] = 0;
  uint8_t r = HELPER(parser, g, (char*)&oper) & 1;
  __CPROVER_assert(!__exc_pending && n_q <= 6, "C03: a level has at most six spellings");
  for (int i = 0; i < 6; i++) if (i < n_q) {
    __CPROVER_assert(asked[i].n >= 1 && asked[i].n <= 2 && in_level(g, &asked[i]), "C03: only the operators of this precedence level (C table) are tried at this level");
    for (int j = 0; j < 6; j++) if (j < i) __CPROVER_assert(!(asked[i].n == asked[j].n && asked[i].p[0] == asked[j].p[0] && (asked[i].n < 2 || asked[i].p[1] == asked[j].p[1])), "C03: no spelling is tried twice");
  }
  if (hit_at < rowlen[g]) {
    __CPROVER_assert(r && n_q == hit_at + 1, "C03: the search stops at the first operator that matches and reports a match");
    __CPROVER_assert(oper.p == oper.buf && oper.n == asked[hit_at].n && oper.buf[0] == asked[hit_at].p[0] && (oper.n < 2 || oper.buf[1] == asked[hit_at].p[1]), "C03: the operator reported is the spelling that matched");
    __CPROVER_assert(0, "witness: matched");
  } else {
    __CPROVER_assert(!r && n_q == rowlen[g], "C03: when none matches, every operator of the level has been tried (none is missing from the level) and no operator is reported");
    __CPROVER_assert(0, "witness: no operator of this level");
  }
  return 0;
}
