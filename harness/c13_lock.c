/* C13 (lock discipline, single-threaded symbolic execution): one public entry of the real Dispatch_Engine with
   (a) a lock model behind the pthread_rwlock_* externs (state per lock address), and
   (b) every operation on a protected table (std::map members, pinned noinline) replaced by a stub that ASSERTS the lock state:
       reads need the owning mutex held at least shared, writes need it held unique.
   Asserted per entry: every table access happens under the right lock of the right mutex, no lock is taken twice,
   and EVERY exit - normal or throwing - leaves all locks released.  Interleavings are NOT explored (DESIGN.md C13). */
#include "layout.h"
#include "bv_model.h"
enum { UNLOCKED = 0, SHARED = 1, UNIQUE = 2 };
static char engine[SZ_Dispatch_Engine] __attribute__((aligned(16)));
static int mode, reads, writes, lock_ops;
#define THE_MUTEX (engine + OFF_DE_mutex)
uint32_t F_pthread_rwlock_wrlock(char* l) { __CPROVER_assert(l == THE_MUTEX, "C13: the mutex taken is the one that guards the engine tables"); __CPROVER_assert(mode == UNLOCKED, "C13: a non-recursive lock is not taken twice"); mode = UNIQUE; lock_ops++; return 0; }
uint32_t F_pthread_rwlock_rdlock(char* l) { __CPROVER_assert(l == THE_MUTEX, "C13: the mutex taken is the one that guards the engine tables"); __CPROVER_assert(mode == UNLOCKED, "C13: a non-recursive lock is not taken twice"); mode = SHARED; lock_ops++; return 0; }
uint32_t F_pthread_rwlock_unlock(char* l) { __CPROVER_assert(l == THE_MUTEX && mode != UNLOCKED, "C13: only a held lock is released"); mode = UNLOCKED; return 0; }
static void table_read(char* table) { __CPROVER_assert(table >= engine + OFF_DE_state && table < engine + OFF_DE_state + SZ_DE_State, "C13: the table accessed is engine state"); __CPROVER_assert(mode >= SHARED, "C13: a shared table is read only with its mutex held (shared or unique)"); reads++; }
static void table_write(char* table) { __CPROVER_assert(table >= engine + OFF_DE_state && table < engine + OFF_DE_state + SZ_DE_State, "C13: the table accessed is engine state"); __CPROVER_assert(mode == UNIQUE, "C13: a shared table is modified only with its mutex held unique"); writes++; }
/* map nodes handed out by the stubs: _Rb_tree_node<pair<const string, V>>: value at +32 */
static struct { char hdr[32]; struct sso_string key; char val[24]; } a_node;
struct ins_ret { char* it; uint8_t inserted; };
char* MAP_FIND(char* map, char* key) { table_read(map); if (nondet_u8() & 1) return map + 8; /* end() */ a_node.key.p = a_node.key.buf; return (char*)&a_node; }
char* TYPES_FIND(char* map, char* key) { table_read(map); if (nondet_u8() & 1) return map + 8; a_node.key.p = a_node.key.buf; return (char*)&a_node; }
INS_AGG MAP_INSERT(char* map, char* value) { table_write(map); INS_AGG r; memset(&r, 0, sizeof r); a_node.key.p = a_node.key.buf; struct ins_ret x = { (char*)&a_node, (uint8_t)(nondet_u8() & 1) }; memcpy(&r, &x, sizeof x); return r; }
INS_AGG TYPES_INSERT(char* map, char* value) { table_write(map); INS_AGG r; memset(&r, 0, sizeof r); struct ins_ret x = { (char*)&a_node, (uint8_t)(nondet_u8() & 1) }; memcpy(&r, &x, sizeof x); return r; }
INS_AGG MAP_INSERT_OR_ASSIGN(char* map, char* key, char* val) { table_write(map); INS_AGG r; memset(&r, 0, sizeof r); struct ins_ret x = { (char*)&a_node, (uint8_t)(nondet_u8() & 1) }; memcpy(&r, &x, sizeof x); return r; }
/* function tables (QuickFlatMap = vector of pairs): find/count are stubs that assert the lock mode; an element handed out has a null shared_ptr / undefined value */
#ifdef QFM_FIND_FUNS
static struct { struct sso_string key; struct BV second; } qf_elem;
char* QFM_FIND_FUNS(char* map, char* key, uint64_t hint) { table_read(map); if (nondet_u8() & 1) return *(char**)(map + 8); /* end() */ qf_elem.key.p = qf_elem.key.buf; return (char*)&qf_elem; }
uint64_t QFM_COUNT_FUNS(char* map, char* key) { table_read(map); return nondet_u8() & 1; }
char* QFM_FIND_BOXED(char* map, char* key, uint64_t hint) { table_read(map); if (nondet_u8() & 1) return *(char**)(map + 8); qf_elem.key.p = qf_elem.key.buf; return (char*)&qf_elem; }
#endif
/* cuts */
void F__ZN10chaiscript9exception16global_non_constC2Ev(char* s) { }
void F__ZN10chaiscript9exception19name_conflict_errorC2ERKNSt7__cxx1112basic_stringIcSt11char_traitsIcESaIcEEE(char* s, char* n) { }
void F__ZN10chaiscript9exception19name_conflict_errorD2Ev(char* s) { }
void F__ZN10chaiscript11Boxed_ValueD2Ev(char* s) { }
void F__ZN10chaiscript11Boxed_ValueC2ISt10shared_ptrIKNS_9Type_InfoEEvEEOT_b(char* self, char* sp, uint8_t rv) { static struct bv_data d; D_FLAGS(&d) = TIF_const; ((struct BV*)self)->p = (char*)&d; ((struct BV*)self)->pn = 0; *(char**)sp = 0; *(char**)(sp + 8) = 0; }
void F__ZNSt11range_errorC1ERKNSt7__cxx1112basic_stringIcSt11char_traitsIcESaIcEEE(char* s, char* m) { }
void F__ZNSt11range_errorD1Ev(char* s) { }
int main(void) {
  static struct bv_data objd; D_FLAGS(&objd) = nondet_u32() & (TIF_const | TIF_arithmetic | TIF_reference);
  struct BV obj = { (char*)&objd, 0 }; static struct sso_string name; name.p = name.buf; name.n = 1; name.buf[0] = (char)nondet_u8(); name.buf[1] = 0;
  struct BV out = { 0, 0 }; static char ti[SZ_Type_Info];
#if ENTRY >= 7
  void E_GET_FUNCTION(char*, char*, uint64_t, char*, uint64_t); uint8_t E_FUNCTION_EXISTS(char*, uint64_t, char*); void E_GET_FUNCTION_OBJECT(char*, char*, char*);
#endif
#if ENTRY == 1
  E_ADD_GLOBAL_CONST(engine, (char*)&obj, (char*)&name);
#elif ENTRY == 2
  E_ADD_GLOBAL(engine, (char*)&obj, (char*)&name);
#elif ENTRY == 3
  E_ADD_GLOBAL_NO_THROW((char*)&out, engine, (char*)&obj, (char*)&name);
#elif ENTRY == 4
  E_SET_GLOBAL(engine, (char*)&obj, (char*)&name);
#elif ENTRY == 5
  E_ADD_TYPE(engine, ti, (char*)&name);
#elif ENTRY == 6
  { static char tiout[SZ_Type_Info]; char q[1] = { (char)nondet_u8() }; E_GET_TYPE(tiout, engine, 1, q, nondet_u8() & 1); }
#elif ENTRY == 7
  { static struct { uint64_t idx; struct BV funs; } res; char q[1] = { (char)nondet_u8() }; E_GET_FUNCTION((char*)&res, engine, 1, q, nondet_u64()); }
#elif ENTRY == 8
  { char q[1] = { (char)nondet_u8() }; (void)E_FUNCTION_EXISTS(engine, 1, q); }
#elif ENTRY == 9
  E_GET_FUNCTION_OBJECT((char*)&out, engine, (char*)&name);
#else
#error "unknown ENTRY"
#endif
  __CPROVER_assert(mode == UNLOCKED, "C13: every exit - normal or throwing - leaves all locks released");
  if (__exc_pending) __CPROVER_assert(0, "witness: entry left by exception");
  else __CPROVER_assert(0, "witness: entry returned");
  if (reads + writes > 0) __CPROVER_assert(0, "witness: a shared table was accessed");
  return 0;
}
