/* C18: JSON kernels of utility/json.hpp (real code) on symbolic text.
   MODE 1 (J1): json_escape then parse_string on every string of exactly N bytes: round trip is the identity, the cursor ends
               behind the closing quote.
   MODE 2 (J2): parse_string / parse_bool / parse_null / consume_ws (WHICH) on an arbitrary text of N bytes from an arbitrary
               start offset: no access outside the text (all indexing goes through at()), only std::out_of_range /
               std::runtime_error leave, the cursor stays within [start, N+1].
   MODE 4 (J4): parse_next with its callees as recorder stubs: dispatch on the first non-blank byte, the nesting depth is
               passed on unchanged, and a depth above the limit raises runtime_error before anything is consumed.
   MODE 5 (J4): parse_array with parse_next as a contract stub: each element is parsed at depth+1, the loop makes progress.
   MODE 6 (J4): parse_object likewise: key and value of every member at depth+1. */
#include "layout.h"
#include "bv_model.h"
#ifndef N
#define N 3
#endif
extern struct verif_ti g__ZTISt13runtime_error, g__ZTISt12out_of_range;
char* __VERIF_exc_type(void);
void F__ZNSt13runtime_errorC1EPKc(char* self, char* m) { }
void F__ZNSt13runtime_errorC1ERKNSt7__cxx1112basic_stringIcSt11char_traitsIcESaIcEEE(char* self, char* m) { }
uint32_t F_isspace(uint32_t c) { return (c == ' ' || (c >= 9 && c <= 13)) ? 8192u : 0u; }
/* ---- JSON value recorders */
enum { JK_NONE, JK_STRING, JK_BOOL, JK_NULL, JK_CLASS };
static int jk, jcalls; static struct sso_string jstr; static int jbool;
void JSON_FROM_STRING(char* self, char* s, char* en) { jk = JK_STRING; jcalls++; struct sso_string* x = (struct sso_string*)s; jstr.p = jstr.buf; jstr.n = x->n; for (unsigned i = 0; i < 16; i++) jstr.buf[i] = x->buf[i]; }
void F__ZN10chaiscript4json4JSONC2IbEET_PNSt9enable_ifIXsr7is_sameIS3_bEE5valueEvE4typeE(char* self, uint8_t b, char* en) { jk = JK_BOOL; jbool = b & 1; jcalls++; }
void F__ZN10chaiscript4json4JSONC2Ev(char* self) { jk = JK_NULL; jcalls++; }
void F__ZN10chaiscript4json4JSONC2ENS1_5ClassE(char* self, uint32_t c) { jk = JK_CLASS; jcalls++; }
void F__ZN10chaiscript4json4JSOND2Ev(char* self) { }
static char json_slot[64];
char* F__ZN10chaiscript4json4JSONixEm(char* self, uint64_t i) { return json_slot; }
char* F__ZN10chaiscript4json4JSONaSEOS1_(char* self, char* o) { return self; }
static void set_text(struct sso_string* t, const char* src, unsigned n) { t->p = t->buf; t->n = n; for (unsigned i = 0; i < 15; i++) t->buf[i] = i < n ? src[i] : 0; t->buf[15] = 0; }
#if MODE == 1
void ESCAPE(char* sret, char* str);
void PARSE_STRING(char* sret, char* str, char* off);
int main(void) {
  char in[N ? N : 1]; for (unsigned i = 0; i < N; i++) in[i] = (char)nondet_u8();
  static struct sso_string s, esc, text; set_text(&s, in, N); esc.p = esc.buf;
  ESCAPE((char*)&esc, (char*)&s);
  __CPROVER_assert(!__exc_pending && esc.p == esc.buf && esc.n >= N && esc.n <= 2 * N, "C18: escaping a string neither fails nor loses bytes");
  char q[16]; unsigned qn = 0; q[qn++] = '"'; for (unsigned i = 0; i < 2 * N; i++) if (i < esc.n) q[qn++] = esc.buf[i]; q[qn++] = '"';
  set_text(&text, q, qn);
  uint64_t off = 0; static char jv[64];
  PARSE_STRING(jv, (char*)&text, (char*)&off);
  __CPROVER_assert(!__exc_pending, "C18: the escaped form of any string parses");
  __CPROVER_assert(jk == JK_STRING && jcalls == 1 && jstr.n == N, "C18: from_json(to_json(s)) has the length of s");
  int same = 1; for (unsigned i = 0; i < N; i++) if (jstr.buf[i] != in[i]) same = 0;
  __CPROVER_assert(same, "C18: from_json(to_json(s)) equals s byte for byte");
  __CPROVER_assert(off == qn, "C18: parsing a string ends right behind its closing quote");
  __CPROVER_assert(0, "witness: round trip completed");
  return 0;
}
#elif MODE == 2
void KERNEL(char* sret, char* str, char* off);
void KERNEL_V(char* str, char* off);
int main(void) {
  char in[N ? N : 1]; for (unsigned i = 0; i < N; i++) in[i] = (char)nondet_u8();
  static struct sso_string text; set_text(&text, in, N);
  uint64_t off = nondet_u64(); __CPROVER_assume(off <= N); uint64_t start = off; static char jv[64];
#if WHICH == 3
  KERNEL_V((char*)&text, (char*)&off);
#else
  KERNEL(jv, (char*)&text, (char*)&off);
#endif
  if (__exc_pending) {
    __CPROVER_assert(__VERIF_exc_type() == (char*)&g__ZTISt13runtime_error || __VERIF_exc_type() == (char*)&g__ZTISt12out_of_range, "C18: malformed input is reported as std::runtime_error or std::out_of_range");
    __CPROVER_assert(0, "witness: input rejected");
  } else {
    __CPROVER_assert(off >= start && off <= N + 1, "C18: the cursor moves forward and stays within the text (at most one past the end)");
    __CPROVER_assert(0, "witness: input accepted");
  }
  return 0;
}
#elif MODE == 4
enum { R_NONE, R_ARRAY, R_OBJECT, R_STRING, R_BOOL, R_NULL, R_NUMBER };
static int route, routes; static uint64_t route_depth, route_off;
#define REC(NAME, R) void NAME(char* sret, char* str, char* off) { route = R; routes++; route_off = *(uint64_t*)off; }
#define RECD(NAME, R) void NAME(char* sret, char* str, char* off, uint64_t depth) { route = R; routes++; route_depth = depth; route_off = *(uint64_t*)off; }
RECD(PARSE_ARRAY, R_ARRAY) RECD(PARSE_OBJECT, R_OBJECT) REC(PARSE_STRING, R_STRING) REC(PARSE_BOOL, R_BOOL) REC(PARSE_NULL, R_NULL) REC(PARSE_NUMBER, R_NUMBER)
void PARSE_NEXT(char* sret, char* str, char* off, uint64_t depth);
int main(void) {
  char in[N ? N : 1]; for (unsigned i = 0; i < N; i++) in[i] = (char)nondet_u8();
  static struct sso_string text; set_text(&text, in, N);
  uint64_t off = nondet_u64(); __CPROVER_assume(off <= N); uint64_t depth = nondet_u64(); static char jv[64];
  unsigned k = (unsigned)off; for (unsigned i = 0; i < N; i++) if (k == i && i >= off && F_isspace((unsigned char)in[i])) k = i + 1;     /* first non-blank at or after off */
  PARSE_NEXT(jv, (char*)&text, (char*)&off, depth);
  if (depth > 512) {
    __CPROVER_assert(__exc_pending && __VERIF_exc_type() == (char*)&g__ZTISt13runtime_error && routes == 0, "C18: nesting deeper than the limit is reported as an error before anything is parsed");
    __CPROVER_assert(0, "witness: depth limit");
    return 0;
  }
  if (k >= N) { __CPROVER_assert(__exc_pending && routes == 0, "C18: text that ends before a value starts is rejected"); __CPROVER_assert(0, "witness: ran off the end"); return 0; }
  char c = in[k]; int want = c == '[' ? R_ARRAY : c == '{' ? R_OBJECT : c == '"' ? R_STRING : (c == 't' || c == 'f') ? R_BOOL : c == 'n' ? R_NULL : ((c >= '0' && c <= '9') || c == '-') ? R_NUMBER : R_NONE;
  if (want == R_NONE) { __CPROVER_assert(__exc_pending && routes == 0 && __VERIF_exc_type() == (char*)&g__ZTISt13runtime_error, "C18: an unexpected starting character is rejected with runtime_error"); __CPROVER_assert(0, "witness: bad start"); return 0; }
  __CPROVER_assert(!__exc_pending && routes == 1 && route == want && route_off == k, "C18: a value is parsed by the parser its first character selects, starting at that character");
  if (want == R_ARRAY || want == R_OBJECT) __CPROVER_assert(route_depth == depth, "C18: the current nesting depth is handed to the container parser");
  __CPROVER_assert(0, "witness: dispatched");
  return 0;
}
#elif MODE == 5
static uint64_t next_calls, bad_depth, depth0;
void PARSE_NEXT(char* sret, char* str, char* off, uint64_t depth) {
  next_calls++; if (depth != depth0 + 1) bad_depth++;
  uint64_t o = *(uint64_t*)off; uint64_t k = nondet_u64(); __CPROVER_assume(k >= 1 && k <= N + 1 - o && o <= N); *(uint64_t*)off = o + k;       /* contract: consumes at least one byte */
  if (nondet_u8() & 1) { char* __VERIF_throw_new(char*, uint64_t); __VERIF_throw_new((char*)&g__ZTISt13runtime_error, 16); }
}
void PARSE_ARRAY(char* sret, char* str, char* off, uint64_t depth);
int main(void) {
  char in[N ? N : 1]; for (unsigned i = 0; i < N; i++) in[i] = (char)nondet_u8();
  static struct sso_string text; set_text(&text, in, N);
  uint64_t off = nondet_u64(); __CPROVER_assume(off < N && in[off] == '['); depth0 = nondet_u64(); static char jv[64];
  PARSE_ARRAY(jv, (char*)&text, (char*)&off, depth0);
  __CPROVER_assert(bad_depth == 0, "C18: every element of an array is parsed one nesting level deeper");
  __CPROVER_assert(next_calls <= N, "C18: the element loop makes progress (bounded by the text length)");
  if (__exc_pending) { __CPROVER_assert(__VERIF_exc_type() == (char*)&g__ZTISt13runtime_error || __VERIF_exc_type() == (char*)&g__ZTISt12out_of_range, "C18: malformed input is reported as std::runtime_error or std::out_of_range"); __CPROVER_assert(0, "witness: input rejected"); }
  else { __CPROVER_assert(off <= N + 1, "C18: the cursor moves forward and stays within the text (at most one past the end)"); __CPROVER_assert(0, "witness: input accepted"); }
  return 0;
}
#elif MODE == 6
/* J4: parse_object with parse_next as a contract stub: the key and the value of every member are parsed at depth+1, the member loop makes progress */
static uint64_t next_calls, bad_depth, depth0;
void PARSE_NEXT(char* sret, char* str, char* off, uint64_t depth) {
  next_calls++; if (depth != depth0 + 1) bad_depth++;
  uint64_t o = *(uint64_t*)off; uint64_t k = nondet_u64(); __CPROVER_assume(k >= 1 && k <= N + 1 - o && o <= N); *(uint64_t*)off = o + k;       /* contract: consumes at least one byte */
  if (nondet_u8() & 1) { char* __VERIF_throw_new(char*, uint64_t); __VERIF_throw_new((char*)&g__ZTISt13runtime_error, 16); }
}
void JSON_TO_STRING(char* sret, char* self) { struct sso_string* s = (struct sso_string*)sret; s->p = s->buf; s->n = 1; s->buf[0] = 'k'; s->buf[1] = 0; }
char* JSON_INDEX_STR(char* self, char* key) { return json_slot; }
char* JSON_ASSIGN_COPY(char* self, char* o) { return self; }
void PARSE_OBJECT(char* sret, char* str, char* off, uint64_t depth);
int main(void) {
  char in[N ? N : 1]; for (unsigned i = 0; i < N; i++) in[i] = (char)nondet_u8();
  static struct sso_string text; set_text(&text, in, N);
  uint64_t off = nondet_u64(); __CPROVER_assume(off < N && in[off] == '{'); depth0 = nondet_u64(); static char jv[64];
  PARSE_OBJECT(jv, (char*)&text, (char*)&off, depth0);
  __CPROVER_assert(bad_depth == 0, "C18: key and value of every object member are parsed one nesting level deeper");
  __CPROVER_assert(next_calls <= N + 1, "C18: the member loop makes progress (bounded by the text length)");
  if (__exc_pending) { __CPROVER_assert(__VERIF_exc_type() == (char*)&g__ZTISt13runtime_error || __VERIF_exc_type() == (char*)&g__ZTISt12out_of_range, "C18: malformed input is reported as std::runtime_error or std::out_of_range"); __CPROVER_assert(0, "witness: input rejected"); }
  else { __CPROVER_assert(off <= N + 1, "C18: the cursor moves forward and stays within the text (at most one past the end)"); __CPROVER_assert(0, "witness: input accepted"); }
  return 0;
}
#else
#error "unknown MODE"
#endif
