/* C01 P2-P6 (and C20 E1 coordinates): one lexer kernel of the real ChaiScript_Parser, started from an arbitrary valid
   cursor state over a fully symbolic buffer of exactly N bytes.  Shape: FN (kernel), KIND (signature), N.
   Asserted: no out-of-bounds access (CBMC pointer checks on the exactly-sized buffer), begin <= cursor <= end afterwards,
   only eval_error leaves, a rejected match leaves the cursor where it was (kernels that promise it), cursor never moves back. */
#include "parser_model.h"
#ifndef N
#define N 4
#endif
void F__ZN10chaiscript9exception10eval_errorC2ERKNSt7__cxx1112basic_stringIcSt11char_traitsIcESaIcEEERKNS_13File_PositionES9_(char* self, char* why, char* where, char* fname) { eval_error_ctor_calls++; }
void F__ZN10chaiscript9exception10eval_errorC2ERKNSt7__cxx1112basic_stringIcSt11char_traitsIcESaIcEEE(char* self, char* why) { eval_error_ctor_calls++; }
void F__ZN10chaiscript9exception10eval_errorD2Ev(char* self) { }
void F__ZN10chaiscript9exception10eval_errorD0Ev(char* self) { }
char* __VERIF_exc_type(void);
#if KIND == 0
uint8_t FN(char* self);
#elif KIND == 1
uint8_t FN(char* self, uint8_t flag);
#elif KIND == 2
struct static_string { uint64_t size; char* data; };
uint8_t FN(char* self, char* sym);
#endif
/* C20 E1: coordinates as a function of the cursor: line = 1 + number of '\n' before it, col = 1 + distance to the last '\n' */
static char* g_buf;
static void ref_coords(unsigned off, int32_t* line, int32_t* col) { int32_t l = 1, c = 1; for (unsigned i = 0; i < N; i++) if (i < off) { if (g_buf[i] == '\n') { l++; c = 1; } else c++; } *line = l; *col = c; }
#ifdef STUB_SKIPCOMMENT
/* contract of SkipComment (proved on the real function by the SkipComment harness: in bounds, true => advanced) */
uint8_t STUB_SKIPCOMMENT(char* self) {
  if (nondet_u8() & 1) return 0;
  uint64_t rem = (uint64_t)(P_END(self) - P_POS(self)); uint64_t k = nondet_u64(); __CPROVER_assume(k >= 1 && k <= rem);
  P_POS(self) += k; int32_t l = nondet_i32(), c = nondet_i32(); __CPROVER_assume(l >= 1 && l < (1 << 30) && c >= 1 && c < (1 << 30));
#ifdef COORDS
  ref_coords((unsigned)(P_POS(self) - g_buf), &l, &c);      /* the callee keeps the coordinate invariant (its own harness) */
#endif
  P_LINE(self) = l; P_COL(self) = c;
  return 1;
}
#endif
#ifdef STUB_SKIPWS
/* contract of SkipWS (proved by the SkipWS harness): in bounds, never moves back, may throw eval_error */
int skipws_throws;
uint8_t STUB_SKIPWS(char* self, uint8_t skip_cr) {
  uint64_t rem = (uint64_t)(P_END(self) - P_POS(self)); uint64_t k = nondet_u64(); __CPROVER_assume(k <= rem);
  if (k == 0) return 0;
  P_POS(self) += k; int32_t l = nondet_i32(), c = nondet_i32(); __CPROVER_assume(l >= 1 && l < (1 << 30) && c >= 1 && c < (1 << 30));
#ifdef COORDS
  ref_coords((unsigned)(P_POS(self) - g_buf), &l, &c);
#endif
  P_LINE(self) = l; P_COL(self) = c;
  return 1;
}
#endif
int main(void) {
  static struct parser_model PMODEL; char* parser = (char*)&PMODEL;
  char buf[N ? N : 1];
  for (unsigned i = 0; i < N; i++) buf[i] = (char)nondet_u8();
  unsigned off = nondet_u32(); __CPROVER_assume(off <= N);
  int32_t line = nondet_i32(), col = nondet_i32(), lastcol = nondet_i32();
  __CPROVER_assume(line >= 1 && line < (1 << 30) && col >= 1 && col < (1 << 30) && lastcol >= 1 && lastcol < (1 << 30));
  g_buf = buf;
#ifdef COORDS
  ref_coords(off, &line, &col);                              /* start in a state that satisfies the coordinate invariant */
  if (off > 0 && buf[off - 1] == '\n') { int32_t l2, c2; ref_coords(off - 1, &l2, &c2); lastcol = c2; }     /* column of the newline just crossed */
#endif
  parser_init(parser, buf, N, off, line, col, lastcol);
  P_DEPTH(parser) = nondet_u64() & 511;                    /* Depth_Counter inside Symbol()/Char()/... : arbitrary legal depth */
  char* before = P_POS(parser);
  uint8_t r;
#if KIND == 0
  r = FN(parser);
#elif KIND == 1
  uint8_t flag = nondet_u8(); r = FN(parser, flag);
#elif KIND == 2
  char lit[4]; unsigned sl = nondet_u32(); __CPROVER_assume(sl >= 1 && sl <= 3);
  for (unsigned i = 0; i < 3; i++) { lit[i] = (char)nondet_u8(); if (i < sl) __CPROVER_assume(lit[i] != 0); else lit[i] = 0; } lit[3] = 0;
  struct static_string ss = { sl, lit }; r = FN(parser, (char*)&ss);
#endif
  char* pos = P_POS(parser);
  if (N) {
    __CPROVER_assert(pos >= buf && pos <= buf + N, "C01: cursor stays inside [begin,end]");
    __CPROVER_assert(P_END(parser) == buf + N, "C01: end of input is never moved");
  }
  if (__exc_pending) {
#ifdef NOTHROW
    __CPROVER_assert(0, "C01: this kernel does not throw");
#else
    __CPROVER_assert(__VERIF_exc_type() == (char*)&g__ZTIN10chaiscript9exception10eval_errorE, "C01: only eval_error leaves the lexer");
#endif
  } else {
#ifdef NO_BACKWARD
    if (N) __CPROVER_assert(pos >= before, "C01: cursor never moves backwards across a kernel");
#endif
#ifdef RESTORES
    if (!(r & 1) && N) __CPROVER_assert(pos == before, "C01: a rejected match leaves the cursor where it was (nothing silently skipped)");
#endif
#ifdef RESTORES_OR_ZERO
    /* Hex_/Binary_ may stay behind the leading '0' when "0x"/"0b" is not followed by a digit: Num() then takes exactly that
       "0" as an octal literal, so no text is skipped (checked by the Num harness) */
    if (!(r & 1) && N) __CPROVER_assert(pos == before || (pos == before + 1 && *before == '0'), "C01: a rejected 0x/0b prefix leaves the cursor at most behind the leading 0");
#endif
#ifdef ADVANCES
    if ((r & 1) && N) __CPROVER_assert(pos > before, "C01: an accepted match consumes at least one byte (termination measure of the callers' loops)");
#endif
#if KIND == 2 && defined(EXACT_LEN)
    if ((r & 1) && N) __CPROVER_assert(pos == before + sl && memcmp(before, lit, sl) == 0, "C01: a matched token consumes exactly its own bytes");
#endif
    __CPROVER_assert(P_DEPTH(parser) < 512, "C01: parse depth restored");
#ifdef COORDS
    if (N) { int32_t el, ec; ref_coords((unsigned)(pos - buf), &el, &ec);
      __CPROVER_assert(P_LINE(parser) == el && P_COL(parser) == ec, "C20: line and column always denote the cursor (1 + newlines before it, 1 + bytes since the last newline)"); }
#endif
  }
#ifndef NO_WITNESS
  if (!__exc_pending && (r & 1)) __CPROVER_assert(0, "witness: accepted");
  if (!__exc_pending && !(r & 1)) __CPROVER_assert(0, "witness: rejected");
#endif
  return 0;
}
