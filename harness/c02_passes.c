/* C02 O2-O6: local soundness of the optimizer passes Return, Block, Unused_Return, Assign_Decl, If - the real optimize<T>() of each pass
   on a heap tree whose node kinds (all 45 AST_Node_Type values), child counts and texts are symbolic.  Every node the pass builds
   (chaiscript::make_unique<..., X_AST_Node>) is a recorder.  The oracle states, independently of the pass, when the rewrite is allowed
   (e.g. "a block may lose its scope only if no declaration can land in it", with the set of scope-opening node kinds taken from the
   evaluator) and what the rewritten tree must be (same nodes, same order, same text and location); everything else must come back
   untouched.  Shape: PASS, K (children of the root), G (children per child). */
#ifndef NNODES
#define NNODES 12
#endif
#include "node_model.h"
#define P_RETURN 1
#define P_BLOCK 2
#define P_UNUSED 3
#define P_ASSIGN 4
#define P_IF 5
/* ---- recorder for nodes built by the pass */
#define NMADE 4
static struct node made[NMADE]; static int n_made; static int made_kind[NMADE]; static char* made_text[NMADE]; static char* made_loc[NMADE]; static char* made_child[NMADE][4]; static uint64_t made_n[NMADE];
static void mk_node(char* sret, int kind, char* text, char* loc, char* children) {
  int k = n_made < NMADE ? n_made : NMADE - 1; n_made++;
  made_kind[k] = kind; made_text[k] = text; made_loc[k] = loc; struct vec3* v = (struct vec3*)children;
  made_n[k] = (v->b == v->e) ? 0 : (uint64_t)((char**)v->e - (char**)v->b);
  for (unsigned i = 0; i < 4; i++) if (i < made_n[k]) made_child[k][i] = ((char**)v->b)[i];
  made[k].identifier = kind; made[k].children = *v; v->b = v->e = v->c = 0; made[k].text.p = made[k].text.buf;
  *(char**)sret = (char*)&made[k];
}
/* nodes the pass deletes (unique_ptr reset): through a harness vtable whose every slot is this recorder */
static int n_deleted; static char* deleted[4]; static int deleted_with_children;
static void node_deleter(char* self) { if (n_deleted < 4) deleted[n_deleted] = self; n_deleted++; struct node* n = (struct node*)self; char** b = (char**)n->children.b; char** e = (char**)n->children.e;
  long cnt = b ? (long)(e - b) : 0; for (int i = 0; i < 4; i++) if (i < cnt && b[i]) deleted_with_children = 1; }
static char* node_vtable[10] = { (char*)node_deleter, (char*)node_deleter, (char*)node_deleter, (char*)node_deleter, (char*)node_deleter, (char*)node_deleter, (char*)node_deleter, (char*)node_deleter, (char*)node_deleter, (char*)node_deleter };
static int dtor_calls; static char* dtor_of[8];
static void uptr_dtor(char* self) { if (*(char**)self) { if (dtor_calls < 8) dtor_of[dtor_calls] = *(char**)self; dtor_calls++; } }
#include STUBS_H
/* harness nodes are never Compiled_AST_Node objects; a Constant node is one whose identifier says so */
char* F___dynamic_cast(char* p, char* src, char* dst, int64_t hint) {
#ifdef TI_CONSTANT_NODE
  if (dst == TI_CONSTANT_NODE) return ((struct node*)p)->identifier == AST_Constant ? p : (char*)0;
#endif
  return 0;
}
#if PASS == P_IF
static int cond_is_bool, cond_val; static struct bv_data cond_data;
uint8_t BOXED_CAST_BOOL(char* bv, char* conv) { __CPROVER_assert(cond_is_bool, "C02: the condition is only read as bool when it is a bool"); return (uint8_t)cond_val; }
extern struct verif_ti g__ZTIb;
#endif
static char** kids[NNODES]; static int nk[NNODES];
static void set_kids(int n, int count, int first) {        /* children of node n are nodes first .. first+count-1, in a heap vector of exactly count slots */
  nk[n] = count; char** s = (char**)malloc((count ? count : 1) * sizeof(char*)); kids[n] = s;
  for (int i = 0; i < count; i++) s[i] = (char*)&nodes[first + i];
  nodes[n].children.b = (char*)s; nodes[n].children.e = (char*)(s + count); nodes[n].children.c = nodes[n].children.e; nodes[n].text.p = nodes[n].text.buf;
}
static int untouched(int n, int first) { if (nodes[n].children.b != (char*)kids[n] || nodes[n].children.e != (char*)(kids[n] + nk[n])) return 0; for (int i = 0; i < nk[n]; i++) if (kids[n][i] != (char*)&nodes[first + i]) return 0; return 1; }
/* which node kinds open a scope (or a whole new stack) of their own in the evaluator: chaiscript_eval.hpp, Scope_Push_Pop / new stack */
static int opens_scope(int k) { return k == AST_Block || k == AST_For || k == AST_Ranged_For || k == AST_While || k == AST_Class || k == AST_Switch || k == AST_Case || k == AST_Default || k == AST_Try || k == AST_Catch || k == AST_Lambda || k == AST_Def || k == AST_Method; }
static int is_decl(int k) { return k == AST_Var_Decl || k == AST_Assign_Decl || k == AST_Reference; }
void OPTIMIZE(char* sret, char* self, char* node_uptr);
int main(void) {
  for (int i = 0; i < NNODES; i++) { int k = nondet_i32(); __CPROVER_assume(k >= 0 && k < AST_Compiled); nodes[i].identifier = k; nodes[i].vptr = (char*)node_vtable; nodes[i].text.p = nodes[i].text.buf; nodes[i].children.b = nodes[i].children.e = nodes[i].children.c = 0; }
  char* in = (char*)&nodes[0]; char* out = 0; char pass_obj[1];
#if PASS == P_RETURN
  /* root(0) -> K children (1..K), last child (K) -> G children (K+1 .. K+G), last of those (K+G) -> R children */
  set_kids(0, K, 1);
  if (K) { set_kids(K, G, K + 1); if (G) set_kids(K + G, RC, K + G + 1); }
  __CPROVER_assume(!K || nodes[K].identifier != AST_Block || G >= 1);       /* parser invariant: a Block has at least one child (Block(): Noop is pushed for '{}') */
  OPTIMIZE((char*)&out, pass_obj, (char*)&in);
  __CPROVER_assert(!__exc_pending && out == (char*)&nodes[0] && n_made == 0, "C02: Return pass returns the node it was given");
  int fires = (nodes[0].identifier == AST_Def || nodes[0].identifier == AST_Lambda) && K > 0 && nodes[K].identifier == AST_Block && nodes[K + G].identifier == AST_Return && RC == 1;
  __CPROVER_assert(untouched(0, 1), "C02: the function node's own children are untouched");
  if (fires) {
    __CPROVER_assert(nodes[K].children.b == (char*)kids[K] && nodes[K].children.e == (char*)(kids[K] + G), "C02: the body keeps its statement count");
    for (int i = 0; i + 1 < G; i++) __CPROVER_assert(kids[K][i] == (char*)&nodes[K + 1 + i], "C02: statements before the final return are untouched");
    __CPROVER_assert(kids[K][G - 1] == (char*)&nodes[K + G + 1], "C02: a final 'return e' of a function body is replaced by e itself (the body's last value is the result)");
    __CPROVER_assert(n_deleted == 1 && deleted[0] == (char*)&nodes[K + G] && !deleted_with_children, "C02: exactly the Return node is destroyed, after its expression was moved out");
    __CPROVER_assert(0, "witness: return elided");
  } else {
    if (K) __CPROVER_assert(untouched(K, K + 1), "C02: Return pass rewrites only a final 'return e' of a Def/Lambda body");
    if (K && G) __CPROVER_assert(untouched(K + G, K + G + 1), "C02: Return pass rewrites only a final 'return e' of a Def/Lambda body");
    __CPROVER_assert(n_deleted == 0, "C02: nothing is destroyed");
    __CPROVER_assert(0, "witness: unchanged");
  }
#elif PASS == P_BLOCK
  /* root(0) -> K children (1..K); child i -> G grandchildren each */
  set_kids(0, K, 1); for (int i = 0; i < K; i++) set_kids(1 + i, G, 1 + K + i * G);
  __CPROVER_assume(K >= 1);
  int decl_lands = 0;          /* a declaration that would land in the root block's own scope */
  for (int i = 0; i < K; i++) { int ck = nodes[1 + i].identifier; if (is_decl(ck)) decl_lands = 1;
    if (!opens_scope(ck)) for (int j = 0; j < G; j++) if (is_decl(nodes[1 + K + i * G + j].identifier)) decl_lands = 1; }
  OPTIMIZE((char*)&out, pass_obj, (char*)&in);
  __CPROVER_assert(!__exc_pending, "C02: the pass does not fail");
  if (out == (char*)&nodes[0]) {
    __CPROVER_assert(n_made == 0 && untouched(0, 1), "C02: a block that keeps its scope is returned untouched");
    __CPROVER_assert(0, "witness: unchanged");
  } else {
    __CPROVER_assert(nodes[0].identifier == AST_Block, "C02: only a Block is ever replaced by the Block pass");
    __CPROVER_assert(!decl_lands, "C02: a block loses its scope only if no declaration can land in that scope");
    if (K == 1) { __CPROVER_assert(out == (char*)&nodes[1] && n_made == 0, "C02: a scope-free block of one statement is replaced by that statement"); __CPROVER_assert(0, "witness: single statement"); }
    else { __CPROVER_assert(n_made == 1 && out == (char*)&made[0] && made_kind[0] == AST_Scopeless_Block && made_n[0] == K, "C02: a scope-free block becomes a Scopeless_Block of the same statements");
           for (int i = 0; i < K; i++) __CPROVER_assert(made_child[0][i] == (char*)&nodes[1 + i], "C02: same statements, same order");
           __CPROVER_assert(made_text[0] == (char*)&nodes[0].text && made_loc[0] == nodes[0].location, "C02: text and location are kept");
           __CPROVER_assert(0, "witness: scopeless block"); }
  }
  for (int i = 0; i < K; i++) __CPROVER_assert(untouched(1 + i, 1 + K + i * G), "C02: the statements themselves are untouched");
#elif PASS == P_UNUSED
  /* root(0) -> K children; the last child (K) -> G children (the loop body of For/While) */
  set_kids(0, K, 1); if (K) set_kids(K, G, K + 1);
  int rk = nodes[0].identifier;
  OPTIMIZE((char*)&out, pass_obj, (char*)&in);
  __CPROVER_assert(!__exc_pending && out == (char*)&nodes[0], "C02: Unused_Return returns the node it was given");
  int expect = 0;
  if ((rk == AST_Block || rk == AST_Scopeless_Block) && K > 0) {
    for (int i = 0; i < K; i++) {
      if (i + 1 < K && nodes[1 + i].identifier == AST_Fun_Call) {
        __CPROVER_assert(expect < n_made && kids[0][i] == (char*)&made[expect] && made_kind[expect] == AST_Unused_Return_Fun_Call && made_text[expect] == (char*)&nodes[1 + i].text && made_loc[expect] == nodes[1 + i].location,
                         "C02: a call whose value is dropped (not the last statement) becomes the no-copy call node of the same text and location");
        expect++;
      } else __CPROVER_assert(kids[0][i] == (char*)&nodes[1 + i], "C02: the last statement (its value is the block's value) and non-calls are untouched");
    }
    if (expect) __CPROVER_assert(0, "witness: block call replaced");
  } else if ((rk == AST_For || rk == AST_While) && K > 0 && (nodes[K].identifier == AST_Block || nodes[K].identifier == AST_Scopeless_Block)) {
    __CPROVER_assert(untouched(0, 1), "C02: the loop's own children are untouched");
    for (int j = 0; j < G; j++) {
      if (nodes[K + 1 + j].identifier == AST_Fun_Call) { __CPROVER_assert(expect < n_made && kids[K][j] == (char*)&made[expect] && made_kind[expect] == AST_Unused_Return_Fun_Call && made_text[expect] == (char*)&nodes[K + 1 + j].text && made_loc[expect] == nodes[K + 1 + j].location, "C02: every call statement of a loop body becomes the no-copy call node of the same text and location (a loop body has no value; C20: the call site keeps its own line and column)"); expect++; }
      else __CPROVER_assert(kids[K][j] == (char*)&nodes[K + 1 + j], "C02: non-calls of a loop body are untouched");
    }
    if (expect) __CPROVER_assert(0, "witness: loop call replaced");
  } else {
    __CPROVER_assert(untouched(0, 1) && (!K || untouched(K, K + 1)), "C02: other nodes are untouched");
    __CPROVER_assert(0, "witness: unchanged");
  }
  __CPROVER_assert(n_made == expect && n_deleted == expect && !deleted_with_children, "C02: nothing else is rewritten; each replaced call node is destroyed only after its children were moved into the new node");
#elif PASS == P_ASSIGN
  /* root(0) -> K children; child 1 -> G children */
  set_kids(0, K, 1); if (K) set_kids(1, G, K + 1);
  unsigned tl = nondet_u8() % 3; nodes[0].text.n = tl; for (unsigned i = 0; i < 2; i++) nodes[0].text.buf[i] = (i < tl) ? (char)nondet_u8() : 0; nodes[0].text.buf[2] = 0;
  __CPROVER_assume(!K || nodes[1].identifier != AST_Var_Decl || G >= 1);      /* parser invariant: a Var_Decl has its identifier as first child */
  OPTIMIZE((char*)&out, pass_obj, (char*)&in);
  __CPROVER_assert(!__exc_pending, "C02: the pass does not fail");
  int fires = nodes[0].identifier == AST_Equation && tl == 1 && nodes[0].text.buf[0] == '=' && K == 2 && nodes[1].identifier == AST_Var_Decl;
  if (fires) {
    __CPROVER_assert(n_made == 1 && out == (char*)&made[0] && made_kind[0] == AST_Assign_Decl && made_n[0] == 2, "C02: 'var x = e' becomes one Assign_Decl node");
    __CPROVER_assert(made_child[0][0] == (char*)&nodes[K + 1] && made_child[0][1] == (char*)&nodes[2], "C02: Assign_Decl gets the declared identifier and the initializer, in this order");
    __CPROVER_assert(made_text[0] == (char*)&nodes[0].text && made_loc[0] == nodes[0].location, "C02: text and location are kept");
    __CPROVER_assert(0, "witness: assign_decl");
  } else {
    __CPROVER_assert(out == (char*)&nodes[0] && n_made == 0 && untouched(0, 1) && (!K || untouched(1, K + 1)), "C02: only a plain '=' whose left side is a declaration is rewritten (':=' , compound assignment and assignment to existing variables stay Equations)");
    __CPROVER_assert(0, "witness: unchanged");
  }
#elif PASS == P_IF
  set_kids(0, K, 1);
  cond_is_bool = nondet_u8() & 1; cond_val = nondet_u8() & 1; static struct verif_ti ti_other = {0, "*other"};
  D_BARE_TI(&cond_data) = cond_is_bool ? (char*)&g__ZTIb : (char*)&ti_other; D_TI(&cond_data) = D_BARE_TI(&cond_data); D_FLAGS(&cond_data) = cond_is_bool ? TIF_arithmetic * 0 : 0;
  /* Constant_AST_Node::m_value sits right behind the AST_Node_Impl part */
  static struct { struct node n; struct BV value; } cnode; cnode.n = nodes[1]; cnode.value.p = (char*)&cond_data; cnode.value.pn = 0;
  if (K) kids[0][0] = (char*)&cnode.n;
  OPTIMIZE((char*)&out, pass_obj, (char*)&in);
  __CPROVER_assert(!__exc_pending, "C02: the pass does not fail");
  int constant_bool = nodes[0].identifier == AST_If && K >= 2 && cnode.n.identifier == AST_Constant && cond_is_bool;
  if (constant_bool && cond_val) { __CPROVER_assert(out == (char*)&nodes[2], "C02: 'if (true) A ...' is A"); __CPROVER_assert(0, "witness: then branch"); }
  else if (constant_bool && !cond_val && K == 3) { __CPROVER_assert(out == (char*)&nodes[3], "C02: 'if (false) A else B' is B"); __CPROVER_assert(0, "witness: else branch"); }
  else { __CPROVER_assert(out == (char*)&nodes[0] && nodes[0].children.b == (char*)kids[0], "C02: an if whose condition is not a constant bool (or has no branch to select) is untouched"); for (int i = 1; i < K; i++) __CPROVER_assert(kids[0][i] == (char*)&nodes[1 + i], "C02: branches untouched"); __CPROVER_assert(0, "witness: unchanged"); }
  __CPROVER_assert(n_made == 0, "C02: the If pass builds no node");
#endif
  return 0;
}
