/* C18 J3: numbers - the real JSONParser::parse_number (with the real integer conversion chaiscript::parse_num<long>) on an arbitrary text of N bytes from
   any start offset at which parse_next would dispatch to it (a digit or '-').  The floating conversion (parse_num<double>) and pow are stubs with arbitrary
   results - the numeric value of non-integers is DECLINED (floating point); the JSON constructors are recorders.
   Asserted: no access outside the text; only std::runtime_error / std::out_of_range leave; the offset never moves backwards past the start and never
   beyond the end; the INTEGER form  [-]digits  followed by a terminator (',' ']' '}' white space) or the end of the text yields an integral JSON value
   that is exactly the written number, with the offset resting on the terminator that follows (if any); a '.' or an exponent - and only those - select
   the floating constructor. */
#include "layout.h"
#include "bv_model.h"
#include "verif_rt.h"
#ifndef N
#define N 3
#endif
static struct sso_string text; static uint64_t offset;
static int n_int, n_dbl; static int64_t int_value;
void JSON_FROM_LONG(char* self, uint64_t v, char* en) { n_int++; int_value = (int64_t)v; }
void JSON_FROM_DOUBLE(char* self, double v, char* en) { n_dbl++; }
double PARSE_NUM_DOUBLE(uint64_t len, char* p) { double d; return d; }
double POW_IL(uint32_t b, uint64_t e) { double d; return d; }
void F__ZNSt13runtime_errorC1ERKNSt7__cxx1112basic_stringIcSt11char_traitsIcESaIcEEE(char* s, char* m) { }
void F__ZNSt13runtime_errorC1EPKc(char* s, char* m) { }
void F__ZNSt13runtime_errorD1Ev(char* s);
uint32_t F_isspace(uint32_t c) { return c == ' ' || (c >= 9 && c <= 13); }
static int is_term(char c) { return c == ',' || c == ']' || c == '}' || c == ' ' || (c >= 9 && c <= 13); }
char* __VERIF_exc_type(void);
void PARSE_NUMBER(char* sret, char* str, char* off);
int main(void) {
  text.p = text.buf; text.n = N; for (unsigned i = 0; i < 16; i++) { char c = (char)nondet_u8(); text.buf[i] = i < N ? c : 0; }
  uint64_t off0 = nondet_u64(); __CPROVER_assume(off0 < N); char c0 = text.buf[off0]; __CPROVER_assume((c0 >= '0' && c0 <= '9') || c0 == '-');      /* parse_next's dispatch condition */
  offset = off0; char out[64] __attribute__((aligned(8)));
  PARSE_NUMBER(out, (char*)&text, (char*)&offset);
  /* reference scan of the integer form */
  uint64_t i = off0; int neg = 0; if (text.buf[i] == '-') { neg = 1; i++; }
  uint64_t d0 = i; int64_t v = 0; while (i < N && text.buf[i] >= '0' && text.buf[i] <= '9') { v = v * 10 + (text.buf[i] - '0'); i++; }
  int integer_form = (i == N || is_term(text.buf[i]));
  int has_frac_or_exp = i < N && (text.buf[i] == '.' || ((text.buf[i] == 'e' || text.buf[i] == 'E')));
  if (__exc_pending) {
    __CPROVER_assert(__VERIF_exc_type() == (char*)&g__ZTISt13runtime_error || __VERIF_exc_type() == (char*)&g__ZTISt12out_of_range, "C18: a malformed number is reported as std::runtime_error / std::out_of_range, nothing else");
    __CPROVER_assert(!integer_form, "C18: a well-formed integer followed by a terminator or the end of the text is accepted");
    __CPROVER_assert(0, "witness: input rejected"); return 0;
  }
  __CPROVER_assert(offset + 1 >= off0 + 1 && offset < N, "C18: the offset stays inside the text and does not move back before the number");
  __CPROVER_assert(n_int + n_dbl == 1, "C18: exactly one value is produced");
  if (integer_form) {
    __CPROVER_assert(n_int == 1 && int_value == (neg ? -v : v), "C18: an integer literal denotes exactly the written number (integral JSON value)");
    if (i < N) __CPROVER_assert(offset == i, "C18: when a terminator follows, the offset rests on it (the enclosing array / object reads it next)");
    __CPROVER_assert(0, "witness: integer");
  } else if (n_dbl) { __CPROVER_assert(has_frac_or_exp, "C18: only a fraction or an exponent makes a number floating"); __CPROVER_assert(0, "witness: floating"); }
  return 0;
}
