/* C02 O8/O9: Constant_Fold and Partial_Fold - the real optimize<T>() of both passes on a heap node with symbolic kind, operator text and
   child kinds, with the arithmetic itself behind recorders: Operators::to_operator returns an arbitrary operator code P for the text,
   Boxed_Number::do_oper returns a marker value (or throws), the constant-building make_unique calls record what value they were given.
   Oracle = what the unoptimized evaluator does with the same node (chaiscript_eval.hpp: Binary_Operator / Prefix / Logical_And/Or /
   Fun_Call nodes): for arithmetic constant operands it computes do_oper(to_operator(text[,unary]), operands in source order); so a fold is
   sound iff the folded constant IS that do_oper result for the same operator and the same operands in the same order, and happens only
   when every operand is an arithmetic (resp. bool) constant and do_oper did not throw.  (to_operator itself: C03 S1; do_oper: C05.)
   Shape: MODE (1 Prefix, 2 Logical, 3 Binary, 4 Fun_Call conversion, 5 Partial_Fold), for MODE 4 the function name FN. */
#define NNODES 6
#include "node_model.h"
extern struct verif_ti g__ZTIb;
static struct verif_ti ti_num = {0, "*num"}, ti_other = {0, "*other"};
struct cnode { struct node n; struct BV value; };
static struct cnode cn[2]; static struct bv_data cdata[2]; static int ckind[2];       /* 0 arithmetic, 1 bool, 2 other */
static int cbool[2];
char* F___dynamic_cast(char* p, char* src, char* dst, int64_t hint) { if (dst == TI_CONSTANT_NODE) return ((struct node*)p)->identifier == AST_Constant ? p : (char*)0; return 0; }
/* ---- recorders */
static uint32_t P_code; static int n_toop, toop_unary; static char toop_text[3]; static uint64_t toop_len;
uint32_t TO_OPERATOR(uint64_t len, char* data, uint8_t unary) { n_toop++; toop_unary = unary & 1; toop_len = len; for (int i = 0; i < 2; i++) toop_text[i] = (uint64_t)i < len ? data[i] : 0; return P_code; }
static struct bv_data result_data; static int n_do, do_arity, do_throws; static uint32_t do_op; static char* do_lhs; static char* do_rhs;
extern struct verif_ti g__ZTISt13runtime_error;
char* __VERIF_throw_new(char* tinfo, uint64_t size);
#define OP_MAX OP_invalid
static void do_common(char* sret) { if (do_throws) { __VERIF_throw_new((char*)&g__ZTISt13runtime_error, 64); return; } ((struct BV*)sret)->p = (char*)&result_data; ((struct BV*)sret)->pn = 0; }
void DO_OPER1(char* sret, uint32_t op, char* v) { n_do++; do_arity = 1; do_op = op; do_lhs = ((struct BV*)v)->p; do_common(sret); }
void DO_OPER2(char* sret, uint32_t op, char* l, char* r) { n_do++; do_arity = 2; do_op = op; do_lhs = ((struct BV*)l)->p; do_rhs = ((struct BV*)r)->p; do_common(sret); }
uint8_t BOXED_CAST_BOOL(char* bv, char* conv) { struct bv_data* d = (struct bv_data*)((struct BV*)bv)->p; __CPROVER_assert(d == &cdata[0] || d == &cdata[1], "C02: only the constants are read"); int j = d == &cdata[1]; __CPROVER_assert(ckind[j] == 1, "C02: a constant is read as bool only when it is a bool"); return (uint8_t)cbool[j]; }
static struct bv_data bool_data; static int n_bvbool, bvbool_val, bool_is_const;
/* two ways to box a bool: the mutable Boxed_Value(bool) constructor and const_var(bool) */
void BV_FROM_BOOL(char* self, char* b, uint8_t rv) { n_bvbool++; bool_is_const = 0; bvbool_val = *(uint8_t*)b & 1; ((struct BV*)self)->p = (char*)&bool_data; ((struct BV*)self)->pn = 0; }
void F__ZN10chaiscript9const_varEb(char* sret, uint8_t b) { n_bvbool++; bool_is_const = 1; bvbool_val = b & 1; ((struct BV*)sret)->p = (char*)&bool_data; ((struct BV*)sret)->pn = 0; }
static int n_bn; static char* bn_of;
void BN_CTOR(char* self, char* bv) { n_bn++; bn_of = ((struct BV*)bv)->p; ((struct BV*)self)->p = bn_of; ((struct BV*)self)->pn = 0; }
static int n_ga; static char ga_t; static int n_cv; static char cv_t; static struct bv_data cv_data; static uint64_t cv_bits;
static void ga(char t) { n_ga++; ga_t = t; }
static void cv(char* sret, char t, uint64_t bits) { n_cv++; cv_t = t; cv_bits = bits; ((struct BV*)sret)->p = (char*)&cv_data; ((struct BV*)sret)->pn = 0; }
static int n_const; static char* const_val; static char* const_loc; static struct cnode made_const;
static void mk_const(char* sret, char* text, char* loc, char* val) { n_const++; const_val = ((struct BV*)val)->p; const_loc = loc; made_const.n.identifier = AST_Constant; *(char**)sret = (char*)&made_const.n; }
static int n_fr; static char* fr_text; static char* fr_loc; static char* fr_child[2]; static uint64_t fr_n; static char* fr_rhs; static struct node made_fr;
static void mk_foldright(char* sret, char* text, char* loc, char* children, char* rhs) { n_fr++; fr_text = text; fr_loc = loc; struct vec3* v = (struct vec3*)children; fr_n = (v->b == v->e) ? 0 : (uint64_t)((char**)v->e - (char**)v->b);
  for (unsigned i = 0; i < 2; i++) if (i < fr_n) fr_child[i] = ((char**)v->b)[i]; fr_rhs = ((struct BV*)rhs)->p; v->b = v->e = v->c = 0; *(char**)sret = (char*)&made_fr; }
#include STUBS_H
static char** kids[NNODES];
static struct node* N(int i) { return i == 1 ? &cn[0].n : i == 2 ? &cn[1].n : &nodes[i]; }
static void set_kids(int n, int count, int first) { char** s = (char**)malloc((count ? count : 1) * sizeof(char*)); kids[n] = s; for (int i = 0; i < count; i++) s[i] = (char*)N(first + i);
  N(n)->children.b = (char*)s; N(n)->children.e = (char*)(s + count); N(n)->children.c = N(n)->children.e; }
static void sym_text(struct node* n) { unsigned l = nondet_u8() % 3; n->text.p = n->text.buf; n->text.n = l; n->text.buf[0] = l > 0 ? (char)nondet_u8() : 0; n->text.buf[1] = l > 1 ? (char)nondet_u8() : 0; n->text.buf[2] = 0; }
static void set_text(struct node* n, const char* s) { unsigned l = 0; n->text.p = n->text.buf; while (s[l]) { n->text.buf[l] = s[l]; l++; } n->text.buf[l] = 0; n->text.n = l; }
void OPT_CONSTANT(char* sret, char* self, char* node_uptr);
void OPT_PARTIAL(char* sret, char* self, char* node_uptr);
#define INVALID OP_invalid
int main(void) {
  for (int i = 0; i < NNODES; i++) { struct node* n = N(i); int k = nondet_i32(); __CPROVER_assume(k >= 0 && k < AST_Compiled); n->identifier = k; if (i != 1 && i != 2) __CPROVER_assume(k != AST_Constant);   /* only cn[0], cn[1] are Constant_AST_Node objects */ sym_text(n); n->children.b = n->children.e = n->children.c = 0; }
  for (int j = 0; j < 2; j++) { ckind[j] = nondet_u8() % 3; cbool[j] = nondet_u8() & 1; char* ti = ckind[j] == 0 ? (char*)&ti_num : ckind[j] == 1 ? (char*)&g__ZTIb : (char*)&ti_other;
    D_BARE_TI(&cdata[j]) = ti; D_TI(&cdata[j]) = ti; D_FLAGS(&cdata[j]) = ckind[j] == 0 ? TIF_arithmetic : 0; cn[j].value.p = (char*)&cdata[j]; cn[j].value.pn = 0; }
  P_code = nondet_u32(); __CPROVER_assume(P_code <= OP_MAX); do_throws = nondet_u8() & 1;
  char* in = (char*)&nodes[0]; char* out = 0; char pass_obj[1];
  int k0 = nodes[0].identifier;
#if MODE == 4
  /* Fun_Call(0) -> [3 Id(fn name), 4 Arg_List -> [1 constant]] */
  set_kids(0, NK, 3); set_kids(4, NA, 1); set_text(&nodes[3], FN);
  OPT_CONSTANT((char*)&out, pass_obj, (char*)&in);
  int eligible = k0 == AST_Fun_Call && NK == 2 && nodes[3].identifier == AST_Id && nodes[4].identifier == AST_Arg_List && NA == 1 && cn[0].n.identifier == AST_Constant && ckind[0] == 0 && FNT != 0;
  __CPROVER_assert(!__exc_pending, "C02: the pass does not fail");
  if (n_const) {
    __CPROVER_assert(eligible, "C02: only int/long/size_t/float/double applied to one arithmetic constant is folded");
    __CPROVER_assert(n_bn == 1 && bn_of == (char*)&cdata[0] && n_ga == 1 && ga_t == FNT && n_cv == 1 && cv_t == FNT && const_val == (char*)&cv_data, "C02: T(c) folds to the constant converted to exactly the type T names");
    __CPROVER_assert(cv_bits == GA_MARK, "C02: the folded value is the converted value");
    __CPROVER_assert(out == (char*)&made_const.n && const_loc == nodes[0].location, "C02: the constant replaces the call, at its location");
    __CPROVER_assert(0, "witness: conversion folded");
  } else { __CPROVER_assert(out == (char*)&nodes[0] && nodes[0].children.b == (char*)kids[0], "C02: otherwise the node is untouched"); __CPROVER_assert(0, "witness: unchanged"); }
#else
  set_kids(0, NK, 1);
#if MODE == 5
  OPT_PARTIAL((char*)&out, pass_obj, (char*)&in);
  __CPROVER_assert(!__exc_pending, "C02: the pass does not fail");
  if (n_fr) {
    __CPROVER_assert(k0 == AST_Binary && NK == 2 && cn[0].n.identifier != AST_Constant && cn[1].n.identifier == AST_Constant && ckind[1] == 0 && P_code != INVALID, "C02: only `e <op> arithmetic-constant` with a known operator gets its right side pre-evaluated");
    __CPROVER_assert(n_fr == 1 && out == (char*)&made_fr && fr_text == (char*)&nodes[0].text && fr_loc == nodes[0].location && fr_n == 2 && fr_child[0] == (char*)&cn[0].n && fr_child[1] == (char*)&cn[1].n && fr_rhs == (char*)&cdata[1],
                     "C02: the partially folded node keeps operator text, location, both children in order, and caches exactly the right constant's value");
    __CPROVER_assert(n_toop >= 1 && toop_unary == 0 && toop_len == nodes[0].text.n && toop_text[0] == nodes[0].text.buf[0] && toop_text[1] == nodes[0].text.buf[1], "C02: the operator is looked up as the node's own text, as a binary operator");
    __CPROVER_assert(0, "witness: partial fold");
  } else { __CPROVER_assert(out == (char*)&nodes[0] && nodes[0].children.b == (char*)kids[0] && n_const == 0, "C02: otherwise the node is untouched"); __CPROVER_assert(0, "witness: unchanged"); }
#else
  OPT_CONSTANT((char*)&out, pass_obj, (char*)&in);
  __CPROVER_assert(!__exc_pending, "C02: a failed folding attempt is not an error of the program (it is retried at run time)");
  int c0 = NK >= 1 && cn[0].n.identifier == AST_Constant, c1 = NK >= 2 && cn[1].n.identifier == AST_Constant;
  int text_ok = toop_len == nodes[0].text.n && toop_text[0] == nodes[0].text.buf[0] && toop_text[1] == nodes[0].text.buf[1];
  if (n_const) {
    __CPROVER_assert(out == (char*)&made_const.n && const_loc == nodes[0].location && n_const == 1, "C02: the constant replaces the node, at its location");
    if (k0 == AST_Prefix) {
      __CPROVER_assert(NK == 1 && c0, "C02: a prefix operator is folded only over one constant");
      if (const_val == (char*)&result_data) {
        __CPROVER_assert(ckind[0] == 0 && n_do == 1 && do_arity == 1 && !do_throws && do_lhs == (char*)&cdata[0] && do_op == P_code && P_code != INVALID && P_code != OP_bitwise_and && n_toop >= 1 && toop_unary == 1 && text_ok,
                         "C02: -c / +c / ~c fold to do_oper(to_operator(text, unary), c), exactly what Prefix_AST_Node computes for an arithmetic operand");
        __CPROVER_assert(0, "witness: prefix folded");
      } else {
        __CPROVER_assert(const_val == (char*)&bool_data && ckind[0] == 1 && nodes[0].text.n == 1 && nodes[0].text.buf[0] == '!' && bvbool_val == !cbool[0], "C02: !b folds to the negated bool constant");
        __CPROVER_assert(bool_is_const, "C08: a folded constant is const like every literal: a function that receives it by reference cannot change the syntax tree");
        __CPROVER_assert(0, "witness: not folded");
      }
    } else if (k0 == AST_Logical_And || k0 == AST_Logical_Or) {
      __CPROVER_assert(NK == 2 && c0 && c1 && ckind[0] == 1 && ckind[1] == 1 && const_val == (char*)&bool_data && bvbool_val == (k0 == AST_Logical_And ? (cbool[0] && cbool[1]) : (cbool[0] || cbool[1])), "C02: b1 && b2 / b1 || b2 over bool constants fold to their value");
      __CPROVER_assert(bool_is_const, "C08: a folded constant is const like every literal: a function that receives it by reference cannot change the syntax tree");
      __CPROVER_assert(0, "witness: logical folded");
    } else {
      __CPROVER_assert(k0 == AST_Binary && NK == 2 && c0 && c1 && ckind[0] == 0 && ckind[1] == 0, "C02: a binary operator is folded only over two arithmetic constants");
      __CPROVER_assert(const_val == (char*)&result_data && n_do == 1 && do_arity == 2 && !do_throws && do_op == P_code && P_code != INVALID && do_lhs == (char*)&cdata[0] && do_rhs == (char*)&cdata[1] && n_toop >= 1 && toop_unary == 0 && text_ok,
                       "C02: c1 <op> c2 folds to do_oper(to_operator(text), c1, c2) - same operator, same operand order as Binary_Operator_AST_Node");
      __CPROVER_assert(0, "witness: binary folded");
    }
  } else {
    __CPROVER_assert(out == (char*)&nodes[0] && nodes[0].children.b == (char*)kids[0] && kids[0][0] == (char*)&cn[0].n, "C02: a node that is not folded is untouched");
    if (n_do && do_throws) __CPROVER_assert(0, "witness: folding failed, left for run time"); else __CPROVER_assert(0, "witness: unchanged");
  }
#endif
#endif
  return 0;
}
