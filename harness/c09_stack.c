/* C09 S0: the stack primitives every Scope_Push_Pop / Stack_Push_Pop / Function_Push_Pop guard is made of - the real
   Dispatch_Engine::new_scope / pop_scope / new_stack / pop_stack / new_function_call / pop_function_call on a Stack_Holder image with
   NS stacks whose last one has S scopes, C saved-parameter lists and a symbolic call depth; with and without spare capacity (so the
   reallocation paths of the three std::vectors are real code too).
   Asserted: push adds exactly one EMPTY scope and one EMPTY saved-parameter list (scope) / one stack of one scope (stack) and keeps
   everything that was there; pop removes exactly the last one of each; push followed by pop restores the shape; a function-call
   frame changes the depth by exactly one, switches conversion saving on at depth 0->1 and off again (clearing the saved parameters
   of the outermost call) at 1->0. */
#include "layout.h"
#include "bv_model.h"
struct holder { struct vec3 stacks; struct vec3 call_params; int32_t call_depth; int32_t pad_; };
_Static_assert(offsetof(struct holder, stacks) == OFF_SH_stacks && offsetof(struct holder, call_params) == OFF_SH_call_params && offsetof(struct holder, call_depth) == OFF_SH_call_depth && sizeof(struct holder) == SZ_Stack_Holder, "Stack_Holder layout");
#define O_NEW_SCOPE 1
#define O_POP_SCOPE 2
#define O_NEW_STACK 3
#define O_POP_STACK 4
#define O_NEW_CALL 5
#define O_POP_CALL 6
#define O_SCOPE_PAIR 7
struct scope { char cmp_[OFF_Scope_data]; struct vec3 data; char tail_[SZ_Scope - OFF_Scope_data - sizeof(struct vec3)]; };      /* QuickFlatMap: comparator + vector of entries */
_Static_assert(sizeof(struct scope) == SZ_Scope, "Scope layout");
static uint64_t vlen(struct vec3* v) { return v->b == v->e ? 0 : (uint64_t)((struct vec3*)v->e - (struct vec3*)v->b); }            /* vectors of 24-byte elements (vectors) */
static uint64_t slen(struct vec3* v) { return v->b == v->e ? 0 : (uint64_t)((struct scope*)v->e - (struct scope*)v->b); }          /* vectors of scopes */
static struct vec3* vat(struct vec3* v, uint64_t i) { return (struct vec3*)v->b + i; }
static struct scope* sat(struct vec3* v, uint64_t i) { return (struct scope*)v->b + i; }
static struct vec3* mkvec(unsigned n, unsigned spare) { struct vec3* a = (struct vec3*)malloc(((n + spare) ? (n + spare) : 1) * sizeof(struct vec3)); __CPROVER_assume(a != 0); for (unsigned i = 0; i < n + spare; i++) a[i].b = a[i].e = a[i].c = 0; return a; }
static struct scope* mkscopes(unsigned n, unsigned spare) { struct scope* a = (struct scope*)malloc(((n + spare) ? (n + spare) : 1) * sizeof(struct scope)); __CPROVER_assume(a != 0); for (unsigned i = 0; i < n + spare; i++) a[i].data.b = a[i].data.e = a[i].data.c = 0; return a; }
static int n_save; static char engine[SZ_Dispatch_Engine] __attribute__((aligned(16)));
/* Type_Conversions::Conversion_Saves { bool enabled; std::vector<Boxed_Value> saves; } - this thread's saves (enable_conversion_saves / take_saves are inlined real code) */
static struct { char bytes[SZ_Conversion_Saves] __attribute__((aligned(8))); } saves_obj;
#define saves (saves_obj.bytes)
#define SAVES_ENABLED (*(uint8_t*)(saves + OFF_CS_enabled))
#ifndef NSV
#define NSV 1
#endif
/* conversion temporaries waiting in this thread's Conversion_Saves: objects created by user type conversions while the last call was dispatched */
static struct BV* saved_tmp; static char tmp_obj[3][8]; static struct { char* vptr; uint32_t use, weak; } tmp_cb[3];
#define SAVES_VEC ((struct vec3*)(saves + OFF_CS_saves))
static uint64_t taken_n; static char* taken_p[3]; static int taken_alive = 1;
void SAVE_PARAMS_VEC(char* self, char* vec) { n_save++; struct vec3* v = (struct vec3*)vec; taken_n = v->b == v->e ? 0 : (uint64_t)((struct BV*)v->e - (struct BV*)v->b);
  for (unsigned i = 0; i < 3; i++) if (i < taken_n) { taken_p[i] = ((struct BV*)v->b)[i].p; if (((struct BV*)v->b)[i].pn != (char*)&tmp_cb[i] || tmp_cb[i].use != 1) taken_alive = 0; } }
void F_NEW_SCOPE(char* h); void F_POP_SCOPE(char* h); void F_NEW_STACK(char* h); void F_POP_STACK(char* h); void F_NEW_CALL(char* self, char* h, char* s); void F_POP_CALL(char* self, char* h, char* s);
int main(void) {
  static struct holder H; unsigned spare = SPARE;
  /* stacks: NS StackData (vector<Scope>), the last with S scopes; the others with one scope */
  struct vec3* st = mkvec(NS, spare); H.stacks.b = (char*)st; H.stacks.e = (char*)(st + NS); H.stacks.c = (char*)(st + NS + spare);
  for (unsigned i = 0; i < NS; i++) { unsigned n = (i + 1 == NS) ? S : 1; struct scope* sc = mkscopes(n, spare); st[i].b = (char*)sc; st[i].e = (char*)(sc + n); st[i].c = (char*)(sc + n + spare); }
  struct vec3* cp = mkvec(C, spare); H.call_params.b = (char*)cp; H.call_params.e = (char*)(cp + C); H.call_params.c = (char*)(cp + C + spare);
  uint8_t en0 = nondet_u8() & 1; SAVES_ENABLED = en0;
  int32_t d0 = nondet_i32(); __CPROVER_assume(d0 >= 0 && d0 < 1000000); H.call_depth = d0;
  struct vec3* last0 = &st[NS - 1];
  saved_tmp = (struct BV*)malloc(3 * sizeof(struct BV)); __CPROVER_assume(saved_tmp != 0);      /* heap storage: the vector that takes the temporaries over releases it */
  for (unsigned i = 0; i < 3; i++) { saved_tmp[i].p = tmp_obj[i]; saved_tmp[i].pn = (char*)&tmp_cb[i]; tmp_cb[i].use = 1; tmp_cb[i].weak = 1; }
  SAVES_VEC->b = (char*)&saved_tmp[0]; SAVES_VEC->e = (char*)&saved_tmp[NSV]; SAVES_VEC->c = (char*)&saved_tmp[NSV];
  if (NSV == 0) { SAVES_VEC->b = SAVES_VEC->e = SAVES_VEC->c = 0; }
#if OP == O_NEW_SCOPE || OP == O_SCOPE_PAIR
  F_NEW_SCOPE((char*)&H);
  __CPROVER_assert(!__exc_pending && vlen(&H.stacks) == NS && slen(vat(&H.stacks, NS - 1)) == S + 1 && vlen(&H.call_params) == C + 1, "C09: a new scope adds exactly one scope to the current stack and one saved-parameter list");
  { struct scope* ns = sat(vat(&H.stacks, NS - 1), S); struct vec3* np = vat(&H.call_params, C); __CPROVER_assert(ns->data.b == ns->data.e && np->b == np->e, "C09: the new scope and its parameter list start empty"); }
  __CPROVER_assert(H.call_depth == d0, "C09: scopes do not touch the call depth");
#if OP == O_SCOPE_PAIR
  F_POP_SCOPE((char*)&H);
  __CPROVER_assert(!__exc_pending && vlen(&H.stacks) == NS && slen(vat(&H.stacks, NS - 1)) == S && vlen(&H.call_params) == C && H.call_depth == d0, "C09: pushing and popping a scope restores the shape of the stack holder");
#endif
  __CPROVER_assert(0, "witness: done");
#elif OP == O_POP_SCOPE
  F_POP_SCOPE((char*)&H);       /* precondition (Scope_Push_Pop pairs it with new_scope): S >= 1, C >= 1 */
  __CPROVER_assert(!__exc_pending && vlen(&H.stacks) == NS && slen(vat(&H.stacks, NS - 1)) == S - 1 && vlen(&H.call_params) == C - 1 && H.call_depth == d0, "C09: popping a scope removes exactly the last scope and the last saved-parameter list");
  __CPROVER_assert(0, "witness: done");
#elif OP == O_NEW_STACK
  F_NEW_STACK((char*)&H);
  __CPROVER_assert(!__exc_pending && vlen(&H.stacks) == NS + 1 && slen(vat(&H.stacks, NS)) == 1 && vlen(&H.call_params) == C && H.call_depth == d0, "C09: a new stack (function frame) is one stack holding one empty scope");
  { struct scope* ns = sat(vat(&H.stacks, NS), 0); __CPROVER_assert(ns->data.b == ns->data.e, "C09: the frame's scope starts empty"); }
  __CPROVER_assert(slen(vat(&H.stacks, NS - 1)) == S, "C09: the caller's stack is kept");
  __CPROVER_assert(0, "witness: done");
#elif OP == O_POP_STACK
  F_POP_STACK((char*)&H);
  __CPROVER_assert(!__exc_pending && vlen(&H.stacks) == NS - 1 && vlen(&H.call_params) == C && H.call_depth == d0, "C09: popping a stack removes exactly the last stack");
  __CPROVER_assert(0, "witness: done");
#elif OP == O_NEW_CALL
  F_NEW_CALL(engine, (char*)&H, saves);
  __CPROVER_assert(!__exc_pending && H.call_depth == d0 + 1, "C09: entering a call raises the call depth by one");
  __CPROVER_assert(d0 == 0 ? SAVES_ENABLED == 1 : SAVES_ENABLED == en0, "C09: conversion saving is switched on exactly when the outermost call is entered");
  __CPROVER_assert(vlen(&H.stacks) == NS && vlen(&H.call_params) == C, "C09: entering a call does not change the scope shape");
  __CPROVER_assert(n_save == 1 && taken_n == NSV && taken_alive && (NSV < 1 || taken_p[0] == tmp_obj[0]) && (NSV < 2 || taken_p[1] == tmp_obj[1]) && SAVES_VEC->b == SAVES_VEC->e, "C11: the conversion temporaries that were waiting are handed to the new call's saved parameters - all of them, alive - and the waiting list is empty");
  if (d0 == 0) __CPROVER_assert(0, "witness: outermost"); else __CPROVER_assert(0, "witness: nested");
#elif OP == O_POP_CALL
  __CPROVER_assume(d0 >= 1);
  F_POP_CALL(engine, (char*)&H, saves);
  __CPROVER_assert(!__exc_pending && H.call_depth == d0 - 1, "C09: leaving a call lowers the call depth by one");
  __CPROVER_assert(d0 == 1 ? (SAVES_ENABLED == 0 && vlen(vat(&H.call_params, C - 1)) == 0) : SAVES_ENABLED == en0, "C09: when the outermost call is left conversion saving is switched off and its saved parameters are released");
  __CPROVER_assert(vlen(&H.stacks) == NS && vlen(&H.call_params) == C, "C09: leaving a call does not change the scope shape");
  __CPROVER_assert(SAVES_VEC->b == (NSV ? (char*)&saved_tmp[0] : (char*)0) && SAVES_VEC->e == (NSV ? (char*)&saved_tmp[NSV] : (char*)0), "C11: leaving a call - also the outermost one - does not release the conversion temporaries made while it was dispatched: the value it returns may refer into them (they are handed to the next call)");
  for (unsigned i = 0; i < 3; i++) if (i < NSV) __CPROVER_assert(saved_tmp[i].p == tmp_obj[i] && saved_tmp[i].pn == (char*)&tmp_cb[i] && tmp_cb[i].use == 1, "C11: waiting conversion temporaries stay alive across the end of a call");
  if (d0 == 1) __CPROVER_assert(0, "witness: outermost"); else __CPROVER_assert(0, "witness: nested");
#else
#error "unknown OP"
#endif
  return 0;
}
