/* C12 T: the operations bootstrap_stl.hpp registers for the built-in string type - the real lambdas of random_access_container_type<std::string>
   ([] mutable / const) and string_type<std::string> (substr, += char, clear, size, empty) - on an arbitrary string of exactly K bytes (all byte
   values), arbitrary int index / size_t positions.  std::string's growth internals are the SSO-only model (rt/string_model.c); its read-only members
   (at, size, substr's range check) are the real inline code.
   Asserted against a C array model: an index inside [0, K) yields a reference to exactly that character (so an assignment through it changes that
   character and no other); any other index - negative ones included - raises std::out_of_range and leaves the string unchanged;
   substr(pos, len) with pos <= K is characters [pos, pos + min(len, K - pos)), pos > K raises std::out_of_range; push_back appends exactly that
   character; clear empties; size / empty report K; the argument string is otherwise unchanged. */
#include "layout.h"
#include "bv_model.h"
#include "verif_rt.h"
#define T_INDEX 1
#define T_CINDEX 2
#define T_SUBSTR 3
#define T_PUSH_BACK 4
#define T_CLEAR 5
#define T_SIZE 6
#define T_EMPTY 7
static struct sso_string s; static char orig[16];
static char lam[8];
static int same_as_before(void) { if (s.p != s.buf || s.n != K) return 0; for (unsigned i = 0; i < K; i++) if (s.buf[i] != orig[i]) return 0; return 1; }
void F__ZNSt12out_of_rangeC1EPKc(char* self, char* m) { } void F__ZNSt12out_of_rangeD1Ev(char* self) { }
char* __VERIF_exc_type(void);
#if OP == T_INDEX || OP == T_CINDEX
char* FN(char* self, char* str, uint32_t idx);
#elif OP == T_SUBSTR
void FN(char* sret, char* self, char* str, uint64_t pos, uint64_t len);
#elif OP == T_PUSH_BACK
char* FN(char* self, char* str, uint8_t c);
#elif OP == T_CLEAR
void FN(char* self, char* str);
#elif OP == T_SIZE
uint64_t FN(char* self, char* str);
#elif OP == T_EMPTY
uint8_t FN(char* self, char* str);
#endif
int main(void) {
  s.p = s.buf; s.n = K; for (unsigned i = 0; i < 16; i++) { char c = (char)nondet_u8(); s.buf[i] = i < K ? c : 0; orig[i] = s.buf[i]; }
#if OP == T_INDEX || OP == T_CINDEX
  int32_t idx = nondet_i32();
  char* r = FN(lam, (char*)&s, (uint32_t)idx);
  if (idx >= 0 && idx < K) { __CPROVER_assert(!__exc_pending && r == s.buf + idx && same_as_before(), "C12: s[i] for 0 <= i < size is a reference to exactly the i-th character; the string is unchanged"); __CPROVER_assert(0, "witness: operation performed"); }
  else { __CPROVER_assert(__exc_pending && __VERIF_exc_type() == (char*)&g__ZTISt12out_of_range && same_as_before(), "C12: an index outside [0, size) - negative ones included - raises std::out_of_range and leaves the string unchanged"); __CPROVER_assert(0, "witness: precondition violated"); }
#elif OP == T_SUBSTR
  uint64_t pos = nondet_u64(), len = nondet_u64(); struct sso_string out; out.p = 0; out.n = 99;
  FN((char*)&out, lam, (char*)&s, pos, len);
  if (pos <= K) {
    uint64_t n = K - pos; if (len < n) n = len;
    __CPROVER_assert(!__exc_pending && out.n == n && same_as_before(), "C12: substr(pos, len) with pos <= size has min(len, size - pos) characters; the string is unchanged");
    for (unsigned i = 0; i < K; i++) if (i < n) __CPROVER_assert(out.p[i] == orig[pos + i], "C12: substr(pos, len) is characters [pos, pos + n) of the string");
    __CPROVER_assert(0, "witness: operation performed");
  } else { __CPROVER_assert(__exc_pending && __VERIF_exc_type() == (char*)&g__ZTISt12out_of_range && same_as_before(), "C12: substr with pos > size raises std::out_of_range"); __CPROVER_assert(0, "witness: precondition violated"); }
#elif OP == T_PUSH_BACK
  uint8_t c = nondet_u8();
  char* r = FN(lam, (char*)&s, c);
  __CPROVER_assert(!__exc_pending && r == (char*)&s && s.n == K + 1 && s.p[K] == (char)c, "C12: s += c appends exactly the given character and yields the string itself");
  for (unsigned i = 0; i < K; i++) __CPROVER_assert(s.p[i] == orig[i], "C12: push_back keeps the existing characters");
  __CPROVER_assert(0, "witness: operation performed");
#elif OP == T_CLEAR
  FN(lam, (char*)&s);
  __CPROVER_assert(!__exc_pending && s.n == 0, "C12: clear empties the string"); __CPROVER_assert(0, "witness: operation performed");
#elif OP == T_SIZE
  uint64_t r = FN(lam, (char*)&s);
  __CPROVER_assert(!__exc_pending && r == K && same_as_before(), "C12: size is the number of characters"); __CPROVER_assert(0, "witness: operation performed");
#elif OP == T_EMPTY
  uint8_t r = FN(lam, (char*)&s);
  __CPROVER_assert(!__exc_pending && (r & 1) == (K == 0) && same_as_before(), "C12: empty holds exactly for the empty string"); __CPROVER_assert(0, "witness: operation performed");
#else
#error "unknown OP"
#endif
  return 0;
}
