/* C09 / C03 / C10: the ranged-for node - the real Ranged_For_AST_Node::eval_internal with abstract children and an abstract range.
   ROUTE 0: the generic route (range()/empty()/front()/pop_front() looked up with get_function and called through dispatch(): every call returns or
   throws, per call; the emptiness answer and its cast to bool are oracles); ROUTE 1: a Vector of 0-2 elements; ROUTE 2: a Map of 0-2 entries
   (red-black-tree image walked through _Rb_tree_increment).  The body returns, breaks, continues or throws, per iteration.
   Asserted: every iteration runs in its own scope which is gone again on EVERY exit of that iteration (normal, continue, break, return/throw of the
   body, a throwing front()/pop_front()) - scope depth is back to its entry value whenever the node is left; the body runs once per element, in
   order, until the range is empty, a break (node ends normally) or an exception (leaves as the same object); continue goes on with the next
   element; the generic route asks empty() before each element, front() once per element, pop_front() once after each completed iteration;
   the node's value is void. */
#define NNODES 4
#include "node_model.h"
enum { B_BREAK = B_NKINDS, B_CONTINUE, B_NKINDS2 };
#define MAXIT 3
static int body_beh[MAXIT + 1], range_expr_beh, range_beh, empty_beh[MAXIT + 1], empty_val[MAXIT + 1], front_beh[MAXIT + 1], pop_beh[MAXIT + 1], cast_throw_at;
static int n_body, n_range, n_empty, n_front, n_pop, n_cast, n_getfun, body_scope[MAXIT + 1], front_scope[MAXIT + 1], pop_scope_at[MAXIT + 1], max_scope;
static struct bv_data range_val_data, range_obj_data, elem_data[MAXIT + 1], empty_box[MAXIT + 1], misc_data; static struct bv_data* body_arg;
static char fvec[4][24]; static struct { char* vptr; uint32_t use, weak; } no_ctrl;
void F__ZNK10chaiscript4eval13AST_Node_ImplINS0_6TracerIJNS0_18Noop_Tracer_DetailEEEEE4evalERKNS_6detail14Dispatch_StateE(char* sret, char* self, char* st) {
  int idx = (int)((struct node*)self - nodes);
  if (idx == 2) { LOG(1); if (range_expr_beh != B_RET) { child_throw(range_expr_beh, TI_EVAL_ERROR, TI_BOXED_VALUE); return; } ((struct BV*)sret)->p = (char*)&range_val_data; ((struct BV*)sret)->pn = 0; return; }
  __CPROVER_assert(idx == 3, "C03: only the range expression and the body are evaluated");
  int i = n_body < MAXIT ? n_body : MAXIT; n_body++; LOG(30); body_scope[i] = scope_depth; int b = body_beh[i];
  if (b == B_RET) { ((struct BV*)sret)->p = (char*)&misc_data; ((struct BV*)sret)->pn = 0; return; }
  if (b == B_BREAK) { thrown_obj = __VERIF_throw_new(TI_BREAK, 8); thrown_kind = b; return; }
  if (b == B_CONTINUE) { thrown_obj = __VERIF_throw_new(TI_CONTINUE, 8); thrown_kind = b; return; }
  child_throw(b, TI_EVAL_ERROR, TI_BOXED_VALUE);
}
void NEW_SCOPE(char* h) { scope_depth++; if (scope_depth > max_scope) max_scope = scope_depth; LOG(20); }
void POP_SCOPE(char* h) { scope_depth--; LOG(21); }
static char void_data[8];
void VOID_VAR(char* sret) { ((struct BV*)sret)->p = void_data; ((struct BV*)sret)->pn = 0; }
static int streq(uint64_t n, const char* p, const char* lit) { uint64_t l = 0; while (lit[l]) l++; if (l != n) return 0; for (uint64_t i = 0; i < 9; i++) if (i < n && p[i] != lit[i]) return 0; return 1; }
struct getfun_ret { uint64_t loc; char* vec; char* ctrl; };
void GET_FUNCTION(char* sret, char* engine, uint64_t n, char* p, uint64_t hint) {
  int k = streq(n, p, "range") ? 0 : streq(n, p, "empty") ? 1 : streq(n, p, "front") ? 2 : streq(n, p, "pop_front") ? 3 : -1; n_getfun++;
  __CPROVER_assert(k >= 0, "C03: a generic range is iterated with range(), empty(), front(), pop_front()");
  struct getfun_ret* r = (struct getfun_ret*)sret; r->loc = hint; r->vec = fvec[k < 0 ? 0 : k]; r->ctrl = 0; }
void DISPATCH(char* sret, char* funcs, char* params, char* conv) {
  int k = funcs == fvec[0] ? 0 : funcs == fvec[1] ? 1 : funcs == fvec[2] ? 2 : 3; struct BV* out = (struct BV*)sret; out->pn = 0;
  char* arg = ((struct BV*)*(char**)params)->p;
  __CPROVER_assert(*(char**)(params + 8) == *(char**)params + sizeof(struct BV), "C06: each range function is called with exactly one argument");
  if (k == 0) { n_range++; LOG(10); __CPROVER_assert(arg == (char*)&range_val_data, "C03: range() is applied to the value of the range expression"); if (range_beh != B_RET) { child_throw(range_beh, TI_EVAL_ERROR, TI_BOXED_VALUE); return; } out->p = (char*)&range_obj_data; return; }
  __CPROVER_assert(arg == (char*)&range_obj_data, "C03: empty(), front(), pop_front() are applied to the range object");
  if (k == 1) { int i = n_empty < MAXIT ? n_empty : MAXIT; n_empty++; LOG(11); if (empty_beh[i] != B_RET) { child_throw(empty_beh[i], TI_EVAL_ERROR, TI_BOXED_VALUE); return; } out->p = (char*)&empty_box[i]; return; }
  if (k == 2) { int i = n_front < MAXIT ? n_front : MAXIT; n_front++; LOG(12); front_scope[i] = scope_depth; if (front_beh[i] != B_RET) { child_throw(front_beh[i], TI_EVAL_ERROR, TI_BOXED_VALUE); return; } out->p = (char*)&elem_data[i]; return; }
  { int i = n_pop < MAXIT ? n_pop : MAXIT; n_pop++; LOG(13); pop_scope_at[i] = scope_depth; if (pop_beh[i] != B_RET) { child_throw(pop_beh[i], TI_EVAL_ERROR, TI_BOXED_VALUE); return; } out->p = (char*)&misc_data; return; }
}
uint8_t CAST_BOOL(char* bv, char* conv) { int i = n_cast; n_cast++; char* p = ((struct BV*)bv)->p; int w = p == (char*)&empty_box[0] ? 0 : p == (char*)&empty_box[1] ? 1 : p == (char*)&empty_box[2] ? 2 : MAXIT;
  if (i == cast_throw_at) { child_throw(B_FOREIGN, TI_EVAL_ERROR, TI_BOXED_VALUE); return 0; }
  return (uint8_t)(w >= MAXIT ? 1 : empty_val[w]); }
/* containers */
static struct BV vec_store[2]; static struct vec3 the_vector; static int n_elems;
char* CAST_VECTOR(char* bv, char* conv) { __CPROVER_assert(((struct BV*)bv)->p == (char*)&range_val_data, "C03: the Vector iterated is the value of the range expression"); return (char*)&the_vector; }
struct mapnode { uint64_t color; char* parent; char* left; char* right; struct sso_string key; struct BV val; };
static char the_map[48] __attribute__((aligned(8))); static struct mapnode mn[2];
char* CAST_MAP(char* bv, char* conv) { return the_map; }
char* F__ZSt18_Rb_tree_incrementPKSt18_Rb_tree_node_base(char* n) { if (n == (char*)&mn[0] && n_elems == 2) return (char*)&mn[1]; return the_map + 8; }
static int n_refbox; static char* refbox_of[MAXIT + 1];
#ifdef BV_FROM_PAIR_REF
void BV_FROM_PAIR_REF(char* self, char* refw, uint8_t rv) { int i = n_refbox < MAXIT ? n_refbox : MAXIT; n_refbox++; refbox_of[i] = *(char**)refw; ((struct BV*)self)->p = (char*)&elem_data[i]; ((struct BV*)self)->pn = 0; }
#endif
void NODE_EVAL(char* sret, char* self, char* st);
static int nd_kind(void) { unsigned b = nondet_u32(); __CPROVER_assume(b < B_NKINDS); return (int)b; }
int main(void) {
  node_set_children(0, 1, 2, 3, -1); nodes[1].text.n = 1; nodes[1].text.buf[0] = 'x'; nodes[1].text.buf[1] = 0;
  range_expr_beh = nd_kind(); range_beh = nd_kind(); { int t = nondet_i32(); __CPROVER_assume(t >= -1 && t <= MAXIT); cast_throw_at = t; }
  for (int i = 0; i <= MAXIT; i++) { unsigned b = nondet_u32(); __CPROVER_assume(b < B_NKINDS2); body_beh[i] = (int)b; empty_beh[i] = nd_kind(); front_beh[i] = nd_kind(); pop_beh[i] = nd_kind(); empty_val[i] = nondet_u8() & 1; }
  n_elems = nondet_u8() % 3;
#if ROUTE == 0
  D_TI(&range_val_data) = (char*)&ti_foreign; D_BARE_TI(&range_val_data) = (char*)&ti_foreign; D_FLAGS(&range_val_data) = 0;
#elif ROUTE == 1
  D_TI(&range_val_data) = TI_VECTOR; D_BARE_TI(&range_val_data) = TI_VECTOR; D_FLAGS(&range_val_data) = nondet_u32() & TIF_const;
  for (int i = 0; i < 2; i++) { vec_store[i].p = (char*)&elem_data[i]; vec_store[i].pn = 0; } the_vector.b = (char*)&vec_store[0]; the_vector.e = (char*)&vec_store[n_elems]; the_vector.c = (char*)&vec_store[2];
#else
  D_TI(&range_val_data) = TI_MAP; D_BARE_TI(&range_val_data) = TI_MAP; D_FLAGS(&range_val_data) = nondet_u32() & TIF_const;
  *(char**)(the_map + 24) = n_elems ? (char*)&mn[0] : the_map + 8; *(uint64_t*)(the_map + 40) = (uint64_t)n_elems;
#endif
  static char state[SZ_Dispatch_State] __attribute__((aligned(8))); struct BV out = { 0, 0 };
  NODE_EVAL((char*)&out, (char*)&nodes[0], state);
  __CPROVER_assert(scope_depth == 0, "C09: scope depth is restored on every exit of the ranged-for (normal end, break, an exception from the body, front() or pop_front())");
  __CPROVER_assert(max_scope <= 1, "C09: the scope of one iteration is gone before the next begins");
  /* ---- reference */
  int exp_body = 0, exp_exc = 0, exp_front = 0, exp_pop = 0, exp_empty = 0, done = 0, exc_kind = -1;
  if (range_expr_beh != B_RET) { exp_exc = 1; exc_kind = range_expr_beh; done = 1; }
#if ROUTE == 0
  if (!done && range_beh != B_RET) { exp_exc = 1; exc_kind = range_beh; done = 1; }
  for (int i = 0; i <= MAXIT; i++) if (!done) {
    exp_empty++; if (empty_beh[i] != B_RET) { exp_exc = 1; exc_kind = empty_beh[i]; done = 1; break; }
    if (cast_throw_at == i) { exp_exc = 1; exc_kind = B_FOREIGN; done = 1; break; }
    if (i >= MAXIT || empty_val[i]) { done = 1; break; }
    exp_front++; if (front_beh[i] != B_RET) { exp_exc = 1; exc_kind = front_beh[i]; done = 1; break; }
    exp_body++; int b = body_beh[i]; if (b == B_BREAK) { done = 1; break; } if (b != B_RET && b != B_CONTINUE) { exp_exc = 1; exc_kind = b; done = 1; break; }
    exp_pop++; if (pop_beh[i] != B_RET) { exp_exc = 1; exc_kind = pop_beh[i]; done = 1; break; }
  }
  __CPROVER_assert(n_empty == exp_empty && n_front == exp_front && n_pop == exp_pop && n_range == (range_expr_beh == B_RET), "C03: range() once, empty() before each element, front() once per element, pop_front() once after each completed iteration");
  for (int i = 0; i < MAXIT; i++) { if (i < n_front) __CPROVER_assert(front_scope[i] == 1, "C09: the loop variable is fetched inside the iteration's scope"); }
#else
  for (int i = 0; i < 2; i++) if (!done && i < n_elems) { exp_body++; int b = body_beh[i]; if (b == B_BREAK) { done = 1; break; } if (b != B_RET && b != B_CONTINUE) { exp_exc = 1; exc_kind = b; done = 1; break; } }
  __CPROVER_assert(n_getfun == 0 && n_range == 0, "C03: Vector and Map are iterated directly");
#if ROUTE == 2
  for (int i = 0; i < 2; i++) if (i < n_refbox) __CPROVER_assert(refbox_of[i] == (char*)&mn[i].key, "C03: the loop variable of a Map iteration refers to the i-th entry (key/value pair) itself");
#endif
#endif
  __CPROVER_assert(n_body == exp_body, "C03: the body runs once per element, in order, until the range is empty, a break or an exception");
  for (int i = 0; i < MAXIT; i++) if (i < n_body) __CPROVER_assert(body_scope[i] == 1, "C09: each iteration runs in its own scope");
  if (exp_exc) { __CPROVER_assert(__exc_pending && __exc_obj == thrown_obj && thrown_kind == exc_kind, "C10: an exception of the range functions or of the body leaves the loop as the same object"); __CPROVER_assert(0, "witness: left by exception"); }
  else { __CPROVER_assert(!__exc_pending && out.p == void_data, "C03: break and the end of the range end the loop normally; its value is void");
    if (exp_body >= 1 && body_beh[exp_body - 1] == B_BREAK) __CPROVER_assert(0, "witness: break"); else if (exp_body >= 2 && body_beh[0] == B_CONTINUE) __CPROVER_assert(0, "witness: continue then next element"); else if (exp_body == 0) __CPROVER_assert(0, "witness: empty range"); else __CPROVER_assert(0, "witness: ran to the end"); }
  return 0;
}
