/* C14 K2 (+ C13): per-thread conversion caches belong to ONE engine.  The real Type_Conversions::thread_cache() is called on two different
   Type_Conversions objects (two engines) from the same thread, and on one object from two threads.  The thread-local map behind
   Thread_Storage (std::unordered_map<key, set>::operator[]) is a stub that hands out one slot per (modelled thread, KEY VALUE); the keys of two
   live storage objects differ (decided by K.Thread_Storage).  All caches are up to date (size == published number of types), so no refresh
   interferes.
   Asserted: two engines used from one thread get two different caches (what one engine's conversions put into its cache is never consulted
   for another engine); one engine used from two threads gets two different caches (no unsynchronised sharing between threads). */
#include "layout.h"
#include "bv_model.h"
static char tcA[SZ_Type_Conversions] __attribute__((aligned(16))), tcB[SZ_Type_Conversions] __attribute__((aligned(16)));
static char slot[2][2][64] __attribute__((aligned(8)));
static uint64_t keyA, keyB; static int n_slot;
char* CACHE_SLOT(char* map, char* key) { n_slot++; uint64_t k = *(uint64_t*)key; __CPROVER_assert(k == keyA || k == keyB, "C14: the thread-local slot is looked up by the key of an engine's own storage object"); return slot[__verif_tid & 1][k == keyA ? 0 : 1]; }
uint32_t F___cxa_thread_atexit(char* f, char* o, char* d) { return 0; }
uint32_t F_pthread_rwlock_rdlock(char* l) { return 0; } uint32_t F_pthread_rwlock_unlock(char* l) { return 0; } uint32_t F_pthread_rwlock_wrlock(char* l) { return 0; }
char* TREE_ASSIGN(char* dst, char* src) { __CPROVER_assert(0, "MODEL: no refresh expected (all caches are up to date)"); return dst; }
char* E_CACHE(char* tc);
int main(void) {
  keyA = nondet_u64(); keyB = nondet_u64(); __CPROVER_assume(keyA != keyB);            /* Thread_Storage keys are unique per constructed object: C14 K.Thread_Storage */
#ifdef OFF_TC_thread_cache
  *(uint64_t*)(tcA + OFF_TC_thread_cache) = keyA; *(uint64_t*)(tcB + OFF_TC_thread_cache) = keyB;
#endif
  /* m_num_types == 0 in both engines; every cache the stub or the code under test provides is empty (zero-initialised): up to date */
  __verif_tid = 0;
  char* a0 = E_CACHE(tcA); char* b0 = E_CACHE(tcB); char* a0again = E_CACHE(tcA);
  __CPROVER_assert(!__exc_pending && a0 != 0 && b0 != 0, "C14: thread_cache() returns a cache");
  __CPROVER_assert(a0 != b0, "C14: two engines used from the same thread have separate per-thread conversion caches (one engine's convertible types are never consulted for another engine)");
  __CPROVER_assert(a0 == a0again, "C14: an engine finds its own cache again");
  __verif_tid = 1;
  char* a1 = E_CACHE(tcA);
  __CPROVER_assert(a1 != a0 && a1 != b0, "C13: one engine used from two threads uses two caches (the cache is written without a lock: it must not be shared between threads)");
  __CPROVER_assert(0, "witness: four lookups");
  return 0;
}
