/* C11 L2 (+ C02/C09 obligations of the same unit): the closure the For_Loop optimizer compiles for `for (var i = a; i < b; ++i) body`,
   the real lambda operator() from chaiscript_optimizer.hpp, on symbolic start/end values and an abstract body.
   Object_Data::get<...> (the routes of L1) and add_object / new_scope / pop_scope / the body's eval() are recorders.
   Asserted:
     - the loop variable handed to the scope is built by an OWNING route (value / shared_ptr), never from a pointer or reference to the
       closure's own frame: the body may capture it (lambda, container of references) and keep it after the loop has ended;
     - the Boxed_Value stored in the scope and the counter the closure iterates on are the same object (what the body reads is the counter,
       what the body assigns is what the loop continues from), still alive (use_count >= 1, not disposed) when the closure returns;
     - the body is evaluated exactly for i = start, start+1, ... while i < end (as the unoptimized For node would), `continue` still
       increments, `break` ends the loop, any other exception propagates;
     - one scope is pushed and popped on every path. */
#define NNODES 2
#include "node_model.h"
static struct verif_ti ti_break_standin = {0, "*break"}, ti_continue_standin = {0, "*continue"};
#ifndef TI_BREAK
#define TI_BREAK ((char*)&ti_break_standin)
#define TI_CONTINUE ((char*)&ti_continue_standin)
#endif
#define R_OWN 1
#define R_ALIAS 2
struct ctrl { char* vptr; uint32_t use; uint32_t weak; };
static int data_disposed, data_destroyed;
/* ~Boxed_Value releases one share of the Data (shared_ptr contract); no virtual dispose through a vtable: CBMC would consider every void(char*) function */
void BV_DTOR(char* self) { struct BV* b = (struct BV*)self; if (b->pn) { struct ctrl* c = (struct ctrl*)b->pn; c->use--; if (c->use == 0) data_disposed++; } b->p = 0; b->pn = 0; }
static struct ctrl data_cb; static struct bv_data loop_data; static int32_t owned_counter;
static int n_get, route; static char* alias_ptr;
static void od_get(char* sret, int kind, char* p, int32_t v) {
  n_get++; route = kind; alias_ptr = p;
  if (kind == R_OWN) { owned_counter = v; D_PTR(&loop_data) = &owned_counter; D_CPTR(&loop_data) = &owned_counter; D_IS_REF(&loop_data) = 0; }
  else { D_PTR(&loop_data) = p; D_CPTR(&loop_data) = p; D_IS_REF(&loop_data) = 1; }
  data_cb.vptr = 0; data_cb.use = 1; data_cb.weak = 1; ((struct BV*)sret)->p = (char*)&loop_data; ((struct BV*)sret)->pn = (char*)&data_cb;
}
#include "c11_forloop_stubs.h"
static int n_new, n_pop, n_add; static char* added_data; static char* added_name; static struct BV scope_slot;
void NEW_SCOPE(char* holder) { n_new++; scope_depth++; }
void POP_SCOPE(char* holder) { n_pop++; scope_depth--; }
void ADD_OBJECT(char* self, char* name, char* bv) { n_add++; added_name = name; added_data = ((struct BV*)bv)->p; scope_slot = *(struct BV*)bv; ((struct BV*)bv)->p = 0; ((struct BV*)bv)->pn = 0; }
static struct bv_data void_data;
void VOID_VAR(char* sret) { ((struct BV*)sret)->p = (char*)&void_data; ((struct BV*)sret)->pn = 0; }
#define B_BREAK 10
#define B_CONTINUE 11
#define MAXIT 4
static int n_eval; static int32_t seen[MAXIT + 1]; static int body_beh[MAXIT + 1]; static int32_t body_set[MAXIT + 1]; static int body_assigns[MAXIT + 1];
static int stored_is_counter = 1;
void NODE_EVAL(char* sret, char* node, char* ss) {
  int k = n_eval < MAXIT ? n_eval : MAXIT; n_eval++;
  int32_t* var = route == R_OWN ? &owned_counter : (int32_t*)alias_ptr;      /* what the script sees under the loop variable's name: the stored Data's object */
  seen[k] = *var;
  if (body_assigns[k]) { __CPROVER_assume(body_set[k] >= *var && body_set[k] < 2147483647); *var = body_set[k]; }      /* bound: the body only moves the variable forward */
  int b = body_beh[k];
  if (b == B_BREAK) { __VERIF_throw_new(TI_BREAK, 8); return; }
  if (b == B_CONTINUE) { __VERIF_throw_new(TI_CONTINUE, 8); return; }
  if (b != B_RET) { child_throw(b, TI_EVAL_ERROR, TI_BOXED_VALUE); return; }
  ((struct BV*)sret)->p = (char*)&void_data; ((struct BV*)sret)->pn = 0;
}
struct closure { struct sso_string id; int32_t start; int32_t end; };
void CLOSURE(char* sret, char* self, char* children, char* ss);
int main(void) {
  static struct closure c; c.id.p = c.id.buf; c.id.n = 1; c.id.buf[0] = 'i'; c.id.buf[1] = 0;
  int32_t start = nondet_i32(), end = nondet_i32(); c.start = start; c.end = end;
  __CPROVER_assume((int64_t)end - (int64_t)start <= MAXIT - 1);           /* bound: at most MAXIT-1 iterations without assignments */
  for (int k = 0; k <= MAXIT; k++) { unsigned b = nondet_u8() % 6; body_beh[k] = b == 0 ? B_RET : b == 1 ? B_BREAK : b == 2 ? B_CONTINUE : b == 3 ? B_EVAL_ERROR : b == 4 ? B_RUNTIME : B_BV;
    body_assigns[k] = nondet_u8() & 1; body_set[k] = nondet_i32(); }
  static char engine[8], holder[8]; char* ss[3] = { engine, holder, 0 };
  static char* child_slot[1]; child_slot[0] = (char*)&nodes[1]; struct vec3 children = { (char*)&child_slot[0], (char*)&child_slot[1], (char*)&child_slot[1] };
  struct BV out = {0, 0};
  CLOSURE((char*)&out, (char*)&c, (char*)&children, (char*)ss);
  /* ---- ownership */
  __CPROVER_assert(n_get == 1 && n_add == 1 && added_data == (char*)&loop_data, "C11: one loop variable is created and it is the object stored in the scope");
  __CPROVER_assert(route == R_OWN, "C11: the for-loop variable owns its storage (built by value, not from a pointer/reference into the closure's frame)");
  __CPROVER_assert(data_disposed == 0 && data_cb.use == 1, "C11: when the closure returns the scope's share is the only one left and the variable is alive");
  __CPROVER_assert(n_new == 1 && n_pop == 1 && scope_depth == 0, "C09: the closure pushes and pops exactly one scope on every path");
  /* ---- reference loop */
  int64_t i = start; int k = 0; int left_by = 0;      /* 0 normal end, 1 break, 2 exception */
  while (k < MAXIT && i < end) {
    __CPROVER_assert(k < n_eval && seen[k] == (int32_t)i, "C02: the body sees the loop variable the unoptimized loop would show it");
    if (body_assigns[k]) i = body_set[k];
    int b = body_beh[k]; k++;
    if (b == B_BREAK) { left_by = 1; break; }
    if (b != B_RET && b != B_CONTINUE) { left_by = 2; break; }
    i++;
  }
  __CPROVER_assert(n_eval == k, "C02: the body is evaluated exactly as often as in the unoptimized loop");
  if (left_by == 2) { __CPROVER_assert(__exc_pending, "C02: an exception of the body leaves the loop"); __CPROVER_assert(0, "witness: body throws"); }
  else { __CPROVER_assert(!__exc_pending && out.p == (char*)&void_data, "C02: the loop completes with a void value");
         if (left_by == 1) __CPROVER_assert(0, "witness: break"); else if (k >= 2) __CPROVER_assert(0, "witness: two iterations"); else if (k == 0) __CPROVER_assert(0, "witness: no iteration"); }
  return 0;
}
