/* C08: evaluating code does not change the code.
   MODE 1 (R1): the real detail::clone_if_necessary on a symbolic value: anything that is not a pending return value is COPIED
                (arithmetic: Boxed_Number::clone; bool/string: a fresh box; other types: the script-level clone function) - the
                value stored or inserted is never the literal's own object; a pending return value is adopted (flag reset).
   MODE 2 (R2): the real Inline_Array_AST_Node::eval_internal with K abstract element children: every element goes through
                clone_if_necessary exactly once, in order, into a fresh vector; the node object is bit-identical afterwards.
   MODE 3 (R3): the real Constant_AST_Node::eval_internal: returns the stored constant, node bit-identical afterwards.
   MODE 4 (R4): the real Assign_Decl_AST_Node::eval_internal (`var x = e`): the variable is bound to the copy clone_if_necessary made of
                e's value - never to the value e produced (for a literal: the Constant node's own object) - under the declared name.
   MODE 5 (R5): the real Inline_Map_AST_Node::eval_internal with K abstract pairs: every value goes through clone_if_necessary once,
                in order; the map receives the copies; node unchanged. */
#ifndef NNODES
#define NNODES 6
#endif
#include "node_model.h"
static struct bv_data in_data, clone_data, newbox_data; static int ev_numclone, ev_boolbox, ev_strbox, ev_call, ev_reset; static char* call_arg;
void F__ZN10chaiscript12Boxed_Number5cloneERKNS_11Boxed_ValueE(char* sret, char* bv) { ev_numclone++; ((struct BV*)sret)->p = (char*)&clone_data; ((struct BV*)sret)->pn = 0; }
void F__ZN10chaiscript11Boxed_ValueC2IRKbvEEOT_b(char* self, char* b, uint8_t rv) { ev_boolbox++; ((struct BV*)self)->p = (char*)&newbox_data; ((struct BV*)self)->pn = 0; }
void F__ZN10chaiscript11Boxed_ValueC2IRKNSt7__cxx1112basic_stringIcSt11char_traitsIcESaIcEEEvEEOT_b(char* self, char* s, uint8_t rv) { ev_strbox++; ((struct BV*)self)->p = (char*)&newbox_data; ((struct BV*)self)->pn = 0; }
void F__ZNK10chaiscript6detail15Dispatch_Engine13call_functionESt17basic_string_viewIcSt11char_traitsIcEERSt6atomicImERKNS_15Function_ParamsERKNS_22Type_Conversions_StateE(char* sret, char* self, uint64_t len, char* name, char* loc, char* params, char* conv) {
  ev_call++; __CPROVER_assert(len == 5 && name[0] == 'c' && name[1] == 'l' && name[2] == 'o' && name[3] == 'n' && name[4] == 'e', "C08: values of other types are copied with the clone function");
  call_arg = (*(struct BV**)params)[0].p; ((struct BV*)sret)->p = (char*)&clone_data; ((struct BV*)sret)->pn = 0; }
void F__ZNK10chaiscript11Boxed_Value18reset_return_valueEv(char* self) { ev_reset++; }
#if MODE == 1
void CLONE_IF(char* sret, char* incoming, char* loc, char* st);
int main(void) {
  static struct verif_ti ti_other = {0, "*other"};
  unsigned ty = nondet_u32(); __CPROVER_assume(ty < 3); uint8_t arith = nondet_u8() & 1, retv = nondet_u8() & 1; static uint8_t payload[32];
  D_BARE_TI(&in_data) = ty == 0 ? (char*)&g__ZTIb : ty == 1 ? (char*)&g__ZTINSt7__cxx1112basic_stringIcSt11char_traitsIcESaIcEEE : (char*)&ti_other; D_TI(&in_data) = D_BARE_TI(&in_data);
  D_FLAGS(&in_data) = (arith ? TIF_arithmetic : 0) | (nondet_u32() & TIF_const); D_RETVAL(&in_data) = retv; D_CPTR(&in_data) = payload;
  struct BV in = { (char*)&in_data, 0 }, out = { 0, 0 }; uint64_t loc = 0; static char state[SZ_Dispatch_State];
  CLONE_IF((char*)&out, (char*)&in, (char*)&loc, state);
  __CPROVER_assert(!__exc_pending, "C08: copying a value does not fail in the copy rule itself");
  if (retv) { __CPROVER_assert(out.p == (char*)&in_data && ev_reset == 1 && ev_numclone + ev_boolbox + ev_strbox + ev_call == 0, "C08: a pending return value is adopted as it is (it belongs to nobody else)"); __CPROVER_assert(0, "witness: return value"); }
  else {
    __CPROVER_assert(out.p != (char*)&in_data, "C08: a value that is not a pending return value is never stored itself: a copy is made");
    __CPROVER_assert(ev_numclone + ev_boolbox + ev_strbox + ev_call == 1, "C08: exactly one copy is made");
    if (arith) __CPROVER_assert(ev_numclone == 1, "C08: numbers are copied by Boxed_Number::clone");
    else if (ty == 0) __CPROVER_assert(ev_boolbox == 1, "C08: bools are copied into a fresh box");
    else if (ty == 1) __CPROVER_assert(ev_strbox == 1, "C08: strings are copied into a fresh box");
    else __CPROVER_assert(ev_call == 1 && call_arg == (char*)&in_data, "C08: other values are copied by clone(value)");
    __CPROVER_assert(0, "witness: copied");
  }
  return 0;
}
#elif MODE == 2
static int clone_calls; static char* clone_args[4]; static struct bv_data clones[4]; static int cv_calls; static uint64_t cv_n; static char* cv_elems[4]; static struct bv_data vec_box;
void CLONE_IF(char* sret, char* incoming, char* loc, char* st) { if (clone_calls < 4) clone_args[clone_calls] = ((struct BV*)incoming)->p; ((struct BV*)sret)->p = (char*)&clones[clone_calls & 3]; ((struct BV*)sret)->pn = 0; clone_calls++; }
void CONST_VAR_VEC(char* sret, char* vec) { cv_calls++; struct vec3* v = (struct vec3*)vec; cv_n = (v->b == v->e) ? 0 : (uint64_t)((struct BV*)v->e - (struct BV*)v->b);     /* the temporary vector dies after this call: record its content now */
  for (unsigned i = 0; i < 4; i++) if (i < cv_n) cv_elems[i] = ((struct BV*)v->b)[i].p; ((struct BV*)sret)->p = (char*)&vec_box; ((struct BV*)sret)->pn = 0; }
void F__ZNK10chaiscript4eval13AST_Node_ImplINS0_6TracerIJNS0_18Noop_Tracer_DetailEEEEE4evalERKNS_6detail14Dispatch_StateE(char* sret, char* self, char* st) {
  int idx = (int)((struct node*)self - nodes); LOG(100 + idx);
  if (behav[idx] != B_RET) { child_throw(behav[idx], TI_EVAL_ERROR, TI_BOXED_VALUE); return; }
  ((struct BV*)sret)->p = valpool[idx]; ((struct BV*)sret)->pn = 0; }
void NODE_EVAL(char* sret, char* self, char* st);
struct arr_node { struct node base; uint64_t m_loc; };
int main(void) {
  static struct arr_node A; static char* a_children[1]; static struct BV observed[4];
  __CPROVER_assert(sizeof(struct arr_node) == SZ_Inline_Array_Node, "C08: a literal node carries no state beyond its children and its call-site cache (nothing an evaluation could leave behind)");
  /* node 0 = Arg_List holding the elements 1..K */
  node_set_children(0, KE >= 1 ? 1 : -1, KE >= 2 ? 2 : -1, KE >= 3 ? 3 : -1, -1);
  A.base.identifier = AST_Inline_Array; A.base.text.p = A.base.text.buf; a_children[0] = (char*)&nodes[0];
  A.base.children.b = (char*)&a_children[0]; A.base.children.e = (char*)&a_children[1]; A.base.children.c = A.base.children.e;
  for (int i = 0; i < NNODES; i++) { unsigned b = nondet_u32(); __CPROVER_assume(b < B_NKINDS); behav[i] = (int)b; }
  struct node before = A.base; static char state[SZ_Dispatch_State]; struct BV out = { 0, 0 };
  NODE_EVAL((char*)&out, (char*)&A, state);
  int first_bad = 0; for (int i = KE; i >= 1; i--) if (behav[i] != B_RET) first_bad = i;
  __CPROVER_assert(memcmp(&before, &A.base, sizeof before) == 0, "C08: evaluating an inline vector literal leaves the syntax tree node unchanged");
  if (first_bad) { __CPROVER_assert(__exc_pending && cv_calls == 0, "C10: a failing element aborts the literal"); __CPROVER_assert(0, "witness: element throws"); return 0; }
  __CPROVER_assert(!__exc_pending && cv_calls == 1 && out.p == (char*)&vec_box, "C08: each evaluation of a vector literal builds a fresh vector");
  __CPROVER_assert(clone_calls == KE, "C08: every element of a vector literal is copied exactly once");
  for (int i = 0; i < KE; i++) __CPROVER_assert(clone_args[i] == valpool[i + 1], "C08: elements are evaluated and copied in order");
  __CPROVER_assert(cv_n == KE, "C03: the vector has one entry per element expression");
  for (int i = 0; i < KE; i++) __CPROVER_assert(cv_elems[i] == (char*)&clones[i], "C08: the vector holds the copies, not the values the element expressions produced");
  __CPROVER_assert(0, "witness: literal built");
  return 0;
}
#elif MODE == 3
void NODE_EVAL(char* sret, char* self, char* st);
struct const_node { struct node base; struct BV m_value; };
int main(void) {
  __CPROVER_assert(sizeof(struct const_node) == SZ_Constant_Node, "C08: a constant node holds its value and nothing else");
  static struct const_node C; static struct bv_data cd; C.base.identifier = AST_Constant; C.base.text.p = C.base.text.buf; C.m_value.p = (char*)&cd; C.m_value.pn = 0;
  struct const_node before = C; static char state[SZ_Dispatch_State]; struct BV out = { 0, 0 };
  NODE_EVAL((char*)&out, (char*)&C, state);
  __CPROVER_assert(!__exc_pending && out.p == (char*)&cd, "C08: a literal evaluates to its stored constant");
  __CPROVER_assert(memcmp(&before, &C, sizeof before) == 0, "C08: evaluating a literal leaves the syntax tree node unchanged");
  __CPROVER_assert(0, "witness: constant evaluated");
  return 0;
}
#elif MODE == 4
static int clone_calls; static char* clone_arg; static struct bv_data the_clone; static int n_add; static char* add_name; static char* add_val; static int add_conflict;
void CLONE_IF(char* sret, char* incoming, char* loc, char* st) { clone_calls++; clone_arg = ((struct BV*)incoming)->p; ((struct BV*)sret)->p = (char*)&the_clone; ((struct BV*)sret)->pn = 0; }
void ADD_OBJECT(char* self, char* name, char* bv) { n_add++; add_name = name; add_val = ((struct BV*)bv)->p; }
void F__ZNK10chaiscript4eval13AST_Node_ImplINS0_6TracerIJNS0_18Noop_Tracer_DetailEEEEE4evalERKNS_6detail14Dispatch_StateE(char* sret, char* self, char* st) {
  int idx = (int)((struct node*)self - nodes); LOG(100 + idx);
  if (behav[idx] != B_RET) { child_throw(behav[idx], TI_EVAL_ERROR, TI_BOXED_VALUE); return; }
  ((struct BV*)sret)->p = valpool[idx]; ((struct BV*)sret)->pn = 0; }
void NODE_EVAL(char* sret, char* self, char* st);
struct ad_node { struct node base; uint64_t m_loc; };
int main(void) {
  static struct ad_node A; static char* a_children[2];
  __CPROVER_assert(sizeof(struct ad_node) == SZ_Assign_Decl_Node, "C08: a declaration node carries no state beyond its children and its call-site cache (nothing an evaluation could leave behind)");
  A.base.identifier = AST_Assign_Decl; A.base.text.p = A.base.text.buf; a_children[0] = (char*)&nodes[1]; a_children[1] = (char*)&nodes[2];
  A.base.children.b = (char*)&a_children[0]; A.base.children.e = (char*)&a_children[2]; A.base.children.c = A.base.children.e;
  nodes[1].text.p = nodes[1].text.buf; nodes[1].text.n = 1; nodes[1].text.buf[0] = 'x';
  for (int i = 0; i < NNODES; i++) { unsigned b = nondet_u32(); __CPROVER_assume(b < B_NKINDS); behav[i] = (int)b; }
  struct node before = A.base; static char state[SZ_Dispatch_State]; struct BV out = { 0, 0 };
  NODE_EVAL((char*)&out, (char*)&A, state);
  __CPROVER_assert(memcmp(&before, &A.base, sizeof before) == 0, "C08: evaluating a declaration leaves the syntax tree node unchanged");
  if (behav[2] != B_RET) { __CPROVER_assert(__exc_pending && __exc_obj == thrown_obj && n_add == 0, "C10: a failing initializer declares nothing and its exception leaves unchanged"); __CPROVER_assert(0, "witness: initializer throws"); return 0; }
  __CPROVER_assert(!__exc_pending && clone_calls == 1 && clone_arg == valpool[2], "C08: the initializer's value goes through the copy rule exactly once");
  __CPROVER_assert(n_add == 1 && add_val == (char*)&the_clone && add_name == (char*)&nodes[1].text, "C08: `var x = e` binds x to the COPY of e's value (never to the object e produced - for a literal that is the syntax tree's own constant), under the declared name");
  __CPROVER_assert(out.p == (char*)&the_clone && ev_reset == 1, "C03: the declaration yields the new variable; its return-value mark is cleared");
  __CPROVER_assert(0, "witness: declared");
  return 0;
}
#elif MODE == 5
static int clone_calls; static char* clone_args[4]; static struct bv_data clones[4]; static int n_ins; static char* ins_val[4]; static int n_cast; static char* cast_arg[4]; static int cv_calls; static struct bv_data map_box;
void CLONE_IF(char* sret, char* incoming, char* loc, char* st) { if (clone_calls < 4) clone_args[clone_calls] = ((struct BV*)incoming)->p; ((struct BV*)sret)->p = (char*)&clones[clone_calls & 3]; ((struct BV*)sret)->pn = 0; clone_calls++; }
/* boxed_cast<std::string>(key value): a recorder that yields some short string */
void CAST_STRING(char* sret, char* bv, char* conv) { if (n_cast < 4) cast_arg[n_cast] = ((struct BV*)bv)->p; n_cast++; struct sso_string* s = (struct sso_string*)sret; s->p = s->buf; s->n = 1; s->buf[0] = 'k'; s->buf[1] = 0; }
struct pair_sb { struct sso_string first; struct BV second; };
MAP_INSERT_RET MAP_INSERT(char* map, char* pair) { if (n_ins < 4) ins_val[n_ins] = ((struct pair_sb*)pair)->second.p; n_ins++; MAP_INSERT_RET r; r.f0 = 0; r.f1 = 1; return r; }   /* pair<iterator,bool> in registers */
/* the per-thread conversion-saves table the engine consults before a typed cast: an opaque object here */
static char conv_saves[64] __attribute__((aligned(8)));
char* CONV_SAVES(char* map, char* key) { return conv_saves; }
uint32_t F___cxa_thread_atexit(char* f, char* o, char* d) { return 0; }
void CONST_VAR_MAP(char* sret, char* m) { cv_calls++; ((struct BV*)sret)->p = (char*)&map_box; ((struct BV*)sret)->pn = 0; }
void F__ZNK10chaiscript4eval13AST_Node_ImplINS0_6TracerIJNS0_18Noop_Tracer_DetailEEEEE4evalERKNS_6detail14Dispatch_StateE(char* sret, char* self, char* st) {
  int idx = (int)((struct node*)self - nodes); LOG(100 + idx);
  if (behav[idx] != B_RET) { child_throw(behav[idx], TI_EVAL_ERROR, TI_BOXED_VALUE); return; }
  ((struct BV*)sret)->p = valpool[idx]; ((struct BV*)sret)->pn = 0; }
void NODE_EVAL(char* sret, char* self, char* st);
struct map_node { struct node base; uint64_t m_loc; };
int main(void) {
  /* M -> [node 0 (pair list)] ; node 0 -> pairs 1..KE ; pair i -> [key node 3+2i-... , value node] : key of pair i = node 2+2i-1 ... laid out as: pair i (1..KE) children = nodes[KE+2i-1], nodes[KE+2i] */
  static struct map_node M; static char* m_children[1];
  __CPROVER_assert(sizeof(struct map_node) == SZ_Inline_Map_Node, "C08: a literal node carries no state beyond its children and its call-site cache (nothing an evaluation could leave behind)");
  node_set_children(0, KE >= 1 ? 1 : -1, KE >= 2 ? 2 : -1, -1, -1);
  for (int i = 1; i <= KE; i++) node_set_children(i, KE + 2 * i - 1, KE + 2 * i, -1, -1);
  M.base.identifier = AST_Inline_Map; M.base.text.p = M.base.text.buf; m_children[0] = (char*)&nodes[0];
  M.base.children.b = (char*)&m_children[0]; M.base.children.e = (char*)&m_children[1]; M.base.children.c = M.base.children.e;
  for (int i = 0; i < NNODES; i++) { unsigned b = nondet_u32(); __CPROVER_assume(b < B_NKINDS); behav[i] = (int)b; }
  struct node before = M.base; static char state[SZ_Dispatch_State] __attribute__((aligned(8))); static char engine[64] __attribute__((aligned(8))); *(char**)state = engine; struct BV out = { 0, 0 };
  NODE_EVAL((char*)&out, (char*)&M, state);
  __CPROVER_assert(memcmp(&before, &M.base, sizeof before) == 0, "C08: evaluating an inline map literal leaves the syntax tree node unchanged");
  int bad = 0; for (int i = KE; i >= 1; i--) if (behav[KE + 2 * i - 1] != B_RET || behav[KE + 2 * i] != B_RET) bad = i;
  if (bad) { __CPROVER_assert(__exc_pending && cv_calls == 0, "C10: a failing key or value aborts the literal"); __CPROVER_assert(0, "witness: pair throws"); return 0; }
  __CPROVER_assert(!__exc_pending && cv_calls == 1 && out.p == (char*)&map_box, "C08: each evaluation of a map literal builds a fresh map");
  __CPROVER_assert(clone_calls == KE && n_ins == KE && n_cast == KE, "C08: every value of a map literal is copied exactly once and inserted once");
  for (int i = 0; i < KE; i++) { __CPROVER_assert(clone_args[i] == valpool[KE + 2 * (i + 1)] && cast_arg[i] == valpool[KE + 2 * (i + 1) - 1], "C08: keys and values are taken from their own expressions, in order");
                                 __CPROVER_assert(ins_val[i] == (char*)&clones[i], "C08: the map holds the copies, not the values the expressions produced"); }
  __CPROVER_assert(0, "witness: literal built");
  return 0;
}
#endif
