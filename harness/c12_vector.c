/* C12: one callable registered for the built-in Vector (std::vector<Boxed_Value>) - the real lambda / detail:: function from
   bootstrap_stl.hpp - run on an ARBITRARY VALID vector of exactly K elements (capacity K or K+1, shape) with arbitrary int
   arguments, against a C array model.  Elements are Boxed_Values without control block (copying them never touches a refcount).
   Asserted: the std:: effect and result, or an exception when an index/position/emptiness precondition is violated;
   the vector stays well formed (begin <= end <= cap, size as expected); no access outside its storage (CBMC pointer checks:
   the storage is an exactly-sized malloc'd array). */
#include "layout.h"
#include "bv_model.h"
#ifndef K
#define K 2
#endif
#ifndef CAPX
#define CAPX 0
#endif
#define OP_INDEX 1
#define OP_CINDEX 2
#define OP_FRONT 3
#define OP_CFRONT 4
#define OP_BACK 5
#define OP_CBACK 6
#define OP_POP_BACK 7
#define OP_INSERT_AT 8
#define OP_ERASE_AT 9
#define OP_PUSH_BACK 10
#define OP_CLEAR 11
#define OP_SIZE 12
#define OP_EMPTY 13
void F__ZN10chaiscript11Boxed_ValueD2Ev(char* self) { ((struct BV*)self)->p = 0; ((struct BV*)self)->pn = 0; }   /* cut (pair with construction): elements own nothing here */
void F__ZNSt11range_errorC1ERKNSt7__cxx1112basic_stringIcSt11char_traitsIcESaIcEEE(char* self, char* s) { }
void F__ZNSt11range_errorC1EPKc(char* self, char* s) { }
void F__ZNSt11range_errorD1Ev(char* self) { }
extern struct verif_ti g__ZTISt11range_error, g__ZTISt12out_of_range;
char* __VERIF_exc_type(void);
static char elems[8][8];
int main(void) {
  struct vec3 v; struct BV* store = (struct BV*)malloc((K + CAPX ? K + CAPX : 1) * sizeof(struct BV));
  struct BV model[K + 2];
  for (unsigned i = 0; i < K; i++) { store[i].p = elems[i]; store[i].pn = 0; model[i] = store[i]; }
  v.b = (char*)store; v.e = (char*)(store + K); v.c = (char*)(store + K + CAPX);
#ifdef FIXIDX
  int32_t idx = FIXIDX;
#else
  int32_t idx = nondet_i32();
#endif
  struct BV nv = { elems[7], 0 };
  char* r = 0; uint64_t ru = 0; unsigned expect_n = K; int expect_throw = 0; char* expect_ti = 0; char* expect_r = 0; int check_r = 0;
  int inrange = idx >= 0 && (uint32_t)idx < K;
#if OP == OP_INDEX || OP == OP_CINDEX
  r = FN((char*)0, (char*)&v, (uint32_t)idx); expect_throw = !inrange; expect_ti = (char*)&g__ZTISt12out_of_range; check_r = 1; expect_r = inrange ? (char*)(store + idx) : 0;
#elif OP == OP_FRONT || OP == OP_CFRONT
  r = FN((char*)0, (char*)&v); expect_throw = (K == 0); expect_ti = (char*)&g__ZTISt11range_error; check_r = 1; expect_r = (char*)store;
#elif OP == OP_BACK || OP == OP_CBACK
  r = FN((char*)0, (char*)&v); expect_throw = (K == 0); expect_ti = (char*)&g__ZTISt11range_error; check_r = 1; expect_r = (char*)(store + K - 1);
#elif OP == OP_POP_BACK
#ifdef RAW_MEMBER
  FN((char*)&v);
#else
  FN((char*)0, (char*)&v);
#endif
  expect_throw = (K == 0); expect_ti = (char*)&g__ZTISt11range_error; expect_n = K ? K - 1 : 0;
#elif OP == OP_INSERT_AT
  FN((char*)&v, (uint32_t)idx, (char*)&nv); expect_throw = !(idx >= 0 && (uint32_t)idx <= K); expect_ti = (char*)&g__ZTISt11range_error;
  if (!expect_throw) { for (int i = K; i > idx; i--) model[i] = model[i - 1]; model[idx] = nv; expect_n = K + 1; }
#elif OP == OP_ERASE_AT
  FN((char*)&v, (uint32_t)idx); expect_throw = !inrange; expect_ti = (char*)&g__ZTISt11range_error;
  if (!expect_throw) { for (unsigned i = (unsigned)idx; i + 1 < K; i++) model[i] = model[i + 1]; expect_n = K - 1; }
#elif OP == OP_PUSH_BACK
  FN((char*)&v, (char*)&nv); model[K] = nv; expect_n = K + 1;
#elif OP == OP_CLEAR
  FN((char*)0, (char*)&v); expect_n = 0;
#elif OP == OP_SIZE
  ru = FN((char*)0, (char*)&v); __CPROVER_assert(ru == K, "C12: size() is the number of elements");
#elif OP == OP_EMPTY
  ru = FN((char*)0, (char*)&v) & 1; __CPROVER_assert(ru == (K == 0), "C12: empty() is true exactly for an empty container");
#else
#error "unknown OP"
#endif
  struct BV* nb = (struct BV*)v.b; uint64_t n = (uint64_t)((struct BV*)v.e - (struct BV*)v.b);
  __CPROVER_assert(v.b <= v.e && v.e <= v.c, "C12: the container stays well formed (begin <= end <= capacity end)");
  if (expect_throw) {
    __CPROVER_assert(__exc_pending, "C12: a violated index/position/emptiness precondition raises an exception");
    __CPROVER_assert(!__exc_pending || __VERIF_exc_type() == expect_ti, "C12: the exception is the documented one (range_error / out_of_range)");
    __CPROVER_assert(n == K, "C12: a rejected operation leaves the container's size unchanged");
    int same = 1; for (unsigned i = 0; i < K; i++) if (nb[i].p != model[i].p) same = 0;
    __CPROVER_assert(same, "C12: a rejected operation leaves the container's elements unchanged");
    __CPROVER_assert(0, "witness: precondition violated");
  } else {
    __CPROVER_assert(!__exc_pending, "C12: an operation whose precondition holds does not throw");
    __CPROVER_assert(n == expect_n, "C12: the container has the size the std:: operation yields");
    int same = 1; for (unsigned i = 0; i < K + 1; i++) if (i < expect_n && nb[i].p != model[i].p) same = 0;
    __CPROVER_assert(same, "C12: the container has the elements the std:: operation yields, in order");
    if (check_r) __CPROVER_assert(r == expect_r, "C12: the element reference returned is the element the std:: operation denotes");
    __CPROVER_assert(0, "witness: operation performed");
  }
  return 0;
}
