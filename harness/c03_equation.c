/* C03 S3d: assignment expressions - ONE LEVEL of the real ChaiScript_Parser::Equation(): its recursive call goes through the self-call hook and is the
   induction hypothesis ("parses one assignment expression and pushes its node" - running it for real multiplies the twelve-way operator loop by
   itself per nesting level and does not finish), with Operator() (one operand of the operator levels: induction hypothesis), Symbol(spelling,
   true) and build_match<Equation_AST_Node>(prev_top, spelling) as contract stubs over a token-stream model indexed by position: at position k
   an operand can be parsed or not; after operand k follows one of the twelve assignment operators, or none.
   Asserted against the C grammar  assignment := operand [ assign-op assignment ]: the LEFT side is an operator expression, the RIGHT side is parsed by
   the assignment rule itself - which is right associativity: a = b += c is a = (b += c); every C
   assignment operator (= += -= *= /= %= <<= >>= &= ^= |=) and ChaiScript's := is recognised, each node carries the spelling that was matched and
   exactly [left side, right side]; an assignment operator without right side is eval_error; a plain operand is accepted unchanged. */
#include "parser_model.h"
#define NV 4
static struct { char* vptr; char pad[SZ_Node]; } vnodes[NV], built[3];
static char* slots[8]; static int n_slots;
static void sync(char* self) { PM(self)->match_stack.b = (char*)&slots[0]; PM(self)->match_stack.e = (char*)&slots[n_slots]; PM(self)->match_stack.c = (char*)&slots[8]; }
static int n_values, value_ok[NV], assign_after[NV], rec_depth;
static int depth; void DC_CTOR(char* self, char* parser) { *(char**)self = parser; depth++; } void DC_DTOR(char* self) { depth--; }
uint8_t OPERAND(char* self, uint64_t level) { __CPROVER_assert(level == 0, "C03: each side of an assignment is a full operator expression (weakest level)");
  int i = n_values < NV ? n_values : NV - 1; if (n_values >= NV || !value_ok[i]) return 0; n_values++; if (n_slots < 8) slots[n_slots] = (char*)&vnodes[i]; n_slots++; sync(self); return 1; }
struct sstr { uint64_t n; const char* p; };
static const char* const spell[13] = { "", "=", ":=", "+=", "-=", "*=", "/=", "%=", "<<=", ">>=", "&=", "^=", "|=" };
static int spelling_of(const char* p, uint64_t n) { for (int i = 1; i <= 12; i++) { uint64_t l = 0; while (spell[i][l]) l++; if (l != n) continue; int same = 1; for (uint64_t c = 0; c < 3; c++) if (c < n && p[c] != spell[i][c]) same = 0; if (same) return i; } return 0; }
uint8_t SYMBOL(char* self, char* sym, uint8_t disallow) { struct sstr* s = (struct sstr*)sym; int k = n_values - 1; int w = spelling_of(s->p, s->n);
  __CPROVER_assert(w != 0, "C03: only assignment operators are looked for after the left side"); return (uint8_t)(k >= 0 && k < NV && assign_after[k] == w); }
uint8_t SKIPWS(char* self, uint8_t skip_cr) { return 0; }
void EE_CTOR3(char* self, char* why, char* where, char* fname) { eval_error_ctor_calls++; }
static int n_built, b_n[3], b_text[3]; static uint64_t b_top[3]; static char* b_child[3][2];
void BUILD_EQUATION(char* self, uint64_t top, char* text) {
  int j = n_built < 3 ? n_built : 2; n_built++; b_top[j] = top; b_n[j] = n_slots - (int)top; for (int c = 0; c < 2; c++) b_child[j][c] = (top + c < (uint64_t)n_slots && top + c < 8) ? slots[top + c] : 0;
  const char* lit = *(char**)(text + 16 + 8); uint64_t l = 0; while (l < 4 && lit[l]) l++; b_text[j] = spelling_of(lit, l);         /* the spelling the node was given (string model: literal of an opaque string) */
  if (top < 8) slots[top] = (char*)&built[j]; n_slots = (int)top + 1; sync(self); }
uint8_t EQUATION(char* self);
static int rhs_calls; static struct { char* vptr; char pad[SZ_Node]; } rhs_node;
uint8_t equation_rec(char* self) {                                   /* induction hypothesis: one assignment expression */
  rhs_calls++; int i = n_values < NV ? n_values : NV - 1; if (n_values >= NV || !value_ok[i]) return 0; n_values++; if (n_slots < 8) slots[n_slots] = (char*)&rhs_node; n_slots++; sync(self); return 1; }
static int r_pos, r_built, r_err, r_text[3]; static char* r_child[3][2];
static char* ref_assign(int d) {
  if (!value_ok[0]) return 0;
  char* a = (char*)&vnodes[0]; r_pos = 1;
  int op = assign_after[0]; if (op == 0) return a;
  if (!value_ok[1]) { r_err = 1; return a; }
  r_pos = 2; r_built = 1; r_child[0][0] = a; r_child[0][1] = (char*)&rhs_node; r_text[0] = op; return (char*)&built[0]; }
char* __VERIF_exc_type(void);
int main(void) {
  static struct parser_model PMODEL; char* parser = (char*)&PMODEL; static char buf[4]; parser_init(parser, buf, 4, 0, 1, 1, 1);
  static char* pre = (char*)0; n_slots = 1; slots[0] = (char*)&pre; sync(parser);
  int nops = 0; for (int i = 0; i < NV; i++) { value_ok[i] = nondet_u8() & 1; int a = nondet_u8() % 13; assign_after[i] = a; nops += (a != 0); }
  uint8_t r = EQUATION(parser);
  __CPROVER_assert(depth == 0, "C01: the parse depth counter is balanced");
  char* want = ref_assign(0);
  if (!want) { __CPROVER_assert(!__exc_pending && !(r & 1) && n_built == 0 && n_slots == 1, "C03: no operand, no expression; the match stack is untouched"); __CPROVER_assert(0, "witness: no operand"); return 0; }
  if (r_err) { __CPROVER_assert(__exc_pending && __VERIF_exc_type() == (char*)&g__ZTIN10chaiscript9exception10eval_errorE, "C03: an assignment operator without right side is a syntax error (eval_error) - and only that is"); __CPROVER_assert(0, "witness: incomplete assignment"); return 0; }
  __CPROVER_assert(!__exc_pending && (r & 1), "C03: every assignment expression of the grammar is accepted");
  __CPROVER_assert(n_built == r_built && n_slots == 2 && slots[1] == want && n_values == r_pos, "C03: the expression becomes ONE node on the match stack - the one the grammar gives - and exactly its tokens are consumed");
  for (int j = 0; j < 1; j++) if (j < r_built) {
    __CPROVER_assert(b_n[j] == 2 && b_child[j][0] == r_child[j][0] && b_child[j][1] == r_child[j][1], "C03: assignment associates to the right: a = b = c is a = (b = c); each node has exactly left side and right side");
    __CPROVER_assert(b_text[j] == r_text[j], "C03: every assignment operator is recognised and the node carries the spelling that was matched");
  }
  __CPROVER_assert(rhs_calls == (assign_after[0] != 0), "C03: the right side - and only the right side - is parsed by the assignment rule itself");
  if (r_built == 1) __CPROVER_assert(0, "witness: one assignment"); else __CPROVER_assert(0, "witness: plain operand");
  return 0;
}
