#ifndef NODE_MODEL_H
#define NODE_MODEL_H
/* Harness-side AST nodes and the "abstract child" oracle shared by the evaluator-node harnesses (C02, C03, C09, C10, C20).
   A node is a typed image of AST_Node_Impl<Tracer> (checked against layout.h).  Every child eval() is a stub whose behaviour
   (return a value, or throw one of several exception kinds) is chosen by the solver per child; all effects go to a log. */
#include "bv_model.h"
struct node { char* vptr; int32_t identifier; int32_t pad_; struct sso_string text; char location[SZ_Parse_Location]; struct vec3 children; };
_Static_assert(sizeof(struct node) == SZ_Node && offsetof(struct node, identifier) == OFF_Node_identifier && offsetof(struct node, text) == OFF_Node_text &&
               offsetof(struct node, location) == OFF_Node_location && offsetof(struct node, children) == OFF_Node_children, "AST_Node_Impl layout changed: update node_model.h");
#ifndef NNODES
#define NNODES 8
#endif
static struct node nodes[NNODES];
static char* child_ptrs[NNODES][4];
static void node_set_children(int n, int c0, int c1, int c2, int c3) {
  int k = 0; if (c0 >= 0) child_ptrs[n][k++] = (char*)&nodes[c0]; if (c1 >= 0) child_ptrs[n][k++] = (char*)&nodes[c1]; if (c2 >= 0) child_ptrs[n][k++] = (char*)&nodes[c2]; if (c3 >= 0) child_ptrs[n][k++] = (char*)&nodes[c3];
  nodes[n].children.b = (char*)&child_ptrs[n][0]; nodes[n].children.e = (char*)&child_ptrs[n][k]; nodes[n].children.c = nodes[n].children.e;
  nodes[n].text.p = nodes[n].text.buf;
}
/* ---- effect log */
#define LOGN 24
static int logv[LOGN]; static int logn;
static void LOG(int x) { if (logn < LOGN) logv[logn] = x; logn++; }
static int log_count(int x) { int c = 0; for (int i = 0; i < LOGN; i++) if (i < logn && logv[i] == x) c++; return c; }
/* ---- scope / frame counters (Dispatch_Engine::new_scope etc. are verified as real code elsewhere: C09 S0) */
static int scope_depth, stack_depth, call_depth;
/* ---- child behaviours */
enum { B_RET = 0, B_EVAL_ERROR, B_RUNTIME, B_OOR, B_STDEXC, B_BV, B_FOREIGN, B_NKINDS };
static int behav[NNODES];
static char* thrown_obj; static int thrown_kind;
static char valpool[NNODES][8];
extern struct verif_ti g__ZTISt13runtime_error, g__ZTISt12out_of_range, g__ZTISt9exception;
static struct verif_ti ti_foreign = {0, "7foreign"};
char* __VERIF_throw_new(char* tinfo, uint64_t size);
#ifdef NO_EE_TI
static struct verif_ti ti_ee_local = {0, "*ee"};
#define TI_EVAL_ERROR ((char*)&ti_ee_local)
#else
#define TI_EVAL_ERROR ((char*)&g__ZTIN10chaiscript9exception10eval_errorE)
#endif
#ifdef NO_BV_TI       /* the unit under test never names Boxed_Value's typeinfo: a stand-in object serves as 'some other type' */
static struct verif_ti ti_bv_local = {0, "*bv"};
#define TI_BOXED_VALUE ((char*)&ti_bv_local)
#else
#define TI_BOXED_VALUE ((char*)&g__ZTIN10chaiscript11Boxed_ValueE)
#endif
static void child_throw(int kind, char* ti_eval_error, char* ti_boxed_value) {
  char* ti = kind == B_EVAL_ERROR ? ti_eval_error : kind == B_RUNTIME ? (char*)&g__ZTISt13runtime_error : kind == B_OOR ? (char*)&g__ZTISt12out_of_range :
             kind == B_STDEXC ? (char*)&g__ZTISt9exception : kind == B_BV ? ti_boxed_value : (char*)&ti_foreign;
  char* o = __VERIF_throw_new(ti, 160);
  if (kind == B_BV) { ((struct BV*)o)->p = valpool[NNODES - 1]; ((struct BV*)o)->pn = 0; }
  thrown_obj = o; thrown_kind = kind;
}
#endif
