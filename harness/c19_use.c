/* C19 F2 (+ C13 for this entry): the real ChaiScript_Basic::use(name) over P search paths, with eval_file an abstract step per path (evaluates and
   returns a value / the file does not exist under this path / a NESTED use inside the file failed for another name / throws something else),
   the set of used files a small model behind the std::set internals, and the two mutexes a lock-state model.
   Asserted: the search paths are tried in order; a file already used under a path is not evaluated again (no-op, nothing else is tried); the first
   path under which the file exists is evaluated exactly once and then recorded as used - only after it succeeded; "not found under this path"
   moves on to the next path; a nested failure and any other exception leave as the very same object (and the file is not recorded); when no
   path has it, file_not_found_error for the requested name is raised.  Locks: the use-mutex is held around the whole attempt, the engine mutex
   is released while the file is evaluated and re-taken to record it; every exit leaves both released. */
#include "layout.h"
#include "bv_model.h"
#ifndef P
#define P 2
#endif
enum { E_OK = 0, E_MISSING, E_NESTED, E_OTHER };
static char chai[SZ_ChaiScript_Basic] __attribute__((aligned(16)));
static struct sso_string paths[P ? P : 1]; static struct sso_string fname;
static int used[P ? P : 1], beh[P ? P : 1], n_eval[P ? P : 1], eval_seq[P ? P : 1], seq, n_insert[P ? P : 1], insert_after_eval_ok = 1;
static int use_held, eng_mode, lock_err;
uint32_t F_pthread_mutex_lock(char* m) { if (m != chai + OFF_CB_use_mutex) lock_err = 1; use_held++; return 0; }
uint32_t F_pthread_mutex_unlock(char* m) { if (m != chai + OFF_CB_use_mutex || use_held <= 0) lock_err = 1; use_held--; return 0; }
uint32_t F_pthread_rwlock_wrlock(char* m) { if (m != chai + OFF_CB_mutex || eng_mode != 0) lock_err = 1; eng_mode = 2; return 0; }
uint32_t F_pthread_rwlock_rdlock(char* m) { if (m != chai + OFF_CB_mutex || eng_mode != 0) lock_err = 1; eng_mode = 1; return 0; }
uint32_t F_pthread_rwlock_unlock(char* m) { if (m != chai + OFF_CB_mutex || eng_mode == 0) lock_err = 1; eng_mode = 0; return 0; }
static int path_of(char* str) { struct sso_string* s = (struct sso_string*)str; __CPROVER_assert(s->n == 2 && s->p[1] == 'f', "C19: the name tried is <search path> + <requested name>"); return s->p[0] == 'a' ? 0 : 1; }
static struct { char hdr[32]; struct sso_string key; } a_node;
char* SET_FIND(char* tree, char* key) { if (eng_mode == 0) lock_err = 1; int i = path_of(key); return used[i] ? (char*)&a_node : tree + 8; }      /* end() = the header node */
SET_POS_RET SET_INSERT_POS(char* tree, char* key) { SET_POS_RET r; memset(&r, 0, sizeof r); ((char**)&r)[0] = 0; ((char**)&r)[1] = tree + 8; return r; }
char* SET_INSERT(char* tree, char* x, char* p, char* key, char* an) { if (eng_mode != 2) lock_err = 1; int i = path_of(key); n_insert[i]++; if (!(n_eval[i] == 1 && beh[i] == E_OK)) insert_after_eval_ok = 0; used[i] = 1; return (char*)&a_node; }
static struct bv_data values[P ? P : 1];
static struct fnf_image { char base[OFF_FNF_filename]; struct sso_string filename; char tail[SZ_FNF - OFF_FNF_filename - sizeof(struct sso_string) + 8]; } fnf_exc; static char other_exc[64]; static char* thrown;
extern struct verif_ti g__ZTISt13runtime_error;
void EVAL_FILE(char* sret, char* self, char* file, char* handler) {
  int i = path_of(file); n_eval[i]++; eval_seq[i] = seq++;
  if (eng_mode != 0 || use_held != 1) lock_err = 1;           /* the engine mutex is not held while a file is evaluated (it takes it itself); the use-mutex is */
  switch (beh[i]) {
    case E_OK: ((struct BV*)sret)->p = (char*)&values[i]; ((struct BV*)sret)->pn = 0; return;
    case E_MISSING: fnf_exc.filename.p = fnf_exc.filename.buf; fnf_exc.filename.n = 2; fnf_exc.filename.buf[0] = i == 0 ? 'a' : 'b'; fnf_exc.filename.buf[1] = 'f'; fnf_exc.filename.buf[2] = 0; thrown = (char*)&fnf_exc; __VERIF_throw_static(thrown, TI_FNF); return;
    case E_NESTED: fnf_exc.filename.p = fnf_exc.filename.buf; fnf_exc.filename.n = 2; fnf_exc.filename.buf[0] = 'z'; fnf_exc.filename.buf[1] = 'z'; fnf_exc.filename.buf[2] = 0; thrown = (char*)&fnf_exc; __VERIF_throw_static(thrown, TI_FNF); return;
    default: thrown = other_exc; __VERIF_throw_static(thrown, (char*)&g__ZTISt13runtime_error); return;
  }
}
/* control blocks / virtual destructors of temporaries (the default exception handler shared_ptr): not part of what is decided here */
void __VERIF_v1_hook(char* f, char* a) { }
static int n_fnf_ctor; static char* fnf_name;
void FNF_CTOR(char* self, char* name) { n_fnf_ctor++; fnf_name = name; }
void FNF_DTOR(char* self) { }
char* __VERIF_exc_type(void);
void USE(char* sret, char* self, char* name);
int main(void) {
  for (int i = 0; i < P; i++) { paths[i].p = paths[i].buf; paths[i].n = 1; paths[i].buf[0] = i == 0 ? 'a' : 'b'; paths[i].buf[1] = 0; used[i] = nondet_u8() & 1; unsigned b = nondet_u8() & 3; beh[i] = (int)b; }
  fname.p = fname.buf; fname.n = 1; fname.buf[0] = 'f'; fname.buf[1] = 0;
  struct vec3* up = (struct vec3*)(chai + OFF_CB_use_paths); up->b = (char*)&paths[0]; up->e = (char*)&paths[P]; up->c = up->e;
  int used0[P ? P : 1]; for (int i = 0; i < P; i++) used0[i] = used[i];
  struct BV out = { 0, 0 };
  USE((char*)&out, chai, (char*)&fname);
  __CPROVER_assert(!lock_err && use_held == 0 && eng_mode == 0, "C13/C19: use() holds the use-mutex around each attempt, the engine mutex only around its bookkeeping (released while the file runs), and releases both on every exit");
  /* reference */
  int k = 0, outcome = -1;      /* outcome: 0 value from path k, 1 no-op at path k, 2 exception from path k, 3 not found anywhere */
  for (; k < P; k++) { if (used0[k]) { outcome = 1; break; } if (beh[k] == E_OK) { outcome = 0; break; } if (beh[k] == E_MISSING) continue; outcome = 2; break; }
  if (outcome < 0) outcome = 3;
  for (int i = 0; i < P; i++) {
    int expect_eval = (i < k || (i == k && outcome != 1 && outcome != 3)) && !used0[i] ? 1 : 0; if (i > k) expect_eval = 0;
    __CPROVER_assert(n_eval[i] == expect_eval, "C19: the search paths are tried in order; a file already used is not evaluated again; nothing is tried after the first hit");
    __CPROVER_assert(n_insert[i] == ((i == k && outcome == 0) ? 1 : 0) && insert_after_eval_ok, "C19: a file is recorded as used exactly when - and only after - its evaluation succeeded");
  }
  for (int i = 1; i < P; i++) if (n_eval[i] && n_eval[i - 1]) __CPROVER_assert(eval_seq[i] > eval_seq[i - 1], "C19: in order");
  switch (outcome) {
    case 0: __CPROVER_assert(!__exc_pending && out.p == (char*)&values[k], "C19: use() yields the value of the file it evaluated"); __CPROVER_assert(0, "witness: evaluated"); break;
    case 1: __CPROVER_assert(!__exc_pending, "C19: using a file again is a no-op"); __CPROVER_assert(0, "witness: already used"); break;
    case 2: __CPROVER_assert(__exc_pending && __exc_obj == thrown, "C19: a failed nested include (and any other error of the file) propagates as its own error"); __CPROVER_assert(0, "witness: file fails"); break;
    default: __CPROVER_assert(__exc_pending && __VERIF_exc_type() == TI_FNF && n_fnf_ctor == 1 && fnf_name == (char*)&fname, "C19: a file found under no search path raises file_not_found_error for the requested name"); __CPROVER_assert(0, "witness: not found"); break;
  }
  return 0;
}
