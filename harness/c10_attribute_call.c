/* C10 X7 / C09 / C06: calls of functions held in attributes and of members reached through method_missing - the real `do_attribute_call`
   closure of Dispatch_Engine::call_member together with its This_Foist guard.  dispatch() of the attribute getter (or method_missing), the
   cast of its result to a function and the call of that function are abstract steps that return or throw.
   Asserted:
     - the getter is dispatched once, with exactly the first NUMP values; an exception of the getter leaves unchanged, nothing else happens;
     - a plain attribute value (not a function, no further arguments) is the result, no scope is touched;
     - otherwise ONE scope is pushed, `__this` is bound in it to the object (the first value), and the scope is popped exactly once on every
       exit - normal, or any exception of the held function (C09: This_Foist);
     - the held function is called once with exactly the remaining values;
     - its value is the result; if it cannot be entered (bad_boxed_cast / arity_error / guard_error) or the attribute is not callable, a
       dispatch_error is raised; EVERY other exception - eval_error, std::runtime_error and its subclasses, a script value, Return_Value, a
       foreign type - leaves as the very same object (C10). */
#include "layout.h"
#include "bv_model.h"
#include "verif_rt.h"
#ifndef NUMP
#define NUMP 1
#endif
#ifndef NPAR
#define NPAR 2
#endif
enum { C_RET = 0, C_BADCAST, C_ARITY, C_GUARD, C_RETURN, C_EVAL_ERROR, C_RUNTIME, C_OOR, C_BV, C_FOREIGN, C_NKINDS };
static struct verif_ti ti_foreign = {0, "*foreign"}, ti_other = {0, "*other"};
extern struct verif_ti g__ZTISt13runtime_error, g__ZTISt12out_of_range;
static struct BV params[3]; static char pobj[3][8];
static struct bv_data getter_result; static struct BV getter_bv = { (char*)&getter_result, 0 };
static int n_dispatch, dispatch_throws, dispatch_ok; static char* thrown_obj;
static struct exc_image { char* vptr; char* f1; char rest[144]; } the_exc;
static void throw_kind(char* ti) { thrown_obj = (char*)&the_exc; __VERIF_throw_static(thrown_obj, ti); }
static char funcs_vec[24], conv_state[32] __attribute__((aligned(8)));
static int n_new, n_pop, n_add, add_ok, scope_at_call = -1;
void DISPATCH(char* sret, char* funcs, char* plist, char* conv) { n_dispatch++;
  struct BV* b = *(struct BV**)plist; struct BV* e = *(struct BV**)(plist + 8); dispatch_ok = funcs == funcs_vec && b == &params[0] && e == &params[NUMP] && n_new == 0;
  if (dispatch_throws) { throw_kind((char*)&ti_foreign); return; }
  *(struct BV*)sret = getter_bv; }
void NEW_SCOPE(char* eng) { n_new++; } void POP_SCOPE(char* eng) { n_pop++; }
void ADD_OBJECT(char* eng, char* name, char* bv) { n_add++; char* p = *(char**)name; uint64_t n = *(uint64_t*)(name + 8);
  add_ok = n == 6 && p[0] == '_' && p[1] == '_' && p[2] == 't' && p[3] == 'h' && p[4] == 'i' && p[5] == 's' && ((struct BV*)bv)->p == pobj[0] && n_new == 1 && n_pop == 0; }
static int cast_fails, n_cast; static struct { char* vptr; } the_function;
char* CAST_PFB(char* bv, char* conv) { n_cast++; if (cast_fails) { throw_kind(TI_BAD_BOXED_CAST); return 0; } return (char*)&the_function; }
void CAST_SHARED_PFB(char* sret, char* engine, char* bv) { ((struct BV*)sret)->p = (char*)&the_function; ((struct BV*)sret)->pn = 0; }
void CAST_SHARED_PFB2(char* sret, char* bv, char* conv) { ((struct BV*)sret)->p = (char*)&the_function; ((struct BV*)sret)->pn = 0; }
static int n_call, call_beh, call_ok; static struct bv_data call_result;
void FUNC_CALL(char* sret, char* self, char* plist, char* conv) { n_call++; scope_at_call = n_new - n_pop;
  struct BV* b = *(struct BV**)plist; struct BV* e = *(struct BV**)(plist + 8); call_ok = self == (char*)&the_function && b == &params[NUMP] && e == &params[NPAR];
  switch (call_beh) {
    case C_RET: ((struct BV*)sret)->p = (char*)&call_result; ((struct BV*)sret)->pn = 0; return;
    case C_BADCAST: throw_kind(TI_BAD_BOXED_CAST); return;
    case C_ARITY: throw_kind(TI_ARITY_ERROR); return;
    case C_GUARD: throw_kind(TI_GUARD_ERROR); return;
    case C_RETURN: throw_kind(TI_RETURN_VALUE); return;
    case C_EVAL_ERROR: throw_kind(TI_EVAL_ERROR); return;
    case C_RUNTIME: throw_kind((char*)&g__ZTISt13runtime_error); return;
    case C_OOR: throw_kind((char*)&g__ZTISt12out_of_range); return;
    case C_BV: throw_kind(TI_BOXED_VALUE); return;
    default: throw_kind((char*)&ti_foreign); return;
  }
}
void __VERIF_v1_hook(char* f, char* a) { }
static char conv_saves[64] __attribute__((aligned(8)));
char* CONV_SAVES(char* map, char* key) { return conv_saves; }
uint32_t F___cxa_thread_atexit(char* f, char* o, char* d) { return 0; }
char* __VERIF_exc_type(void);
void ATTR_CALL(char* sret, char* closure, uint32_t num, char* p_begin, char* p_end, char* funcs, char* conv);
int main(void) {
  for (int i = 0; i < 3; i++) { params[i].p = pobj[i]; params[i].pn = 0; }
  int is_function = nondet_u8() & 1; D_BARE_TI(&getter_result) = is_function ? TI_FUNCTION_OBJ : (char*)&ti_other; D_TI(&getter_result) = D_BARE_TI(&getter_result); D_FLAGS(&getter_result) = 0;
  dispatch_throws = nondet_u8() & 1; cast_fails = nondet_u8() & 1; { unsigned b = nondet_u32(); __CPROVER_assume(b < C_NKINDS); call_beh = (int)b; }
  static char engine[SZ_Dispatch_Engine] __attribute__((aligned(16))); char* closure[1] = { engine }; struct BV out = { 0, 0 };
  ATTR_CALL((char*)&out, (char*)closure, NUMP, (char*)&params[0], (char*)&params[NPAR], funcs_vec, conv_state);
  __CPROVER_assert(n_dispatch == 1 && dispatch_ok, "C06: the attribute getter / method_missing is dispatched once, with exactly the object (and the method name), before any scope is pushed");
  __CPROVER_assert(n_new == n_pop && n_new <= 1, "C09: the scope holding __this is popped exactly once on every exit");
  if (dispatch_throws) { __CPROVER_assert(__exc_pending && __exc_obj == thrown_obj && n_new == 0 && n_call == 0, "C10: an exception of the getter leaves unchanged"); __CPROVER_assert(0, "witness: getter throws"); return 0; }
  if (NUMP == NPAR && !is_function) { __CPROVER_assert(!__exc_pending && out.p == (char*)&getter_result && n_new == 0 && n_call == 0, "C03: a plain attribute access yields the attribute's value"); __CPROVER_assert(0, "witness: plain attribute"); return 0; }
  __CPROVER_assert(n_new == 1 && n_add == 1 && add_ok, "C03: the held function runs in one new scope in which __this is the object");
  if (cast_fails) { __CPROVER_assert(n_call == 0 && __exc_pending && __VERIF_exc_type() == TI_DISPATCH_ERROR, "C06: an attribute that is not callable cannot be called with arguments: dispatch_error"); __CPROVER_assert(0, "witness: not callable"); return 0; }
  __CPROVER_assert(n_call == 1 && call_ok && scope_at_call == 1, "C06: the held function is entered once, inside that scope, with exactly the remaining values");
  switch (call_beh) {
    case C_RET: __CPROVER_assert(!__exc_pending && out.p == (char*)&call_result, "C03: the value of the call is what the held function returns"); __CPROVER_assert(0, "witness: call returns"); break;
    case C_BADCAST: case C_ARITY: case C_GUARD: __CPROVER_assert(__exc_pending && __VERIF_exc_type() == TI_DISPATCH_ERROR, "C06: a held function that cannot be entered with these values is a dispatch_error"); __CPROVER_assert(0, "witness: cannot be entered"); break;
    default: __CPROVER_assert(__exc_pending && __exc_obj == thrown_obj, "C10: an exception thrown by an attribute-held function (eval_error, runtime_error and subclasses, script values, return, foreign types) leaves as the very same object"); __CPROVER_assert(0, "witness: callee exception passes"); break;
  }
  return 0;
}
