/* C06 D4/D5: overload selection - the real dispatch::dispatch<std::vector<Proxy_Function>> and the real
   Proxy_Function_Base::compare_type_to_param, over NF registered overloads of symbolic arity (-1 variadic, 1, 2), symbolic declared
   parameter types (each plain or in a pointer/shared_ptr/reference_wrapper form: other full type, same bare type) and NA arguments of symbolic types from a universe {int, double, Boxed_Value, Boxed_Number, function object, class A,
   class B, undefined}.  Entering an overload (Proxy_Function_Base::operator(): arity check + typed casts + the C++ function) is an
   abstract step per overload: it returns a value, or refuses with bad_boxed_cast / arity_error / guard_error (nothing was entered), or
   throws something else.  Type_Conversions::converts is an oracle bit per (declared type, argument type) pair;
   dispatch_with_conversions (the arithmetic-conversion fallback) is a recorder.
   Asserted: an overload of another arity is never tried; overloads are tried in order of how many parameters differ from the argument
   types - so an overload whose declared types equal the argument types exactly is tried before any other; an overload that differs is
   only tried if every (first two) argument may reach its parameter: same type, a catch-all parameter, a function object, or a registered
   conversion; the first overload that accepts ends the call - exactly one overload runs to completion, once; its value is the result; a
   foreign exception leaves unchanged; when every candidate refuses, the fallback is entered once with the same arguments. */
#include "layout.h"
#include "bv_model.h"
#ifndef NF
#define NF 2
#endif
#ifndef NA
#define NA 1
#endif
#define NT 8
#ifndef AR1
#define AR1 1
#endif
#ifndef AR2
#define AR2 1
#endif
enum { T_INT = 0, T_DOUBLE, T_BV, T_BN, T_FUN, T_A, T_B, T_UNDEF };
/* all typeinfo objects compare by address (names start with *), like the ones the translator emits: no strcmp */
static struct verif_ti ti_int = {0, "*i"}, ti_double = {0, "*d"}, ti_A = {0, "*A"}, ti_B = {0, "*B"}, ti_unknown = {0, "*unknown"};
struct TI { char* ti; char* bare; uint32_t flags; uint32_t pad_; };
_Static_assert(sizeof(struct TI) == SZ_Type_Info && offsetof(struct TI, bare) == OFF_TI_bare_type_info && offsetof(struct TI, flags) == OFF_TI_flags, "Type_Info layout");
static char* tobj(int t) { return t == T_INT ? (char*)&ti_int : t == T_DOUBLE ? (char*)&ti_double : t == T_BV ? TI_BOXED_VALUE_OBJ : t == T_BN ? TI_BOXED_NUMBER_OBJ : t == T_FUN ? TI_FUNCTION_OBJ : t == T_A ? (char*)&ti_A : t == T_B ? (char*)&ti_B : (char*)&ti_unknown; }
/* a parameter declared as T*, const T*, shared_ptr<T>, reference_wrapper<T>: its full type is not T (own typeinfo object, pointer flag), its BARE type is T -
   for overload selection it matches an argument of type T exactly */
static struct verif_ti ti_wrap[NT] = { {0, "*w0"}, {0, "*w1"}, {0, "*w2"}, {0, "*w3"}, {0, "*w4"}, {0, "*w5"}, {0, "*w6"}, {0, "*w7"} };
static void set_ti(struct TI* x, int t, int is_const) { x->ti = tobj(t); x->bare = tobj(t); x->flags = (t == T_UNDEF ? TIF_undef : 0) | ((t == T_INT || t == T_DOUBLE) ? TIF_arithmetic : 0) | (is_const ? TIF_const : 0); x->pad_ = 0; }
struct PFB { char* vptr; struct vec3 types; int32_t arity; uint8_t has_arith; uint8_t pad_[3]; };
_Static_assert(sizeof(struct PFB) == SZ_PFB && offsetof(struct PFB, types) == OFF_PFB_types && offsetof(struct PFB, arity) == OFF_PFB_arity, "Proxy_Function_Base layout");
static struct PFB funcs[NF]; static struct TI ftypes[NF][3]; static int farity[NF], fptype[NF][2], fwrapped[NF][2]; static int fbeh[NF];
enum { F_RET = 0, F_BADCAST, F_ARITY, F_GUARD, F_FOREIGN };
static struct bv_data args_data[2]; static struct BV args[2]; static int atype[2];
static uint8_t conv_bit[NT][NT];
static int n_calls, call_order[8], calls_of[NF]; static struct bv_data fresult[NF]; static char* thrown;
static struct verif_ti ti_foreign = {0, "*foreign"};
char* __VERIF_throw_new(char* tinfo, uint64_t size);
void FUNC_CALL(char* sret, char* self, char* params, char* conv) {
  int k = (int)((struct PFB*)self - funcs); if (n_calls < 8) call_order[n_calls] = k; n_calls++; calls_of[k]++;
  __CPROVER_assert(*(char**)params == (char*)&args[0] && *(char**)(params + 8) == (char*)&args[NA], "C06: an overload is tried with exactly the caller's arguments");
  int b = fbeh[k];
  if (b == F_RET) { ((struct BV*)sret)->p = (char*)&fresult[k]; ((struct BV*)sret)->pn = 0; return; }
  thrown = __VERIF_throw_new(b == F_BADCAST ? TI_BAD_BOXED_CAST : b == F_ARITY ? TI_ARITY_ERROR : b == F_GUARD ? TI_GUARD_ERROR : (char*)&ti_foreign, 64);
}
static int type_index(char* bare, uint32_t flags) { if (flags & TIF_undef) return T_UNDEF; for (int t = 0; t < NT - 1; t++) if (bare == tobj(t)) return t; return T_UNDEF; }
uint8_t CONVERTS(char* self, char* to, char* from) { struct TI* a = (struct TI*)to; struct TI* b = (struct TI*)from; return conv_bit[type_index(a->bare, a->flags)][type_index(b->bare, b->flags)]; }
static int n_fallback; static struct bv_data fb_result; static int fb_throws;
void FALLBACK(char* sret, char* begin, char* end, char* plist, char* conv, char* funcs_) {
  n_fallback++; __CPROVER_assert(*(char**)plist == (char*)&args[0] && *(char**)(plist + 8) == (char*)&args[NA], "C06: the arithmetic-conversion fallback gets the caller's arguments");
  if (fb_throws) { thrown = __VERIF_throw_new((char*)&ti_foreign, 64); return; }
  ((struct BV*)sret)->p = (char*)&fb_result; ((struct BV*)sret)->pn = 0; }
void DISPATCH(char* sret, char* funcs_vec, char* plist, char* conv);
/* may an argument of type a reach a parameter declared as type p without an arithmetic conversion? (the property's list) */
static int reaches(int p, int a) { return p == T_UNDEF || p == T_BV || (a != T_UNDEF && ((p == T_BN && (a == T_INT || a == T_DOUBLE)) || p == a || a == T_FUN || conv_bit[p][a])); }
int main(void) {
  static struct BV fptrs[NF];       /* std::vector<std::shared_ptr<Proxy_Function_Base>> */
  for (int a = 0; a < NT; a++) for (int b = 0; b < NT; b++) conv_bit[a][b] = nondet_u8() & 1;
  for (int i = 0; i < NA; i++) { int t = nondet_i32(); __CPROVER_assume(t >= 0 && t < NT); atype[i] = t; set_ti((struct TI*)(args_data[i].bytes + OFF_Data_type_info), t, nondet_u8() & 1); args[i].p = (char*)&args_data[i]; args[i].pn = 0; }
  for (int k = 0; k < NF; k++) {
    int ar = (k == 0) ? AR0 : (k == 1) ? AR1 : AR2; farity[k] = ar;      /* arities are shape parameters (enumerated), everything else is symbolic */ int b = nondet_i32(); __CPROVER_assume(b >= 0 && b <= F_FOREIGN);
#ifdef NO_REFUSALS
    __CPROVER_assume(b == F_RET || b == F_FOREIGN);      /* bound of the two-candidate shapes: see props/C06.py */
#endif
    fbeh[k] = b;
    set_ti(&ftypes[k][0], T_UNDEF, 0);
    for (int j = 0; j < 2; j++) { int t = nondet_i32(); __CPROVER_assume(t >= 0 && t < NT); fptype[k][j] = t; set_ti(&ftypes[k][1 + j], t, 0);
      if ((nondet_u8() & 1) && t != T_UNDEF && t != T_BV && t != T_BN) { ftypes[k][1 + j].ti = (char*)&ti_wrap[t]; ftypes[k][1 + j].flags |= TIF_pointer; fwrapped[k][j] = 1; } }
    int ntypes = ar < 0 ? 1 : 1 + ar;
    funcs[k].types.b = (char*)&ftypes[k][0]; funcs[k].types.e = (char*)&ftypes[k][ntypes]; funcs[k].types.c = funcs[k].types.e; funcs[k].arity = ar;
    fptrs[k].p = (char*)&funcs[k]; fptrs[k].pn = 0;
  }
  struct vec3 fv = { (char*)&fptrs[0], (char*)&fptrs[NF], (char*)&fptrs[NF] }; char* plist[2] = { (char*)&args[0], (char*)&args[NA] };
  static char engine_conv[16] __attribute__((aligned(8))); char* conv_state[2] = { engine_conv, 0 };
  fb_throws = nondet_u8() & 1; struct BV out = { 0, 0 };
  DISPATCH((char*)&out, (char*)&fv, (char*)plist, (char*)conv_state);
  /* ---- reference order: candidates of matching arity by (number of differing parameter types, registration order) */
  int tried[NF]; int ntried = 0; int winner = -1; int foreign = -1;
  for (int diff = 0; diff <= NA && winner < 0 && foreign < 0; diff++) {
    for (int k = 0; k < NF && winner < 0 && foreign < 0; k++) {
      int cand = farity[k] == -1 || farity[k] == NA; if (!cand) continue;
      int nd = NA; if (farity[k] != -1) { nd = 0; for (int i = 0; i < NA; i++) if (fptype[k][i] != atype[i]) nd++; }
      if (nd != diff) continue;
      int pass = diff == 0 || farity[k] < 0;
      if (!pass) { pass = reaches(fptype[k][0], atype[0]); if (NA > 1) pass = pass && reaches(fptype[k][1], atype[1]); }
      if (!pass) continue;
      tried[ntried++] = k;
      if (fbeh[k] == F_RET) winner = k; else if (fbeh[k] == F_FOREIGN) foreign = k;
    }
  }
  for (int k = 0; k < NF; k++) if (!(farity[k] == -1 || farity[k] == NA)) __CPROVER_assert(calls_of[k] == 0, "C06: an overload taking another number of arguments is never entered");
  __CPROVER_assert(n_calls == ntried, "C06: exactly the admissible overloads up to the first that accepts are tried");
  for (int i = 0; i < NF; i++) if (i < ntried && i < n_calls) __CPROVER_assert(call_order[i] == tried[i], "C06: overloads are tried in order of closeness to the argument types: one whose declared types equal the argument types exactly comes first");
  for (int k = 0; k < NF; k++) __CPROVER_assert(calls_of[k] <= 1, "C06: no overload is entered twice for one call");
  if (winner >= 0) { __CPROVER_assert(!__exc_pending && out.p == (char*)&fresult[winner] && n_fallback == 0, "C06: the first overload that accepts the arguments produces the result; nothing else runs after it"); __CPROVER_assert(0, "witness: overload chosen"); }
  else if (foreign >= 0) { __CPROVER_assert(__exc_pending && __exc_obj == thrown && n_fallback == 0, "C10: an exception of the called function leaves the dispatcher unchanged"); __CPROVER_assert(0, "witness: callee throws"); }
  else { __CPROVER_assert(n_fallback == 1, "C06: when every candidate refuses, the arithmetic-conversion fallback is entered exactly once");
         if (fb_throws) __CPROVER_assert(__exc_pending, "C06: no compatible overload is an error"); else __CPROVER_assert(!__exc_pending && out.p == (char*)&fb_result, "C06: the fallback's value is the result");
         __CPROVER_assert(0, "witness: fallback"); }
  if (n_calls >= 1 && winner >= 0 && winner != 0 && fwrapped[winner][0] && fptype[winner][0] == atype[0] && (NA < 2 || fptype[winner][1] == atype[1])) __CPROVER_assert(0, "witness: exact match through a pointer/shared_ptr parameter preferred");
  if (n_calls >= 1 && winner >= 0 && winner != 0) __CPROVER_assert(0, "witness: exact match preferred");      /* a later-registered overload wins because it is closer to the argument types */
  return 0;
}
