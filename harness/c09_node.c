/* C09 / C03 S4 / C10: one evaluator node's real eval_internal with abstract children, scope/stack/call bookkeeping as counters.
   KIND selects the node class; every child either returns a value or throws (eval_error, std exceptions, Boxed_Value, a foreign
   type, or the loop-control signals Break_Loop / Continue_Loop where the node catches them).  get_bool_condition is an oracle.
   Asserted for every node kind: scope, stack and call depth are back to their entry values on EVERY exit (normal or throwing);
   plus the node's control-flow semantics (order and number of child evaluations, short circuit, branch selection, loop
   exit on break, continue, value of the node), and that a child's exception leaves as the very same object. */
#ifndef NNODES
#define NNODES 6
#endif
#define matched_before_guard_unknown 0
#include "node_model.h"
#define K_BLOCK 1
#define K_IF 2
#define K_WHILE 3
#define K_AND 4
#define K_OR 5
#define K_SCOPELESS_BLOCK 6
#define K_FOR 7
#define K_SWITCH 8
#define K_CASE 9
#define K_DEFAULT 10
enum { B_BREAK = B_NKINDS, B_CONTINUE, B_NKINDS2 };
static int cond_calls, cond_budget; static uint8_t cond_vals[8]; static int cond_throw_at;
static struct verif_ti ti_break_standin = {0, "*break"}, ti_continue_standin = {0, "*continue"};
#ifndef TI_BREAK
#define TI_BREAK ((char*)&ti_break_standin)
#endif
#ifndef TI_CONTINUE
#define TI_CONTINUE ((char*)&ti_continue_standin)
#endif
static int evals[NNODES]; static int eval_scope[NNODES];
static uint8_t eq_bit[3]; static int last_guard = -1; static int n_eq_calls; static char eq_cell[3];
void F__ZNK10chaiscript4eval13AST_Node_ImplINS0_6TracerIJNS0_18Noop_Tracer_DetailEEEEE4evalERKNS_6detail14Dispatch_StateE(char* sret, char* self, char* st) {
  int idx = (int)((struct node*)self - nodes);
  LOG(100 + idx); evals[idx]++; eval_scope[idx] = scope_depth;
#if KIND == K_SWITCH
  if (idx >= 5) last_guard = idx - 5;
#endif
  int b = behav[idx];
#if KIND == K_WHILE
  if (idx == 2 && evals[2] > 1) b = B_RET;                 /* the loop body misbehaves on its first run only (keeps the query small) */
#elif KIND == K_FOR
  if ((idx == 4 && evals[4] > 1) || (idx == 3 && evals[3] > 1) || (idx == 2 && evals[2] > 1)) b = B_RET;     /* body, step and condition misbehave on their first run only */
#endif
  if (b == B_RET) { ((struct BV*)sret)->p = valpool[idx]; ((struct BV*)sret)->pn = 0; return; }
  if (b == B_BREAK) { thrown_obj = __VERIF_throw_new(TI_BREAK, 8); thrown_kind = b; return; }
  if (b == B_CONTINUE) { thrown_obj = __VERIF_throw_new(TI_CONTINUE, 8); thrown_kind = b; return; }
  child_throw(b, TI_EVAL_ERROR, TI_BOXED_VALUE);
}
uint8_t GET_BOOL(char* bv, char* st) {
  int i = cond_calls++; LOG(500);
  if (i == cond_throw_at) { child_throw(B_EVAL_ERROR, TI_EVAL_ERROR, TI_BOXED_VALUE); return 0; }
  if (i >= cond_budget) return 0;                          /* loops are bounded: the condition turns false after cond_budget evaluations */
  return cond_vals[i & 7] & 1;
}
#if KIND == K_SWITCH
/* the == dispatched for a case label: a recorder whose result is an oracle bit per case */
void CALL_FUNCTION(char* sret, char* self, uint64_t nlen, char* nptr, char* loc, char* params, char* conv) {
  n_eq_calls++; __CPROVER_assert(nlen == 2 && nptr[0] == '=' && nptr[1] == '=', "C03: a case label is compared with ==");
  __CPROVER_assert(last_guard >= 0 && last_guard < 3, "C03: the label was evaluated before it is compared");
  ((struct BV*)sret)->p = &eq_cell[last_guard < 0 ? 0 : last_guard]; ((struct BV*)sret)->pn = 0; }
uint8_t BOXED_CAST_BOOL(char* bv, char* conv) { char* p = ((struct BV*)bv)->p; int i = p == &eq_cell[0] ? 0 : p == &eq_cell[1] ? 1 : 2; return eq_bit[i]; }
#endif
void NEW_SCOPE(char* h) { scope_depth++; }
void POP_SCOPE(char* h) { scope_depth--; }
static char void_data[8]; static char true_data[8], false_data[8];
#ifdef VOID_VAR
void VOID_VAR(char* sret) { ((struct BV*)sret)->p = void_data; ((struct BV*)sret)->pn = 0; }
#endif
void F__ZN10chaiscript9const_varEb(char* sret, uint8_t b) { ((struct BV*)sret)->p = (b & 1) ? true_data : false_data; ((struct BV*)sret)->pn = 0; }
void NODE_EVAL(char* sret, char* self, char* st);
int main(void) {
  for (int i = 0; i < NNODES; i++) { unsigned b = nondet_u32(); __CPROVER_assume(b < B_NKINDS2); behav[i] = (int)b; }
  for (int i = 0; i < 8; i++) cond_vals[i] = nondet_u8() & 1;
  cond_budget = 3; { int t = nondet_i32(); __CPROVER_assume(t >= -1 && t < 4); cond_throw_at = t; }
#if KIND == K_BLOCK || KIND == K_SCOPELESS_BLOCK
  node_set_children(0, 1, NCH >= 2 ? 2 : -1, NCH >= 3 ? 3 : -1, -1);
#elif KIND == K_IF
  node_set_children(0, 1, 2, 3, -1);
#elif KIND == K_FOR
  node_set_children(0, 1, 2, 3, 4);
#elif KIND == K_SWITCH
  node_set_children(0, 1, 2, NCASE >= 2 ? 3 : -1, NCASE >= 3 ? 4 : -1);
  for (int i = 0; i < NCASE; i++) { node_set_children(2 + i, 5 + i, -1, -1, -1); unsigned k = nondet_u8() % 3; nodes[2 + i].identifier = k == 0 ? AST_Case : k == 1 ? AST_Default : AST_Noop; eq_bit[i] = nondet_u8() & 1; }
#elif KIND == K_CASE
  node_set_children(0, 1, 2, -1, -1);
#elif KIND == K_DEFAULT
  node_set_children(0, 1, -1, -1, -1);
#else
  node_set_children(0, 1, 2, -1, -1);
#endif
#if KIND == K_FOR
  for (int i = 1; i <= 3; i++) __CPROVER_assume(behav[i] != B_BREAK && behav[i] != B_CONTINUE);       /* loop-control signals come from the body */
#elif KIND == K_SWITCH
  for (int i = 0; i < NNODES; i++) __CPROVER_assume(behav[i] != B_CONTINUE && (behav[i] != B_BREAK || (i >= 2 && i <= 4)));   /* break comes from a case body; continue belongs to an enclosing loop (a foreign exception here) */
#elif KIND != K_WHILE
  for (int i = 0; i < NNODES; i++) __CPROVER_assume(behav[i] != B_BREAK && behav[i] != B_CONTINUE);   /* outside a loop these are foreign exceptions like any other: covered by B_FOREIGN */
#else
  __CPROVER_assume(behav[1] != B_BREAK && behav[1] != B_CONTINUE);
#endif
  static char state[SZ_Dispatch_State] __attribute__((aligned(8))); struct BV out = { 0, 0 };
  NODE_EVAL((char*)&out, (char*)&nodes[0], state);
  __CPROVER_assert(scope_depth == 0 && stack_depth == 0 && call_depth == 0, "C09: scope, stack and call depth are restored on every exit of the node");
  /* first child that throws (in evaluation order), as the node must see it */
#if KIND == K_BLOCK || KIND == K_SCOPELESS_BLOCK
  int first_bad = 0; for (int i = NCH; i >= 1; i--) if (behav[i] != B_RET) first_bad = i;
  for (int i = 1; i <= NCH; i++) {
    int expect = (first_bad == 0 || i <= first_bad) ? 1 : 0;
    __CPROVER_assert(evals[i] == expect, "C03: a block evaluates its statements in order, each once, and stops at the first that throws");
    if (expect) __CPROVER_assert(eval_scope[i] == (KIND == K_BLOCK ? 1 : 0), "C03: the statements of a block run inside the block's own scope");
  }
  if (first_bad) { __CPROVER_assert(__exc_pending && __exc_obj == thrown_obj, "C10: an exception thrown by a statement leaves the block as the very same object"); __CPROVER_assert(0, "witness: statement throws"); }
  else { __CPROVER_assert(!__exc_pending && out.p == valpool[NCH], "C03: the value of a block is the value of its last statement"); __CPROVER_assert(0, "witness: block completes"); }
#elif KIND == K_IF
  if (behav[1] != B_RET) { __CPROVER_assert(__exc_pending && __exc_obj == thrown_obj && evals[2] + evals[3] == 0, "C10: an exception in the condition leaves unchanged; no branch runs"); __CPROVER_assert(0, "witness: condition throws"); }
  else if (cond_throw_at == 0) { __CPROVER_assert(__exc_pending && evals[2] + evals[3] == 0, "C03: a condition that is not a bool is an error; no branch runs"); __CPROVER_assert(0, "witness: condition not bool"); }
  else {
    int c = cond_vals[0] & 1; int br = c ? 2 : 3;
    __CPROVER_assert(evals[1] == 1 && evals[br] == 1 && evals[c ? 3 : 2] == 0, "C03: if evaluates the condition once and exactly the selected branch");
    if (behav[br] == B_RET) __CPROVER_assert(!__exc_pending && out.p == valpool[br], "C03: the value of if is the value of the selected branch");
    else __CPROVER_assert(__exc_pending && __exc_obj == thrown_obj, "C10: an exception in a branch leaves unchanged");
    __CPROVER_assert(0, "witness: branch selected");
  }
#elif KIND == K_AND || KIND == K_OR
  if (behav[1] != B_RET || cond_throw_at == 0) { __CPROVER_assert(__exc_pending && evals[2] == 0, "C03: a failing left operand of && / || stops evaluation"); __CPROVER_assert(0, "witness: lhs fails"); }
  else {
    int a = cond_vals[0] & 1; int need_rhs = (KIND == K_AND) ? a : !a;
    __CPROVER_assert(evals[1] == 1 && evals[2] == (need_rhs ? 1 : 0), "C03: && and || evaluate the right operand only when the left one does not decide the result");
    if (!need_rhs) { __CPROVER_assert(!__exc_pending && out.p == ((KIND == K_AND) ? false_data : true_data), "C03: short-circuit result"); __CPROVER_assert(0, "witness: short circuit"); }
    else if (behav[2] == B_RET && cond_throw_at != 1) { __CPROVER_assert(!__exc_pending && out.p == ((cond_vals[1] & 1) ? true_data : false_data), "C03: && / || yield the right operand's truth value when it is evaluated"); __CPROVER_assert(0, "witness: rhs evaluated"); }
    else __CPROVER_assert(__exc_pending, "C10: an exception in the right operand leaves the node");
  }
#elif KIND == K_WHILE
  { /* reference run of the loop */
    int it = 0, ci = 0, done = 0, exc = 0, body_runs = 0, cond_evals = 0;
    for (int step = 0; step < 5 && !done; step++) {
      cond_evals++;
      if (behav[1] != B_RET) { exc = 1; done = 1; break; }
      if (ci == cond_throw_at) { exc = 1; done = 1; ci++; break; }
      int c = (ci < cond_budget) ? (cond_vals[ci & 7] & 1) : 0; ci++;
      if (!c) { done = 1; break; }
      body_runs++; int b = (body_runs == 1) ? behav[2] : B_RET;
      if (b == B_BREAK) { done = 1; break; }
      if (b != B_RET && b != B_CONTINUE) { exc = 1; done = 1; break; }
    }
    __CPROVER_assert(evals[1] == cond_evals && evals[2] == body_runs, "C03: while evaluates condition and body alternately; break ends the loop, continue goes on to the next test");
    if (exc) { __CPROVER_assert(__exc_pending, "C10: an exception in condition or body leaves the loop"); __CPROVER_assert(0, "witness: loop left by exception"); }
    else { __CPROVER_assert(!__exc_pending && out.p == void_data, "C03: a loop that ends normally (or by break) yields void and no exception"); __CPROVER_assert(0, "witness: loop ends"); }
    if (body_runs >= 1 && behav[2] == B_BREAK) __CPROVER_assert(0, "witness: break");
    if (body_runs >= 2) __CPROVER_assert(0, "witness: second iteration");
  }
#elif KIND == K_FOR
  { /* reference run of for(init; cond; step) body */
    int ci = 0, exc = 0, body_runs = 0, cond_evals = 0, step_evals = 0, broke = 0;
    if (behav[1] != B_RET) exc = 1;
    for (int it = 0; it < 5 && !exc && !broke; it++) {
      cond_evals++;
      if (cond_evals == 1 && behav[2] != B_RET) { exc = 1; break; }
      if (ci == cond_throw_at) { exc = 1; ci++; break; }
      int c = (ci < cond_budget) ? (cond_vals[ci & 7] & 1) : 0; ci++;
      if (!c) break;
      body_runs++; int b = (body_runs == 1) ? behav[4] : B_RET;
      if (b == B_BREAK) { broke = 1; break; }
      if (b != B_RET && b != B_CONTINUE) { exc = 1; break; }
      step_evals++; if (step_evals == 1 && behav[3] != B_RET) { exc = 1; break; }
    }
    __CPROVER_assert(evals[1] == 1, "C03: the init statement of a for loop runs exactly once");
    __CPROVER_assert(evals[2] == cond_evals && evals[4] == body_runs && evals[3] == step_evals, "C03: for evaluates condition, body, step in this order; continue still runs the step, break ends the loop without it");
    if (evals[1]) __CPROVER_assert(eval_scope[1] == 1, "C03: the init statement declares into the loop's own scope");
    if (evals[2]) __CPROVER_assert(eval_scope[2] == 2, "C03: the condition is evaluated in a scope of its own inside the loop's scope");
    if (evals[4]) __CPROVER_assert(eval_scope[4] == 1, "C03: the body runs in the loop's scope");
    if (exc) { __CPROVER_assert(__exc_pending, "C10: an exception in init, condition, body or step leaves the loop"); __CPROVER_assert(0, "witness: loop left by exception"); }
    else { __CPROVER_assert(!__exc_pending && out.p == void_data, "C03: a for loop that ends normally (or by break) yields void"); __CPROVER_assert(0, "witness: loop ends"); }
    if (broke) __CPROVER_assert(0, "witness: break");
    if (body_runs >= 2) __CPROVER_assert(0, "witness: second iteration");
    if (body_runs >= 1 && behav[4] == B_CONTINUE && step_evals >= 1) __CPROVER_assert(0, "witness: continue runs the step");
  }
#elif KIND == K_SWITCH
  { int exc = 0, matched = 0, stop = 0; int exp_body[3] = {0, 0, 0}, exp_guard[3] = {0, 0, 0};
    if (behav[1] != B_RET) exc = 1;
    for (int i = 0; i < NCASE && !exc && !stop; i++) {
      int k = nodes[2 + i].identifier;
      if (k == AST_Case) {
        exp_guard[i] = 1; if (behav[5 + i] != B_RET) { exc = 1; break; }
        if (matched || eq_bit[i]) { exp_body[i] = 1; int b = behav[2 + i]; if (b == B_BREAK) { stop = 1; break; } if (b != B_RET) { exc = 1; break; } matched = 1; }
      } else if (k == AST_Default) {
        exp_body[i] = 1; int b = behav[2 + i]; if (b == B_BREAK) { stop = 1; break; } if (b != B_RET) { exc = 1; break; } matched = 1;
      }
    }
    __CPROVER_assert(evals[1] == 1, "C03: the switch value is evaluated once");
    for (int i = 0; i < NCASE; i++) {
      __CPROVER_assert(evals[2 + i] == exp_body[i], "C03: switch runs the first matching case and then falls through every following case AND default until a break; default also runs when nothing matched before it");
      if (nodes[2 + i].identifier == AST_Case && !matched_before_guard_unknown) __CPROVER_assert(evals[5 + i] >= exp_guard[i], "C03: a case label that can still decide is evaluated");
      if (evals[2 + i]) __CPROVER_assert(eval_scope[2 + i] == 1, "C03: case bodies run inside the switch's scope");
    }
    if (exc) { __CPROVER_assert(__exc_pending && __exc_obj == thrown_obj, "C10: an exception in the value, a label or a case body leaves the switch as the very same object"); __CPROVER_assert(0, "witness: switch left by exception"); }
    else { __CPROVER_assert(!__exc_pending && out.p == void_data, "C03: a switch yields void"); if (stop) __CPROVER_assert(0, "witness: break"); else if (matched) __CPROVER_assert(0, "witness: matched"); else __CPROVER_assert(0, "witness: nothing matched"); }
    { int fell = 0; for (int i = 0; i + 1 < NCASE; i++) if (exp_body[i] && exp_body[i + 1] && nodes[3 + i].identifier == AST_Default && nodes[2 + i].identifier == AST_Case) fell = 1; if (fell) __CPROVER_assert(0, "witness: fall through into default"); }
  }
#elif KIND == K_CASE || KIND == K_DEFAULT
  { int body = (KIND == K_CASE) ? 2 : 1;
    __CPROVER_assert(evals[body] == 1 && eval_scope[body] == 1, "C03: a case/default body runs once, in a scope of its own");
    if (KIND == K_CASE) __CPROVER_assert(evals[1] == 0, "C03: the label of a case is evaluated by the switch, not again by the case");
    if (behav[body] == B_RET) { __CPROVER_assert(!__exc_pending && out.p == void_data, "C03: a case body yields void"); __CPROVER_assert(0, "witness: body completes"); }
    else { __CPROVER_assert(__exc_pending && __exc_obj == thrown_obj, "C10: break and exceptions of a case body leave the case as the very same object (break is caught by the switch)"); __CPROVER_assert(0, "witness: body throws"); }
  }
#endif
  return 0;
}
