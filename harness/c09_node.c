/* C09 / C03 S4 / C10: one evaluator node's real eval_internal with abstract children, scope/stack/call bookkeeping as counters.
   KIND selects the node class; every child either returns a value or throws (eval_error, std exceptions, Boxed_Value, a foreign
   type, or the loop-control signals Break_Loop / Continue_Loop where the node catches them).  get_bool_condition is an oracle.
   Asserted for every node kind: scope, stack and call depth are back to their entry values on EVERY exit (normal or throwing);
   plus the node's control-flow semantics (order and number of child evaluations, short circuit, branch selection, loop
   exit on break, continue, value of the node), and that a child's exception leaves as the very same object. */
#define NNODES 6
#include "node_model.h"
#define K_BLOCK 1
#define K_IF 2
#define K_WHILE 3
#define K_AND 4
#define K_OR 5
#define K_SCOPELESS_BLOCK 6
enum { B_BREAK = B_NKINDS, B_CONTINUE, B_NKINDS2 };
static int cond_calls, cond_budget; static uint8_t cond_vals[8]; static int cond_throw_at;
static struct verif_ti ti_break_standin = {0, "*break"}, ti_continue_standin = {0, "*continue"};
#ifndef TI_BREAK
#define TI_BREAK ((char*)&ti_break_standin)
#define TI_CONTINUE ((char*)&ti_continue_standin)
#endif
static int evals[NNODES]; static int eval_scope[NNODES];
void F__ZNK10chaiscript4eval13AST_Node_ImplINS0_6TracerIJNS0_18Noop_Tracer_DetailEEEEE4evalERKNS_6detail14Dispatch_StateE(char* sret, char* self, char* st) {
  int idx = (int)((struct node*)self - nodes);
  LOG(100 + idx); evals[idx]++; eval_scope[idx] = scope_depth;
  int b = behav[idx];
#if KIND == K_WHILE
  if (idx == 2 && evals[2] > 1) b = B_RET;                 /* the loop body misbehaves on its first run only (keeps the query small) */
#endif
  if (b == B_RET) { ((struct BV*)sret)->p = valpool[idx]; ((struct BV*)sret)->pn = 0; return; }
  if (b == B_BREAK) { thrown_obj = __VERIF_throw_new(TI_BREAK, 8); thrown_kind = b; return; }
  if (b == B_CONTINUE) { thrown_obj = __VERIF_throw_new(TI_CONTINUE, 8); thrown_kind = b; return; }
  child_throw(b, TI_EVAL_ERROR, TI_BOXED_VALUE);
}
uint8_t GET_BOOL(char* bv, char* st) {
  int i = cond_calls++; LOG(500);
  if (i == cond_throw_at) { child_throw(B_EVAL_ERROR, TI_EVAL_ERROR, TI_BOXED_VALUE); return 0; }
  if (i >= cond_budget) return 0;                          /* loops are bounded: the condition turns false after cond_budget evaluations */
  return cond_vals[i & 7] & 1;
}
void NEW_SCOPE(char* h) { scope_depth++; }
void POP_SCOPE(char* h) { scope_depth--; }
static char void_data[8]; static char true_data[8], false_data[8];
#ifdef VOID_VAR
void VOID_VAR(char* sret) { ((struct BV*)sret)->p = void_data; ((struct BV*)sret)->pn = 0; }
#endif
void F__ZN10chaiscript9const_varEb(char* sret, uint8_t b) { ((struct BV*)sret)->p = (b & 1) ? true_data : false_data; ((struct BV*)sret)->pn = 0; }
void NODE_EVAL(char* sret, char* self, char* st);
int main(void) {
  for (int i = 0; i < NNODES; i++) { unsigned b = nondet_u32(); __CPROVER_assume(b < B_NKINDS2); behav[i] = (int)b; }
  for (int i = 0; i < 8; i++) cond_vals[i] = nondet_u8() & 1;
  cond_budget = 3; { int t = nondet_i32(); __CPROVER_assume(t >= -1 && t < 4); cond_throw_at = t; }
#if KIND == K_BLOCK || KIND == K_SCOPELESS_BLOCK
  node_set_children(0, 1, NCH >= 2 ? 2 : -1, NCH >= 3 ? 3 : -1, -1);
#elif KIND == K_IF
  node_set_children(0, 1, 2, 3, -1);
#else
  node_set_children(0, 1, 2, -1, -1);
#endif
#if KIND != K_WHILE
  for (int i = 0; i < NNODES; i++) __CPROVER_assume(behav[i] != B_BREAK && behav[i] != B_CONTINUE);   /* outside a loop these are foreign exceptions like any other: covered by B_FOREIGN */
#else
  __CPROVER_assume(behav[1] != B_BREAK && behav[1] != B_CONTINUE);
#endif
  static char state[SZ_Dispatch_State] __attribute__((aligned(8))); struct BV out = { 0, 0 };
  NODE_EVAL((char*)&out, (char*)&nodes[0], state);
  __CPROVER_assert(scope_depth == 0 && stack_depth == 0 && call_depth == 0, "C09: scope, stack and call depth are restored on every exit of the node");
  /* first child that throws (in evaluation order), as the node must see it */
#if KIND == K_BLOCK || KIND == K_SCOPELESS_BLOCK
  int first_bad = 0; for (int i = NCH; i >= 1; i--) if (behav[i] != B_RET) first_bad = i;
  for (int i = 1; i <= NCH; i++) {
    int expect = (first_bad == 0 || i <= first_bad) ? 1 : 0;
    __CPROVER_assert(evals[i] == expect, "C03: a block evaluates its statements in order, each once, and stops at the first that throws");
    if (expect) __CPROVER_assert(eval_scope[i] == (KIND == K_BLOCK ? 1 : 0), "C03: the statements of a block run inside the block's own scope");
  }
  if (first_bad) { __CPROVER_assert(__exc_pending && __exc_obj == thrown_obj, "C10: an exception thrown by a statement leaves the block as the very same object"); __CPROVER_assert(0, "witness: statement throws"); }
  else { __CPROVER_assert(!__exc_pending && out.p == valpool[NCH], "C03: the value of a block is the value of its last statement"); __CPROVER_assert(0, "witness: block completes"); }
#elif KIND == K_IF
  if (behav[1] != B_RET) { __CPROVER_assert(__exc_pending && __exc_obj == thrown_obj && evals[2] + evals[3] == 0, "C10: an exception in the condition leaves unchanged; no branch runs"); __CPROVER_assert(0, "witness: condition throws"); }
  else if (cond_throw_at == 0) { __CPROVER_assert(__exc_pending && evals[2] + evals[3] == 0, "C03: a condition that is not a bool is an error; no branch runs"); __CPROVER_assert(0, "witness: condition not bool"); }
  else {
    int c = cond_vals[0] & 1; int br = c ? 2 : 3;
    __CPROVER_assert(evals[1] == 1 && evals[br] == 1 && evals[c ? 3 : 2] == 0, "C03: if evaluates the condition once and exactly the selected branch");
    if (behav[br] == B_RET) __CPROVER_assert(!__exc_pending && out.p == valpool[br], "C03: the value of if is the value of the selected branch");
    else __CPROVER_assert(__exc_pending && __exc_obj == thrown_obj, "C10: an exception in a branch leaves unchanged");
    __CPROVER_assert(0, "witness: branch selected");
  }
#elif KIND == K_AND || KIND == K_OR
  if (behav[1] != B_RET || cond_throw_at == 0) { __CPROVER_assert(__exc_pending && evals[2] == 0, "C03: a failing left operand of && / || stops evaluation"); __CPROVER_assert(0, "witness: lhs fails"); }
  else {
    int a = cond_vals[0] & 1; int need_rhs = (KIND == K_AND) ? a : !a;
    __CPROVER_assert(evals[1] == 1 && evals[2] == (need_rhs ? 1 : 0), "C03: && and || evaluate the right operand only when the left one does not decide the result");
    if (!need_rhs) { __CPROVER_assert(!__exc_pending && out.p == ((KIND == K_AND) ? false_data : true_data), "C03: short-circuit result"); __CPROVER_assert(0, "witness: short circuit"); }
    else if (behav[2] == B_RET && cond_throw_at != 1) { __CPROVER_assert(!__exc_pending && out.p == ((cond_vals[1] & 1) ? true_data : false_data), "C03: && / || yield the right operand's truth value when it is evaluated"); __CPROVER_assert(0, "witness: rhs evaluated"); }
    else __CPROVER_assert(__exc_pending, "C10: an exception in the right operand leaves the node");
  }
#elif KIND == K_WHILE
  { /* reference run of the loop */
    int it = 0, ci = 0, done = 0, exc = 0, body_runs = 0, cond_evals = 0;
    for (int step = 0; step < 5 && !done; step++) {
      cond_evals++;
      if (behav[1] != B_RET) { exc = 1; done = 1; break; }
      if (ci == cond_throw_at) { exc = 1; done = 1; ci++; break; }
      int c = (ci < cond_budget) ? (cond_vals[ci & 7] & 1) : 0; ci++;
      if (!c) { done = 1; break; }
      body_runs++; int b = (body_runs == 1) ? behav[2] : B_RET;
      if (b == B_BREAK) { done = 1; break; }
      if (b != B_RET && b != B_CONTINUE) { exc = 1; done = 1; break; }
    }
    __CPROVER_assert(evals[1] == cond_evals && evals[2] == body_runs, "C03: while evaluates condition and body alternately; break ends the loop, continue goes on to the next test");
    if (exc) { __CPROVER_assert(__exc_pending, "C10: an exception in condition or body leaves the loop"); __CPROVER_assert(0, "witness: loop left by exception"); }
    else { __CPROVER_assert(!__exc_pending && out.p == void_data, "C03: a loop that ends normally (or by break) yields void and no exception"); __CPROVER_assert(0, "witness: loop ends"); }
    if (body_runs >= 1 && behav[2] == B_BREAK) __CPROVER_assert(0, "witness: break");
    if (body_runs >= 2) __CPROVER_assert(0, "witness: second iteration");
  }
#endif
  return 0;
}
