/* C16 I4 / C01 P7: the real Char_Parser<std::string> (constructor, parse() per byte, process_hex/octal/unicode, finish())
   over every sequence of exactly N content bytes, against a reference decoder of C++ escape sequences written here.
   Shape: N, INTERP (interpolation_allowed: 1 = double-quoted, 0 = single-quoted).
   Asserted: std::terminate is never reached; only eval_error leaves; accepted <=> the reference accepts, with equal bytes.
   std::stoll/stoi on the collected digit strings are modelled exactly for <= 8 hex/octal digits (trusted libc leaf). */
#include "parser_model.h"
#ifndef N
#define N 3
#endif
void F__ZN10chaiscript9exception10eval_errorC2ERKNSt7__cxx1112basic_stringIcSt11char_traitsIcESaIcEEERKNS_13File_PositionES9_(char* self, char* why, char* where, char* fname) { }
void F__ZN10chaiscript9exception10eval_errorC2ERKNSt7__cxx1112basic_stringIcSt11char_traitsIcESaIcEEE(char* self, char* why) { }
void F__ZN10chaiscript9exception10eval_errorD2Ev(char* self) { }
void F__ZN10chaiscript9exception10eval_errorD0Ev(char* self) { }
char* __VERIF_exc_type(void);
void F__ZSt20__throw_out_of_rangePKc(char*); void F__ZSt24__throw_invalid_argumentPKc(char*);
/* ---- libc/libstdc++ leaf model: std::stoll / std::stoi(str, nullptr, base) on an SSO string of digits */
static int digit_of(char c) { if (c >= '0' && c <= '9') return c - '0'; if (c >= 'a' && c <= 'f') return c - 'a' + 10; if (c >= 'A' && c <= 'F') return c - 'A' + 10; return 99; }
static int sto_parse(char* str, uint32_t base, uint64_t* out) {
  uint64_t n = *(uint64_t*)(str + 8); char* d = str + 16; uint64_t v = 0; unsigned k = 0;
  __CPROVER_assert(n <= 9, "MODEL: digit string longer than the strtol model handles"); __CPROVER_assume(n <= 9);
  for (; k < 9 && k < n; k++) { int dg = digit_of(d[k]); if (dg >= (int)base) break; v = (base == 16 ? (v << 4) : base == 8 ? (v << 3) : v * base) + (uint64_t)dg; }
  if (k == 0) return 0;
  *out = v; return 1;
}
uint64_t F__ZNSt7__cxx115stollERKNS_12basic_stringIcSt11char_traitsIcESaIcEEEPmi(char* str, char* idx, uint32_t base) {
  uint64_t v; if (!sto_parse(str, base, &v)) { F__ZSt24__throw_invalid_argumentPKc("stoll"); return 0; } return v; }
uint64_t F__ZNSt7__cxx115stoulERKNS_12basic_stringIcSt11char_traitsIcESaIcEEEPmi(char* str, char* idx, uint32_t base) {
  uint64_t v; if (!sto_parse(str, base, &v)) { F__ZSt24__throw_invalid_argumentPKc("stoul"); return 0; } return v; }
uint32_t F__ZNSt7__cxx114stoiERKNS_12basic_stringIcSt11char_traitsIcESaIcEEEPmi(char* str, char* idx, uint32_t base) {
  uint64_t v; if (!sto_parse(str, base, &v)) { F__ZSt24__throw_invalid_argumentPKc("stoi"); return 0; }
  if (v > 0x7fffffffull) { F__ZSt20__throw_out_of_rangePKc("stoi"); return 0; } return (uint32_t)v; }
void CP_CTOR(char* self, char* match, uint8_t interp);
void CP_PARSE(char* self, uint8_t c, uint32_t line, uint32_t col, char* fname);
void CP_FINISH(char* self);
/* ---- reference decoder */
static int is_hex(char c) { return digit_of(c) < 16; }
static int is_oct(char c) { return c >= '0' && c <= '7'; }
/* one byte per step (constant trip count keeps the query small); pending numeric escapes are finished by ref_flush */
struct ref { int ok; unsigned o; int mode; unsigned cnt, need; uint32_t val; char out[4 * N + 12]; };
enum { M_PLAIN, M_ESC, M_HEX, M_UNI, M_OCT };
static void ref_put_utf8(struct ref* r, uint32_t v) {
  if ((v >= 0xD800 && v <= 0xDFFF) || v > 0x10FFFF) { r->ok = 0; return; }
  if (v < 0x80) r->out[r->o++] = (char)v;
  else if (v < 0x800) { r->out[r->o++] = (char)(0xC0 | (v >> 6)); r->out[r->o++] = (char)(0x80 | (v & 0x3F)); }
  else if (v < 0x10000) { r->out[r->o++] = (char)(0xE0 | (v >> 12)); r->out[r->o++] = (char)(0x80 | ((v >> 6) & 0x3F)); r->out[r->o++] = (char)(0x80 | (v & 0x3F)); }
  else { r->out[r->o++] = (char)(0xF0 | (v >> 18)); r->out[r->o++] = (char)(0x80 | ((v >> 12) & 0x3F)); r->out[r->o++] = (char)(0x80 | ((v >> 6) & 0x3F)); r->out[r->o++] = (char)(0x80 | (v & 0x3F)); }
}
static void ref_flush(struct ref* r) {                           /* a numeric escape ends here */
  if (r->mode == M_HEX) { if (r->cnt == 0) r->ok = 0; else r->out[r->o++] = (char)r->val; }
  else if (r->mode == M_OCT) { if (r->val > 255) r->ok = 0; else r->out[r->o++] = (char)r->val; }
  else if (r->mode == M_UNI) { if (r->cnt != r->need) r->ok = 0; else ref_put_utf8(r, r->val); }
  if (r->mode == M_HEX || r->mode == M_OCT || r->mode == M_UNI) { r->mode = M_PLAIN; r->cnt = 0; r->need = 0; r->val = 0; }
}
static void ref_step(struct ref* r, char c, int interp) {
  if (!r->ok) return;
  if (r->mode == M_HEX) { if (is_hex(c) && r->cnt < 2) { r->val = r->val * 16 + (uint32_t)digit_of(c); r->cnt++; if (r->cnt == 2) ref_flush(r); return; } ref_flush(r); }
  else if (r->mode == M_UNI) { if (is_hex(c) && r->cnt < r->need) { r->val = r->val * 16 + (uint32_t)digit_of(c); r->cnt++; if (r->cnt == r->need) ref_flush(r); return; } ref_flush(r); }
  else if (r->mode == M_OCT) { if (is_oct(c) && r->cnt < 3) { r->val = r->val * 8 + (uint32_t)(c - '0'); r->cnt++; if (r->cnt == 3) ref_flush(r); return; } ref_flush(r); }
  if (!r->ok) return;
  if (r->mode == M_ESC) {
    r->mode = M_PLAIN;
    switch (c) {
      case '\'': case '"': case '?': case '\\': case '$': r->out[r->o++] = c; return;      /* \$ : ChaiScript extension */
      case 'a': r->out[r->o++] = 7; return; case 'b': r->out[r->o++] = 8; return; case 'f': r->out[r->o++] = 12; return; case 'n': r->out[r->o++] = 10; return;
      case 'r': r->out[r->o++] = 13; return; case 't': r->out[r->o++] = 9; return; case 'v': r->out[r->o++] = 11; return;
      case 'x': r->mode = M_HEX; r->cnt = 0; r->val = 0; return;
      case 'u': r->mode = M_UNI; r->need = 4; r->cnt = 0; r->val = 0; return;
      case 'U': r->mode = M_UNI; r->need = 8; r->cnt = 0; r->val = 0; return;
      default: if (is_oct(c)) { r->mode = M_OCT; r->cnt = 1; r->val = (uint32_t)(c - '0'); return; } r->ok = 0; return;   /* unknown escape */
    }
  }
  if (c == '\\') { r->mode = M_ESC; return; }
  if (interp && c == '$') { r->ok = -1; return; }                /* interpolation marker: outside this reference */
  r->out[r->o++] = c;
}
/* typed image of Char_Parser<std::string> (CBMC stays field-sensitive on typed objects); checked against the compiler's layout */
struct cp_model { char* match; uint8_t is_escaped, is_interpolated, saw_interpolation_marker, is_octal, is_hex; uint64_t unicode_size; uint8_t interpolation_allowed;
                  struct sso_string octal_matches, hex_matches; };
_Static_assert(sizeof(struct cp_model) == SZ_CP && offsetof(struct cp_model, is_escaped) == OFF_CP_is_escaped && offsetof(struct cp_model, is_hex) == OFF_CP_is_hex &&
               offsetof(struct cp_model, unicode_size) == OFF_CP_unicode_size && offsetof(struct cp_model, interpolation_allowed) == OFF_CP_interpolation_allowed &&
               offsetof(struct cp_model, octal_matches) == OFF_CP_octal_matches && offsetof(struct cp_model, hex_matches) == OFF_CP_hex_matches &&
               offsetof(struct cp_model, is_octal) == OFF_CP_is_octal && offsetof(struct cp_model, saw_interpolation_marker) == OFF_CP_saw_interpolation_marker,
               "Char_Parser layout changed: update struct cp_model");
#ifdef STEP_MODE
/* ---- inductive step: ONE parse() (optionally followed by finish()) from an ARBITRARY VALID decoder state.
   Representation invariant (established by the constructor, preserved by every step - asserted below):
     plain: no flag set;  after '\\': is_escaped only;  octal: is_escaped, is_octal, 1-2 octal digits collected;
     hex: is_escaped, is_hex, 0-1 hex digits;  unicode: is_escaped, unicode_size in {4,8}, fewer hex digits than that.
   The abstraction maps the real state to the reference state (mode, count, needed, value, output so far). */
static int abstract_state(struct cp_model* c, struct sso_string* m, struct ref* r, unsigned maxn) {
  r->ok = 1; r->cnt = 0; r->need = 0; r->val = 0;
  int oct = c->is_octal & 1, hex = c->is_hex & 1, uni = c->unicode_size != 0, esc = c->is_escaped & 1;
  if (oct + hex + uni > 1) return 0;
  if ((oct || hex || uni) && !esc) return 0;
  if (c->octal_matches.p != c->octal_matches.buf || c->hex_matches.p != c->hex_matches.buf || m->p != m->buf) return 0;
  if (!oct && c->octal_matches.n != 0) return 0;
  if (!hex && !uni && c->hex_matches.n != 0) return 0;
  if (oct) { if (c->octal_matches.n < 1 || c->octal_matches.n > 2) return 0; r->mode = M_OCT; r->cnt = (unsigned)c->octal_matches.n;
             for (unsigned i = 0; i < 2; i++) if (i < r->cnt) { if (!is_oct(c->octal_matches.buf[i])) return 0; r->val = r->val * 8 + (uint32_t)(c->octal_matches.buf[i] - '0'); } }
  else if (hex) { if (c->hex_matches.n > 1) return 0; r->mode = M_HEX; r->cnt = (unsigned)c->hex_matches.n;
             if (r->cnt == 1) { if (!is_hex(c->hex_matches.buf[0])) return 0; r->val = (uint32_t)digit_of(c->hex_matches.buf[0]); } }
  else if (uni) { if (c->unicode_size != 4 && c->unicode_size != 8) return 0; if (c->hex_matches.n >= c->unicode_size) return 0; r->mode = M_UNI; r->need = (unsigned)c->unicode_size; r->cnt = (unsigned)c->hex_matches.n;
             for (unsigned i = 0; i < 7; i++) if (i < r->cnt) { if (!is_hex(c->hex_matches.buf[i])) return 0; r->val = r->val * 16 + (uint32_t)digit_of(c->hex_matches.buf[i]); } }
  else r->mode = esc ? M_ESC : M_PLAIN;
  if (m->n > maxn) return 0;
  r->o = (unsigned)m->n; for (unsigned i = 0; i < 12; i++) if (i < r->o) r->out[i] = m->buf[i];
  return 1;
}
int main(void) {
  static struct sso_string match; static struct cp_model cpm; char* cp = (char*)&cpm;
  parser_fname.p = parser_fname.buf; parser_fname.n = 1; parser_fname.buf[0] = 'f'; parser_fname.buf[1] = 0;
  /* arbitrary state */
  match.p = match.buf; match.n = nondet_u64(); for (unsigned i = 0; i < 16; i++) match.buf[i] = (char)nondet_u8();
  cpm.match = (char*)&match; cpm.is_escaped = nondet_u8() & 1; cpm.is_interpolated = nondet_u8() & 1; cpm.saw_interpolation_marker = 0;
  cpm.is_octal = nondet_u8() & 1; cpm.is_hex = nondet_u8() & 1; cpm.unicode_size = nondet_u64(); cpm.interpolation_allowed = INTERP;
  cpm.octal_matches.p = cpm.octal_matches.buf; cpm.octal_matches.n = nondet_u64(); for (unsigned i = 0; i < 16; i++) cpm.octal_matches.buf[i] = (char)nondet_u8();
  cpm.hex_matches.p = cpm.hex_matches.buf; cpm.hex_matches.n = nondet_u64(); for (unsigned i = 0; i < 16; i++) cpm.hex_matches.buf[i] = (char)nondet_u8();
  static struct ref R, A;
  __CPROVER_assume(abstract_state(&cpm, &match, &R, 8));                 /* the representation invariant */
  __CPROVER_assume(match.buf[match.n] == 0 && cpm.octal_matches.buf[cpm.octal_matches.n] == 0 && cpm.hex_matches.buf[cpm.hex_matches.n] == 0);
  char c = (char)nondet_u8(); uint8_t do_finish = nondet_u8() & 1;
  ref_step(&R, c, INTERP);
  if (R.ok > 0 && do_finish) { __CPROVER_assume(R.mode != M_ESC); ref_flush(&R); }
  __CPROVER_assume(R.ok >= 0);
  CP_PARSE(cp, (uint8_t)c, 1, 1, (char*)&parser_fname);
  if (!__exc_pending && do_finish) CP_FINISH(cp);
  if (__exc_pending) {
    __CPROVER_assert(__VERIF_exc_type() == (char*)&g__ZTIN10chaiscript9exception10eval_errorE, "C01: only eval_error leaves string-literal decoding");
    __CPROVER_assert(!R.ok, "C16: a well-formed escape sequence is not rejected");
    __CPROVER_assert(0, "witness: rejected");
  } else {
    __CPROVER_assert(R.ok, "C16: a malformed escape sequence is rejected with an error");
    if (R.ok) {
      int valid = abstract_state(&cpm, &match, &A, 12);
      __CPROVER_assert(valid, "C16: decoder state stays within its representation invariant");
      __CPROVER_assert(A.mode == R.mode && A.cnt == R.cnt && A.need == R.need && A.val == R.val, "C16: decoder state tracks the C++ escape grammar (mode, digits seen, digits needed, value so far)");
      __CPROVER_assert(A.o == R.o, "C16: decoded literal has the length C++ escape decoding yields");
      int same = 1; for (unsigned i = 0; i < 12; i++) if (i < R.o && match.buf[i] != R.out[i]) same = 0;
      __CPROVER_assert(same, "C16: decoded literal has exactly the bytes C++ escape decoding yields");
      if (do_finish) __CPROVER_assert(A.mode == M_PLAIN, "C16: finish() leaves no escape pending");
    }
    __CPROVER_assert(0, "witness: accepted");
    if (R.mode == M_UNI && R.cnt >= 5) __CPROVER_assert(0, "witness: inside a \\U escape");
  }
  return 0;
}
#else
int main(void) {
  char in[N ? N : 1]; for (unsigned i = 0; i < N; i++) in[i] = (char)nondet_u8();
#ifdef ALPHABET
  for (unsigned i = 0; i < N; i++) __CPROVER_assume(ALPHABET(in[i]));
#endif
  static struct sso_string match; match.p = match.buf; match.n = 0; match.buf[0] = 0;
  static struct cp_model cpm; char* cp = (char*)&cpm;
  parser_fname.p = parser_fname.buf; parser_fname.n = 1; parser_fname.buf[0] = 'f'; parser_fname.buf[1] = 0;
  static struct ref R; R.ok = 1; R.o = 0; R.mode = M_PLAIN;
  for (unsigned i = 0; i < N; i++) ref_step(&R, in[i], INTERP);
  ref_flush(&R);
  __CPROVER_assume(R.ok >= 0 && R.mode != M_ESC);               /* lone trailing backslash: unreachable from the quote scanners */
  int refok = R.ok; unsigned refn = R.o; char* ref = R.out;
  CP_CTOR(cp, (char*)&match, INTERP);
  for (unsigned i = 0; i < N && !__exc_pending; i++) CP_PARSE(cp, (uint8_t)in[i], 1, 1, (char*)&parser_fname);
  if (!__exc_pending) CP_FINISH(cp);                       /* the callers' protocol: finish() once the content is consumed */
  if (__exc_pending) {
    __CPROVER_assert(__VERIF_exc_type() == (char*)&g__ZTIN10chaiscript9exception10eval_errorE, "C01: only eval_error leaves string-literal decoding");
    __CPROVER_assert(!refok, "C16: a well-formed escape sequence is not rejected");
    __CPROVER_assert(0, "witness: rejected");
  } else {
    __CPROVER_assert(refok, "C16: a malformed escape sequence is rejected with an error");
    if (refok) {
      __CPROVER_assert(match.n == refn, "C16: decoded literal has the length C++ escape decoding yields");
      int same = 1; for (unsigned i = 0; i < 4 * N + 4; i++) if (i < refn && i < 15 && match.buf[i] != ref[i]) same = 0;
      __CPROVER_assert(same, "C16: decoded literal has exactly the bytes C++ escape decoding yields");
    }
    __CPROVER_assert(0, "witness: accepted");
  }
  return 0;
}
#endif
