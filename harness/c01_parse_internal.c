/* C01 P7: the real ChaiScript_Parser::parse_internal - the one place that decides whether "everything was parsed" - over every
   input of exactly N bytes, with Statements() and Eol() as contract stubs (any in-bounds forward move of the cursor, any result,
   or an eval_error) and the two ways of producing the root node (build_match<File_AST_Node>, push_back of a Noop node) as recorders.
   Asserted: only eval_error leaves; on a normal return the cursor is at the end of the input - a returned tree accounts for the
   entire input, nothing is silently dropped - and exactly one root node was produced and returned; the '#!' line skip terminates
   and stays in bounds. */
#include "parser_model.h"
#ifndef N
#define N 3
#endif

char* __VERIF_throw_new(char* tinfo, uint64_t size);
char* __VERIF_exc_type(void);
void EE_CTOR3(char* self, char* why, char* where, char* fname) { eval_error_ctor_calls++; }
static char* g_buf; static int st_calls, st_ret, st_threw, eol_calls;
static void move_cursor(char* self, uint64_t k) { P_POS(self) += k; int32_t l = nondet_i32(), c = nondet_i32(); __CPROVER_assume(l >= 1 && l < (1 << 30) && c >= 1 && c < (1 << 30)); P_LINE(self) = l; P_COL(self) = c; }
/* contract of Statements(): consumes any number of bytes (possibly none, possibly not all), reports whether it parsed anything, or raises eval_error */
uint8_t STATEMENTS(char* self, uint8_t class_allowed) {
  st_calls++;
  uint64_t rem = P_POS(self) ? (uint64_t)(P_END(self) - P_POS(self)) : 0; uint64_t k = nondet_u64(); __CPROVER_assume(k <= rem);
  if (k) move_cursor(self, k);
  if (nondet_u8() & 1) { st_threw = 1; __VERIF_throw_new((char*)&g__ZTIN10chaiscript9exception10eval_errorE, 160); return 0; }
  st_ret = nondet_u8() & 1; return (uint8_t)st_ret;
}
/* contract of Eol(): it first skips blanks and comments - any forward move, possibly up to the end of the input - and then reports whether a
   line end followed (true => at least one byte, the line end, was consumed).  A false result does NOT mean the cursor did not move. */
uint8_t EOL(char* self) {
  eol_calls++;
  uint64_t rem = P_POS(self) ? (uint64_t)(P_END(self) - P_POS(self)) : 0; if (rem == 0) return 0;
  uint64_t k = nondet_u64(); __CPROVER_assume(k <= rem); if (k) move_cursor(self, k);
  if (k == 0) return 0;
  return nondet_u8() & 1;
}
static struct node_stub { char* vptr; char pad[SZ_Node]; } file_node;
static char* stack_slot[2]; static int n_build, n_push; static char* pushed;
void BUILD_MATCH_FILE(char* self, uint64_t start, char* text) { n_build++; stack_slot[0] = (char*)&file_node; PM(self)->match_stack.b = (char*)&stack_slot[0]; PM(self)->match_stack.e = (char*)&stack_slot[1]; PM(self)->match_stack.c = (char*)&stack_slot[2]; }
void PUSH_BACK(char* vec, char* uptr) { n_push++; pushed = *(char**)uptr; *(char**)uptr = 0; stack_slot[0] = pushed; struct vec3* v = (struct vec3*)vec; v->b = (char*)&stack_slot[0]; v->e = (char*)&stack_slot[1]; v->c = (char*)&stack_slot[2]; }
void PARSE_INTERNAL(char* sret, char* self, char* input, char* fname);
int main(void) {
  static struct parser_model PMODEL; char* parser = (char*)&PMODEL;
  static struct sso_string input, fname;
  input.p = input.buf; input.n = N; for (unsigned i = 0; i < N; i++) input.buf[i] = (char)nondet_u8(); input.buf[N] = 0; g_buf = input.buf;
  fname.p = fname.buf; fname.n = 1; fname.buf[0] = 'f'; fname.buf[1] = 0;
  char* root = 0;
  PARSE_INTERNAL((char*)&root, parser, (char*)&input, (char*)&fname);
  __CPROVER_assert(st_calls == 1, "C01: the statement list is parsed once");
  __CPROVER_assert(P_POS(parser) == 0 ? N == 0 : (P_POS(parser) >= input.buf && P_POS(parser) <= input.buf + N && P_END(parser) == input.buf + N), "C01: the cursor stays inside the input");
  if (__exc_pending) {
    __CPROVER_assert(__VERIF_exc_type() == (char*)&g__ZTIN10chaiscript9exception10eval_errorE, "C01: only eval_error leaves the parser");
    if (!st_threw) __CPROVER_assert(0, "witness: unparsed input reported");
  } else {
    __CPROVER_assert(N == 0 || P_POS(parser) == P_END(parser), "C01: a returned syntax tree accounts for the entire input (text the grammar could not parse is an error, never silently dropped)");
    __CPROVER_assert(n_build + n_push == 1 && root != 0 && root == (n_build ? (char*)&file_node : pushed), "C01: exactly one root node is produced and returned");
    __CPROVER_assert(st_ret ? n_build == 1 : n_push == 1, "C01: the root is the File node when statements were parsed, a Noop otherwise");
    if (st_ret) __CPROVER_assert(0, "witness: parsed"); else __CPROVER_assert(0, "witness: empty program");
  }
  return 0;
}
