/* C06 D3 / C07: the real Cast_Helper_Inner<T>::cast for one parameter form T over int, on a symbolic Boxed_Value::Data
   (static type one of {int, double, another class, int*} with the bare type that Get_Type_Info derives from it, const / reference / pointer / undefined flags,
   stored pointers) that satisfies the representation invariant of Data (m_data_ptr is null exactly for const objects).
   Shape: FORM.  Asserted: the cast returns normally only for an object whose type is int in the way the form requires, a
   mutable form (T&, T*) never accepts a const object, and the C++ side receives exactly the stored object. */
#include "layout.h"
#include "bv_model.h"
#define F_VALUE 1
#define F_CREF 2
#define F_REF 3
#define F_PTR 4
#define F_CPTR 5
extern struct verif_ti g__ZTIi;
static struct verif_ti ti_double = {0, "*d"}, ti_other = {0, "*other"}, ti_intptr = {0, "*Pi"};
void F__ZN10chaiscript6detail9exception12bad_any_castC2Ev(char* self) { }
void F__ZNSt13runtime_errorC1EPKc(char* self, char* m) { }
extern struct verif_ti g__ZTISt13runtime_error;
char* __VERIF_exc_type(void);
#if FORM == F_VALUE
uint32_t CAST(char* ob, char* conv);
#else
char* CAST(char* ob, char* conv);
#endif
int main(void) {
  static struct bv_data d; static int32_t stored; stored = nondet_i32();
  char* tis[4] = { (char*)&g__ZTIi, (char*)&ti_double, (char*)&ti_other, (char*)&ti_intptr };
  unsigned a = nondet_u32() & 3; unsigned b = a == 3 ? 0 : a;      /* Type_Info invariant (Get_Type_Info): the bare type is the type with pointer/const/reference stripped - int* has bare type int */
  uint32_t flags = nondet_u32() & (TIF_const | TIF_reference | TIF_pointer | TIF_undef | TIF_arithmetic);
  D_TI(&d) = tis[a]; D_BARE_TI(&d) = tis[b]; D_FLAGS(&d) = flags;
  int isnull = nondet_u8() & 1;
  D_CPTR(&d) = isnull ? (void*)0 : (void*)&stored; D_PTR(&d) = (flags & TIF_const) ? (void*)0 : (void*)D_CPTR(&d);     /* invariant established by Data's constructor (C07 D0) */
  struct BV ob = { (char*)&d, 0 };
  int is_const = (flags & TIF_const) != 0, undef = (flags & TIF_undef) != 0;
  /* "only as its actual type": a box whose object is an int* VARIABLE (full type int*, bare type int) is not an int */
  int bare_is_int = !undef && a == 0, full_is_int = !undef && a == 0;
#if FORM == F_VALUE
  uint32_t r = CAST((char*)&ob, 0); int ok = bare_is_int; int need_nonnull = 1; char* rp = 0;
#else
  char* rp = CAST((char*)&ob, 0); uint32_t r = 0;
#if FORM == F_CREF
  int ok = bare_is_int; int need_nonnull = 1;
#elif FORM == F_REF
  int ok = bare_is_int && !is_const; int need_nonnull = 1;
#elif FORM == F_PTR
  int ok = full_is_int && !is_const; int need_nonnull = 0;
#elif FORM == F_CPTR
  int ok = full_is_int; int need_nonnull = 0;
#endif
#endif
  if (!ok) {
    __CPROVER_assert(__exc_pending, "C06: a value of another type - or a const object for a mutable parameter form - is never handed to C++");
    __CPROVER_assert(0, "witness: cast refused");
  } else if (need_nonnull && isnull) {
    __CPROVER_assert(__exc_pending && __VERIF_exc_type() == (char*)&g__ZTISt13runtime_error, "C06: a null object is reported, not dereferenced");
    __CPROVER_assert(0, "witness: null object");
  } else {
    __CPROVER_assert(!__exc_pending, "C06: a value of the declared type is accepted");
#if FORM == F_VALUE
    __CPROVER_assert((int32_t)r == stored, "C06: a by-value parameter receives exactly the stored value");
#else
    __CPROVER_assert(rp == (isnull ? (char*)0 : (char*)&stored), "C06: a reference/pointer parameter receives exactly the stored object");
#endif
    __CPROVER_assert(0, "witness: cast accepted");
  }
  return 0;
}
