/* C03 S1 / C05 A4: the real Operators::to_operator(text, is_unary) for every text of exactly N bytes over the operator alphabet,
   against the operator table of the language reference written out here.  (The function dispatches on a 32-bit hash of the
   text: this query is what shows that, over the strings the parser can pass, no two spellings are confused.) */
#include "layout.h"
#include "bv_model.h"
#ifndef N
#define N 2
#endif
uint32_t TO_OPERATOR(char* p, uint64_t n, uint8_t unary);
static int is_op_char(char c) { return c == '+' || c == '-' || c == '*' || c == '/' || c == '%' || c == '<' || c == '>' || c == '=' || c == '!' || c == '&' || c == '|' || c == '^' || c == '~' || c == ':' || c == '.' || c == '?'; }
static int eq(const char* a, const char* lit) { unsigned i = 0; for (; i < N; i++) { if (lit[i] == 0 || a[i] != lit[i]) return 0; } return lit[i] == 0; }
int main(void) {
  char t[N ? N : 1]; for (unsigned i = 0; i < N; i++) { t[i] = (char)nondet_u8(); __CPROVER_assume(is_op_char(t[i])); }
  uint8_t unary = nondet_u8() & 1;
  uint32_t r = TO_OPERATOR(t, N, unary);
  int want = eq(t, "==") ? OP_equals : eq(t, "<") ? OP_less_than : eq(t, ">") ? OP_greater_than : eq(t, "<=") ? OP_less_than_equal : eq(t, ">=") ? OP_greater_than_equal :
             eq(t, "!=") ? OP_not_equal : eq(t, "=") ? OP_assign : eq(t, "++") ? OP_pre_increment : eq(t, "--") ? OP_pre_decrement : eq(t, "*=") ? OP_assign_product :
             eq(t, "+=") ? OP_assign_sum : eq(t, "/=") ? OP_assign_quotient : eq(t, "-=") ? OP_assign_difference : eq(t, "&=") ? OP_assign_bitwise_and : eq(t, "|=") ? OP_assign_bitwise_or :
             eq(t, "<<=") ? OP_assign_shift_left : eq(t, ">>=") ? OP_assign_shift_right : eq(t, "%=") ? OP_assign_remainder : eq(t, "^=") ? OP_assign_bitwise_xor :
             eq(t, "<<") ? OP_shift_left : eq(t, ">>") ? OP_shift_right : eq(t, "%") ? OP_remainder : eq(t, "&") ? OP_bitwise_and : eq(t, "|") ? OP_bitwise_or : eq(t, "^") ? OP_bitwise_xor :
             eq(t, "~") ? OP_bitwise_complement : eq(t, "+") ? (unary ? OP_unary_plus : OP_sum) : eq(t, "-") ? (unary ? OP_unary_minus : OP_difference) : eq(t, "/") ? OP_quotient :
             eq(t, "*") ? OP_product : OP_invalid;
  __CPROVER_assert((int)r == want, "C03: an operator spelling denotes the operation the language reference gives it, and nothing else is an operator");
  if (want != OP_invalid) __CPROVER_assert(0, "witness: operator"); else __CPROVER_assert(0, "witness: not an operator");
  return 0;
}
