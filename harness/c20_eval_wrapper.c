/* C20 E3 / C10 X2: the real AST_Node_Impl<T>::eval - the wrapper every node evaluation goes through - with the node's eval_internal an
   abstract step that returns a value or throws (eval_error, std::runtime_error, a Boxed_Value, a foreign type).
   Asserted: a value passes through; an eval_error leaves as the very same object after exactly ONE trace entry for THIS node was appended
   to ITS call_stack (so the stack lists the active nodes innermost first, by induction over the nesting of eval calls); every other
   exception leaves unchanged and untouched.  AST_Node_Trace's constructor and vector::push_back are recorders. */
#define NNODES 2
#include "node_model.h"
static int n_trace, n_push; static char* trace_of; static char* trace_obj; static char* push_vec; static char* push_arg;
void TRACE_CTOR(char* self, char* node) { n_trace++; trace_of = node; trace_obj = self; }
void TRACE_DTOR(char* self) { }
void TRACE_PUSH(char* vec, char* t) { n_push++; push_vec = vec; push_arg = t; }
static int n_internal; static char tracer_obj[8];
static void node_eval_internal(char* sret, char* self, char* st) {
  n_internal++; int b = behav[0];
  if (b == B_RET) { ((struct BV*)sret)->p = valpool[0]; ((struct BV*)sret)->pn = 0; return; }
  child_throw(b, TI_EVAL_ERROR, TI_BOXED_VALUE);
}
static char* parser_get_tracer(char* self) { return tracer_obj; }
static char* node_vtable[12] = { (char*)node_eval_internal, (char*)node_eval_internal, (char*)node_eval_internal, (char*)node_eval_internal, (char*)node_eval_internal, (char*)node_eval_internal,
                                 (char*)node_eval_internal, (char*)node_eval_internal, (char*)node_eval_internal, (char*)node_eval_internal, (char*)node_eval_internal, (char*)node_eval_internal };
static char* parser_vtable[12] = { (char*)parser_get_tracer, (char*)parser_get_tracer, (char*)parser_get_tracer, (char*)parser_get_tracer, (char*)parser_get_tracer, (char*)parser_get_tracer,
                                   (char*)parser_get_tracer, (char*)parser_get_tracer, (char*)parser_get_tracer, (char*)parser_get_tracer, (char*)parser_get_tracer, (char*)parser_get_tracer };
void NODE_EVAL(char* sret, char* self, char* st);
int main(void) {
  { unsigned b = nondet_u32(); __CPROVER_assume(b < B_NKINDS); behav[0] = (int)b; }
  nodes[0].vptr = (char*)node_vtable; nodes[0].text.p = nodes[0].text.buf;
  static struct { char* vptr; } parser; parser.vptr = (char*)parser_vtable;
  static char engine[SZ_Dispatch_Engine] __attribute__((aligned(8))); *(char**)(engine + OFF_DE_parser) = (char*)&parser;
  static char* state[4]; state[0] = engine;
  struct BV out = { 0, 0 };
  NODE_EVAL((char*)&out, (char*)&nodes[0], (char*)state);
  __CPROVER_assert(n_internal == 1, "C03: evaluating a node runs its evaluation exactly once");
  if (behav[0] == B_RET) { __CPROVER_assert(!__exc_pending && out.p == valpool[0] && n_push == 0, "C03: the node's value passes through"); __CPROVER_assert(0, "witness: value"); }
  else {
    __CPROVER_assert(__exc_pending && __exc_obj == thrown_obj, "C10: an exception raised while evaluating a node leaves it as the very same object");
    if (behav[0] == B_EVAL_ERROR) {
      __CPROVER_assert(n_trace == 1 && trace_of == (char*)&nodes[0] && n_push == 1 && push_arg == trace_obj, "C20: an eval_error picks up exactly one call-stack entry for the node it passes through, describing that node");
      __CPROVER_assert(push_vec == thrown_obj + OFF_EE_call_stack, "C20: the entry is appended to that error's own call stack (innermost first, by induction over nested evaluations)");
      __CPROVER_assert(0, "witness: eval_error traced");
    } else { __CPROVER_assert(n_trace == 0 && n_push == 0, "C10: other exceptions pass through untouched"); __CPROVER_assert(0, "witness: other exception"); }
  }
  return 0;
}
