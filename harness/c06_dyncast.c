/* C06 D6: the down-cast half of a registered polymorphic base-class conversion - the real detail::Dynamic_Caster<Base, Derived>::cast on a box whose
   static type is Base and whose object has a symbolic DYNAMIC type (Base itself, Derived, another class derived from Base), for all four
   storage forms: held by shared_ptr or by reference, const or not.  The typed extraction of the Base object (Cast_Helper_Inner<...Base...>::cast)
   hands out the stored object; __dynamic_cast is the C++ runtime's (returns the object iff its dynamic type is Derived); constructing the
   resulting Boxed_Value is a recorder.
   Asserted: a Derived is handed on only when the object really IS a Derived - otherwise std::bad_cast, nothing is constructed; the result refers
   to the very same object, keeps constness, and shares ownership with the source when it was owned; a box of another static type is refused
   (bad_boxed_dynamic_cast). */
#include "layout.h"
#include "bv_model.h"
#include "verif_rt.h"
enum { DYN_BASE = 0, DYN_DERIVED, DYN_OTHER };
static struct { char* vptr; int32_t b; int32_t d; } obj; static struct { char* vptr; uint32_t use, weak; } cb;
static int dyn, is_ptr, is_const, static_is_base;
static struct verif_ti ti_other = {0, "*other"};
static struct bv_data src_data; static struct BV src = { (char*)&src_data, 0 };
static int n_extract, extract_kind;
char* CAST_CREF(char* bv, char* conv) { n_extract++; extract_kind = 1; return (char*)&obj; }
char* CAST_REF(char* bv, char* conv) { n_extract++; extract_kind = 2; return (char*)&obj; }
void CAST_SP_CONST(char* sret, char* bv, char* conv) { n_extract++; extract_kind = 3; ((struct BV*)sret)->p = (char*)&obj; ((struct BV*)sret)->pn = (char*)&cb; cb.use++; }
void CAST_SP(char* sret, char* bv, char* conv) { n_extract++; extract_kind = 4; ((struct BV*)sret)->p = (char*)&obj; ((struct BV*)sret)->pn = (char*)&cb; cb.use++; }
char* F___dynamic_cast(char* p, char* srcti, char* dstti, uint64_t hint) { __CPROVER_assert(p == (char*)&obj && srcti == (char*)&g__ZTIN11verif_types4BaseE && dstti == (char*)&g__ZTIN11verif_types7DerivedE, "C06: the down-cast asks the runtime whether THIS object is a Derived");
  return dyn == DYN_DERIVED ? p : (char*)0; }
void F___cxa_bad_cast(void) { char* o = F___cxa_allocate_exception(8); F___cxa_throw(o, (char*)&g__ZTISt8bad_cast, 0); }
static int n_made, made_kind; static char* made_obj; static char* made_cb;
void MK_SP_CONST(char* self, char* sp, uint8_t rv) { n_made++; made_kind = 3; made_obj = ((struct BV*)sp)->p; made_cb = ((struct BV*)sp)->pn; ((struct BV*)sp)->p = 0; ((struct BV*)sp)->pn = 0;      /* the share moves into the new box */ ((struct BV*)self)->p = (char*)&n_made; ((struct BV*)self)->pn = 0; }
void MK_SP(char* self, char* sp, uint8_t rv) { n_made++; made_kind = 4; made_obj = ((struct BV*)sp)->p; made_cb = ((struct BV*)sp)->pn; ((struct BV*)sp)->p = 0; ((struct BV*)sp)->pn = 0; ((struct BV*)self)->p = (char*)&n_made; ((struct BV*)self)->pn = 0; }
void MK_CREF(char* self, char* rw, uint8_t rv) { n_made++; made_kind = 1; made_obj = *(char**)rw; made_cb = 0; ((struct BV*)self)->p = (char*)&n_made; ((struct BV*)self)->pn = 0; }
void MK_REF(char* self, char* rw, uint8_t rv) { n_made++; made_kind = 2; made_obj = *(char**)rw; made_cb = 0; ((struct BV*)self)->p = (char*)&n_made; ((struct BV*)self)->pn = 0; }
void BAD_DYN_CAST_CTOR(char* self, char* ti, char* to, char* what) { }
void F__ZNSt8bad_castD1Ev(char* s) { }
char* __VERIF_exc_type(void);
void DYN_CAST(char* sret, char* from);
int main(void) {
  dyn = nondet_u8() % 3; is_ptr = nondet_u8() & 1; is_const = nondet_u8() & 1; static_is_base = nondet_u8() & 1;
  /* the box: static (bare) type Base or something else; is_pointer() = the object is held by a smart pointer (!m_is_ref); constness from the Type_Info flags */
  D_BARE_TI(&src_data) = static_is_base ? (char*)&g__ZTIN11verif_types4BaseE : (char*)&ti_other; D_TI(&src_data) = D_BARE_TI(&src_data);
  D_FLAGS(&src_data) = is_const ? TIF_const : 0; D_IS_REF(&src_data) = is_ptr ? 0 : 1; D_CPTR(&src_data) = &obj; D_PTR(&src_data) = is_const ? (void*)0 : (void*)&obj;
  cb.use = 1; cb.weak = 1; struct BV out = { 0, 0 };
  DYN_CAST((char*)&out, (char*)&src);
  if (!static_is_base) { __CPROVER_assert(__exc_pending && __VERIF_exc_type() == TI_BAD_BOXED_DYNAMIC_CAST && n_made == 0 && n_extract == 0, "C06: a box whose type is not the registered base class is refused"); __CPROVER_assert(0, "witness: other static type"); return 0; }
  __CPROVER_assert(n_extract == 1 && extract_kind == (is_ptr ? (is_const ? 3 : 4) : (is_const ? 1 : 2)), "C07: the Base object is taken out in the form that matches how it is held and its constness (a const object only through a const form)");
  if (dyn != DYN_DERIVED) {
    __CPROVER_assert(__exc_pending && __VERIF_exc_type() == (char*)&g__ZTISt8bad_cast && n_made == 0, "C06: an object that is not a Derived is never handed on as a Derived (std::bad_cast; boxed_cast reports bad_boxed_cast)");
    __CPROVER_assert(0, "witness: wrong dynamic type refused"); return 0; }
  __CPROVER_assert(!__exc_pending && n_made == 1 && made_obj == (char*)&obj && made_kind == extract_kind, "C06: the converted value is the very same object, in the same storage form and constness");
  if (is_ptr) __CPROVER_assert(made_cb == (char*)&cb && cb.use == 2, "C11: a converted shared object shares ownership with its source: one share for the source box, one for the new one, none leaked");
  __CPROVER_assert(0, "witness: down-cast succeeds");
  return 0;
}
