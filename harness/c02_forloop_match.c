/* C02 O7: when does the For_Loop pass replace a loop by its compiled closure?  The real optimizer::For_Loop::optimize on a heap tree
   for( A ; B ; C ) body  with symbolic node kinds, child counts, identifier/operator texts and constant types.
   make_compiled_node is a recorder of (original node, body vector, closure object).  Oracle (independent of the pass): the closure
   (whose behaviour is decided by C11 L2 / C02: counts an int from start while < end, ++ by one) stands for the loop only if the header is
   exactly  `var x = <int constant>; x < <int constant>; ++x`  over ONE variable name; then the closure must have captured that name and
   those two values and the body must be handed over as the only child.  Everything else must come back untouched. */
#define NNODES 10
#include "node_model.h"
extern struct verif_ti g__ZTIi;
static struct verif_ti ti_other = {0, "*other"}, ti_double = {0, "*d"};
static struct bv_data cdata[2]; static int32_t cval[2]; static int c_is_int[2];
struct cnode { struct node n; struct BV value; };
static struct cnode cn[2];          /* the two Constant nodes (begin, end) */
char* F___dynamic_cast(char* p, char* src, char* dst, int64_t hint) {
  if (dst == TI_CONSTANT_NODE) return ((struct node*)p)->identifier == AST_Constant ? p : (char*)0;
  return 0;
}
uint32_t BOXED_CAST_INT(char* bv, char* conv) { struct bv_data* d = (struct bv_data*)((struct BV*)bv)->p; __CPROVER_assert(D_BARE_TI(d) == (char*)&g__ZTIi, "C02: a loop bound is read as int only when it is an int"); return *(uint32_t*)D_CPTR(d); }
struct closure { struct sso_string id; int32_t start; int32_t end; };
static int n_compiled; static char* c_orig; static char* c_body[2]; static uint64_t c_nbody; static struct closure c_closure; static char c_id[3]; static uint64_t c_idn; static struct node compiled_node;
void MAKE_COMPILED(char* sret, char* orig_uptr, char* children, char* callable) {
  n_compiled++; c_orig = *(char**)orig_uptr; *(char**)orig_uptr = 0; struct vec3* v = (struct vec3*)children; c_nbody = (v->b == v->e) ? 0 : (uint64_t)((char**)v->e - (char**)v->b);
  for (unsigned i = 0; i < 2; i++) if (i < c_nbody) c_body[i] = ((char**)v->b)[i];
  struct closure* c = (struct closure*)callable; c_closure.start = c->start; c_closure.end = c->end; c_idn = c->id.n; for (int i = 0; i < 3; i++) c_id[i] = (i < 2 && (uint64_t)i < c->id.n) ? c->id.p[i] : 0;
  *(char**)sret = (char*)&compiled_node;
}
static int n_deleted;
static void node_deleter(char* self) { n_deleted++; }
static char* node_vtable[10] = { (char*)node_deleter, (char*)node_deleter, (char*)node_deleter, (char*)node_deleter, (char*)node_deleter, (char*)node_deleter, (char*)node_deleter, (char*)node_deleter, (char*)node_deleter, (char*)node_deleter };
#include STUBS_H
static char** kids[NNODES]; static int nk[NNODES];
static struct node* N(int i) { return i == 6 ? &cn[0].n : i == 8 ? &cn[1].n : &nodes[i]; }
static void set_kids(int n, int count, int first) {
  nk[n] = count; char** s = (char**)malloc((count ? count : 1) * sizeof(char*)); kids[n] = s;
  for (int i = 0; i < count; i++) s[i] = (char*)N(first + i);
  N(n)->children.b = (char*)s; N(n)->children.e = (char*)(s + count); N(n)->children.c = N(n)->children.e;
}
static void sym_text(struct node* n) { unsigned l = nondet_u8() % 3; n->text.p = n->text.buf; n->text.n = l; n->text.buf[0] = l > 0 ? (char)nondet_u8() : 0; n->text.buf[1] = l > 1 ? (char)nondet_u8() : 0; n->text.buf[2] = 0; }
static int text_is(struct node* n, const char* s) { unsigned l = s[1] ? 2 : 1; return n->text.n == l && n->text.buf[0] == s[0] && (l == 1 || n->text.buf[1] == s[1]); }
static int text_eq(struct node* a, struct node* b) { return a->text.n == b->text.n && (a->text.n < 1 || a->text.buf[0] == b->text.buf[0]) && (a->text.n < 2 || a->text.buf[1] == b->text.buf[1]); }
void OPTIMIZE(char* sret, char* self, char* node_uptr);
int main(void) {
  for (int i = 0; i < NNODES; i++) { struct node* n = N(i); int k = nondet_i32(); __CPROVER_assume(k >= 0 && k < AST_Compiled); n->identifier = k; n->vptr = (char*)node_vtable; sym_text(n); n->children.b = n->children.e = n->children.c = 0; }
  for (int j = 0; j < 2; j++) { unsigned ck = nondet_u8() % 3; c_is_int[j] = ck == 0; cval[j] = nondet_i32(); D_BARE_TI(&cdata[j]) = ck == 0 ? (char*)&g__ZTIi : ck == 1 ? (char*)&ti_double : (char*)&ti_other; D_TI(&cdata[j]) = D_BARE_TI(&cdata[j]); D_FLAGS(&cdata[j]) = ck < 2 ? TIF_arithmetic : 0;   /* int / another arithmetic type / not a number */ D_CPTR(&cdata[j]) = &cval[j]; D_PTR(&cdata[j]) = 0; cn[j].value.p = (char*)&cdata[j]; cn[j].value.pn = 0; }
  /* for(0) -> [1 eq, 2 binary, 3 prefix, 4 body] (parser invariant: a For node has exactly these four children; empty parts are Noop nodes) */
  set_kids(0, 4, 1);
  set_kids(1, NEQ, 5);          /* eq -> [5 id, 6 constant] (NEQ of them) */
  set_kids(2, NBIN, 7);         /* binary -> [7 id, 8 constant] */
  set_kids(3, NPRE, 9);         /* prefix -> [9 id] */
  char* in = (char*)&nodes[0]; char* out = 0; char pass_obj[1];
  OPTIMIZE((char*)&out, pass_obj, (char*)&in);
  __CPROVER_assert(!__exc_pending, "C02: the pass does not fail");
  int header_ok = nodes[0].identifier == AST_For
    && nodes[1].identifier == AST_Assign_Decl && NEQ == 2 && nodes[5].identifier == AST_Id && cn[0].n.identifier == AST_Constant
    && nodes[2].identifier == AST_Binary && text_is(&nodes[2], "<") && NBIN == 2 && nodes[7].identifier == AST_Id && cn[1].n.identifier == AST_Constant
    && nodes[3].identifier == AST_Prefix && text_is(&nodes[3], "++") && NPRE == 1 && nodes[9].identifier == AST_Id
    && text_eq(&nodes[7], &nodes[5]) && text_eq(&nodes[9], &nodes[5]) && c_is_int[0] && c_is_int[1];
  if (n_compiled) {
    __CPROVER_assert(header_ok, "C02: a for loop is compiled only when its header is exactly `var x = <int>; x < <int>; ++x` over one variable");
    __CPROVER_assert(n_compiled == 1 && out == (char*)&compiled_node && c_orig == (char*)&nodes[0], "C02: the compiled node wraps the original For node");
    __CPROVER_assert(c_nbody == 1 && c_body[0] == (char*)&nodes[4], "C02: the loop body is handed to the compiled node as its only child");
    __CPROVER_assert(c_closure.start == cval[0] && c_closure.end == cval[1], "C02: the closure counts from the declared start value to the compared end value");
    __CPROVER_assert(c_idn == nodes[5].text.n && c_id[0] == nodes[5].text.buf[0] && c_id[1] == nodes[5].text.buf[1], "C02: the closure declares the loop variable under its own name");
    __CPROVER_assert(nodes[0].children.b == (char*)kids[0] && nodes[0].children.e == (char*)(kids[0] + 3) && kids[0][0] == (char*)&nodes[1] && kids[0][1] == (char*)&nodes[2] && kids[0][2] == (char*)&nodes[3], "C02: the original node keeps its three header children");
    __CPROVER_assert(n_deleted == 0, "C02: nothing is destroyed");
    __CPROVER_assert(0, "witness: compiled");
  } else {
    __CPROVER_assert(out == (char*)&nodes[0] && nodes[0].children.b == (char*)kids[0] && nodes[0].children.e == (char*)(kids[0] + 4), "C02: a loop that is not compiled is returned untouched");
    for (int i = 0; i < 4; i++) __CPROVER_assert(kids[0][i] == (char*)N(1 + i), "C02: untouched children");
    __CPROVER_assert(n_deleted == 0, "C02: nothing is destroyed");
    if (header_ok) __CPROVER_assert(0, "witness: not compiled although eligible"); else __CPROVER_assert(0, "witness: unchanged");
  }
  return 0;
}
