/* C03 S3b: associativity and operand structure of operator chains - ONE LEVEL of the real recursive ChaiScript_Parser::Operator(level),
   entered at level L.  The recursive calls go through the translator's self-call hook: a call for level L+1 is the induction hypothesis ("parses
   one operand made of tighter-binding operators and pushes its node"), a call for level L again (the branches of the conditional) runs the real
   function again, a call for ANY OTHER level is a violation - so every level parses its operands exactly one level tighter, which with the
   table of S3/S3c is precedence climbing.  At the last level (Prefix) the operand is Value().
   The input is a TOKEN STREAM MODEL indexed by position = number of operands consumed so far: at position k an operand can be parsed or not
   (value_ok[k]); after operand k there is an operator of this level (op_after[k], spelling op_text[k]), a ':' (colon_after[k]) or neither - asking
   twice at the same position gives the same answer.  At most two operators in the stream (bound).  Operator_Helper (inlined; the stub is the
   any_of call in it), Value(), Symbol(":"), build_match<Node>(prev_top, text) (recorder: replaces the stack entries from prev_top on by one
   new node) are contract stubs.
   Asserted against a reference parser of the C grammar written here:
     binary levels:   a op1 b op2 c  is  ((a op1 b) op2 c); levels 3..10 build Binary_Operator nodes, 2 Logical_And, 1 Logical_Or, each with its own spelling
     conditional:     cond := operand [ '?' cond ':' cond ]  - three children; a ? b : c ? d : e is a ? b : (c ? d : e) (right associative) and
                      a ? b ? c : d : e is a ? (b ? c : d) : e (the middle operand is a full conditional), as in C
     an operator without its operand, or '?' without ':', is eval_error; nothing is built when no operator follows; "parsed" iff the first operand
     parsed; exactly one node remains on the match stack; parse depth balanced. */
#include "parser_model.h"
#define NV 6
static struct { char* vptr; char pad[SZ_Node]; } vnodes[NV], built[3];
static char* slots[8]; static int n_slots;
static void sync(char* self) { PM(self)->match_stack.b = (char*)&slots[0]; PM(self)->match_stack.e = (char*)&slots[n_slots]; PM(self)->match_stack.c = (char*)&slots[8]; }
static int n_values, n_helper, value_ok[NV], op_after[NV], colon_after[NV]; static char op_text[NV]; static int rec_depth, q[4];
static int depth; void DC_CTOR(char* self, char* parser) { *(char**)self = parser; depth++; } void DC_DTOR(char* self) { depth--; }
uint8_t VALUE(char* self) { int i = n_values < NV ? n_values : NV - 1; if (n_values >= NV || !value_ok[i]) return 0; n_values++; if (n_slots < 8) slots[n_slots] = (char*)&vnodes[i]; n_slots++; sync(self); return 1; }
uint8_t HELPER(char* matches, uint64_t level, char* closure) {
  char* oper = *(char**)closure; n_helper++;
  if (level != LEVEL) return 0;                                   /* no operator of a tighter level follows (one level at a time) */
  /* q[frame] counts the queries of the current Operator(L) frame concretely (it cannot differ between merged paths), so the unrolling of the operator loop is
     bounded syntactically; that a third query of one frame is never answered "yes" follows from the total of two operators and is asserted, not assumed */
  int j = q[rec_depth] < 2 ? q[rec_depth] : 2; q[rec_depth] = j + 1;
  int k = n_values - 1; int yes = k >= 0 && k < NV && op_after[k];
  if (j >= 2) { __CPROVER_assert(!yes, "MODEL: the per-frame bound on operator matches is implied by the total number of operators"); return 0; }
  if (!yes) return 0;
  struct sso_string* s = (struct sso_string*)oper; s->p = s->buf; s->n = 1; s->buf[0] = op_text[k]; s->buf[1] = 0; return 1; }
uint8_t EOL(char* self) { return 0; }
uint8_t SYMBOL(char* self, char* sym, uint8_t disallow) { int k = n_values - 1; return (uint8_t)(k >= 0 && k < NV && colon_after[k]); }
void EE_CTOR3(char* self, char* why, char* where, char* fname) { eval_error_ctor_calls++; }
enum { BK_BINARY = 1, BK_AND, BK_OR, BK_IF };
static int n_built, b_kind[3], b_n[3]; static uint64_t b_top[3]; static char* b_child[3][3]; static char b_text[3];
static void record(char* self, int kind, uint64_t top, char* text) {
  int j = n_built < 3 ? n_built : 2; n_built++; b_kind[j] = kind; b_top[j] = top; b_n[j] = n_slots - (int)top; for (int c = 0; c < 3; c++) b_child[j][c] = (top + c < (uint64_t)n_slots && top + c < 8) ? slots[top + c] : 0;
  b_text[j] = text ? ((struct sso_string*)text)->p[0] : 0;
  if (top < 8) slots[top] = (char*)&built[j]; n_slots = (int)top + 1; sync(self); }
#include STUBS_H
uint8_t OPERATOR(char* self, uint64_t level);
uint8_t operator_rec(char* self, uint64_t level) {
  if (level == LEVEL + 1) return VALUE(self);                       /* induction hypothesis: one operand of the tighter levels */
  __CPROVER_assert(level == LEVEL && LEVEL == 0, "C03: operands are parsed at the next tighter level (only the branches of the conditional at its own level)");
  if (level != LEVEL) { __CPROVER_assume(0); return 0; }
  if (rec_depth >= 2) { __CPROVER_assert(0, "BOUND: more nested conditionals than the stream has operators"); __CPROVER_assume(0); return 0; }
  rec_depth++; q[rec_depth] = 0; uint8_t r = OPERATOR(self, level); rec_depth--; return r;
}
/* ---- reference parser (C grammar) over the same stream; nodes are named like the recorder names them: operands by position, built nodes in post-order */
static int r_pos, r_built, r_err; static char* r_child[3][3]; static char r_text[3];
static char* ref_cond(int d) {
  if (r_pos >= NV || !value_ok[r_pos]) return 0;
  char* a = (char*)&vnodes[r_pos]; r_pos++;
  if (d >= 3 || !op_after[r_pos - 1]) return a;
  char* t = ref_cond(d + 1); if (!t || r_err) { r_err = 1; return a; }
  if (!colon_after[r_pos - 1]) { r_err = 1; return a; }
  char* e = ref_cond(d + 1); if (!e || r_err) { r_err = 1; return a; }
  int j = r_built < 3 ? r_built : 2; r_built++; r_child[j][0] = a; r_child[j][1] = t; r_child[j][2] = e; return (char*)&built[j]; }
static char* ref_binary(void) {
  if (!value_ok[0]) return 0;
  char* acc = (char*)&vnodes[0]; r_pos = 1;
  for (int i = 0; i < 2; i++) { if (!op_after[r_pos - 1]) break; char t = op_text[r_pos - 1]; if (r_pos >= NV || !value_ok[r_pos]) { r_err = 1; break; }
    int j = r_built; r_built++; r_child[j][0] = acc; r_child[j][1] = (char*)&vnodes[r_pos]; r_child[j][2] = 0; r_text[j] = t; r_pos++; acc = (char*)&built[j]; }
  return acc; }
char* __VERIF_exc_type(void);
int main(void) {
  static struct parser_model PMODEL; char* parser = (char*)&PMODEL; static char buf[4]; parser_init(parser, buf, 4, 0, 1, 1, 1);
  static char* pre = (char*)0; n_slots = 1; slots[0] = (char*)&pre;            /* something already on the match stack: prev_stack_top = 1 */
  sync(parser);
  int nops = 0;
  for (int i = 0; i < NV; i++) { value_ok[i] = nondet_u8() & 1; op_after[i] = nondet_u8() & 1; colon_after[i] = nondet_u8() & 1; op_text[i] = (char)nondet_u8(); nops += op_after[i];
    __CPROVER_assume(!(op_after[i] && colon_after[i])); }                          /* one token follows an operand */
  __CPROVER_assume(nops <= 2);                                                     /* bound: at most two operators of this level in the stream */
  uint8_t r = OPERATOR(parser, LEVEL);
  __CPROVER_assert(depth == 0, "C01: the parse depth counter is balanced");
#if LEVEL == 11
  __CPROVER_assert(!__exc_pending && n_helper == 0 && n_built == 0 && (r & 1) == (value_ok[0] & 1) && n_slots == 1 + (value_ok[0] & 1), "C03: at the tightest level an expression is exactly one Value()");
  if (r & 1) __CPROVER_assert(0, "witness: plain operand"); else __CPROVER_assert(0, "witness: no operand");
  return 0;
#endif
#if LEVEL == 0
  char* want = ref_cond(0);
#else
  char* want = ref_binary();
#endif
  if (!want) { __CPROVER_assert(!__exc_pending && !(r & 1) && n_built == 0 && n_slots == 1, "C03: no operand, no expression; the match stack is untouched"); __CPROVER_assert(0, "witness: no operand"); return 0; }
  if (r_err) { __CPROVER_assert(__exc_pending && __VERIF_exc_type() == (char*)&g__ZTIN10chaiscript9exception10eval_errorE, "C03: an operator without its operand(s), or a conditional without ':', is a syntax error (eval_error) - and only that is"); __CPROVER_assert(0, "witness: incomplete expression"); return 0; }
  __CPROVER_assert(!__exc_pending && (r & 1), "C03: every expression of the C grammar at this level is accepted");
  __CPROVER_assert(n_built == r_built && n_slots == 2 && slots[1] == want && n_values == r_pos, "C03: the expression becomes ONE node on the match stack - the one the C grammar gives - and exactly its tokens are consumed");
  const int want_kind = LEVEL == 0 ? BK_IF : LEVEL == 1 ? BK_OR : LEVEL == 2 ? BK_AND : BK_BINARY;
  for (int j = 0; j < 2; j++) if (j < r_built) {
    __CPROVER_assert(b_kind[j] == want_kind, "C03: each operator of the level builds the node kind of that level");
#if LEVEL == 0
    __CPROVER_assert(b_n[j] == 3 && b_child[j][0] == r_child[j][0] && b_child[j][1] == r_child[j][1] && b_child[j][2] == r_child[j][2],
                     "C03: c ? a : b has exactly the children condition, then-value, else-value; a conditional after ':' belongs to the else branch (right associativity), one after '?' to the then branch, as in C");
#else
    __CPROVER_assert(b_n[j] == 2 && b_child[j][0] == r_child[j][0] && b_child[j][1] == r_child[j][1], "C03: binary operators of one level associate to the left: (a op1 b) op2 c");
    __CPROVER_assert(b_text[j] == r_text[j], "C03: each operator node carries the spelling of its own operator");
#endif
  }
  if (r_built == 2) {
#if LEVEL == 0
    if (r_child[1][2] == (char*)&built[0]) __CPROVER_assert(0, "witness: conditional in the else branch"); else __CPROVER_assert(0, "witness: conditional in the then branch");
#else
    __CPROVER_assert(0, "witness: chain of two");
#endif
  } else if (r_built == 1) __CPROVER_assert(0, "witness: one operator"); else __CPROVER_assert(0, "witness: plain operand");
  return 0;
}
