/* C03 S3b: associativity and operand structure of binary operator chains - ONE LEVEL of the real recursive ChaiScript_Parser::Operator(level),
   entered at level L.  The recursive calls go through the translator's self-call hook: a call for level L+1 is the induction hypothesis ("parses
   one operand made of tighter-binding operators and pushes its node", oracle), a call for level L again (the else branch of the conditional) runs
   the real function again (nesting bounded by the two operators of the harness), a call for ANY OTHER level is a violation - so every level
   parses its operands exactly one level tighter, which with the table of S3 is precedence climbing.  At the last level (Prefix) the operand is Value().
   The token-level pieces are contract stubs: Operator_Helper(level) matches an operator of THIS level (oracle: up to two in a
   row, texts symbolic) and none at the tighter levels below it, Value() parses one operand (or fails, oracle) and pushes its node,
   build_match<Node>(prev_top, text) is a recorder that replaces the stack entries from prev_top on by one new node, ':' of the ternary is an oracle.
   Asserted: `a op1 b op2 c` is built as ((a op1 b) op2 c) - each operator node gets exactly [everything built so far at this level, the next
   operand] and the text of its own operator; levels 3..10 build Binary_Operator nodes, level 2 Logical_And, level 1 Logical_Or, level 0 the
   ternary If with three children, associating to the RIGHT as in C (a ? b : c ? d : e is a ? b : (c ? d : e)); an operator without right operand is an eval_error; nothing is built when no operator follows; the result
   is "parsed" iff the first operand parsed; parse depth is balanced. */
#include "parser_model.h"
#define NV 6
static struct { char* vptr; char pad[SZ_Node]; } vnodes[NV], built[3];
static char* slots[8]; static int n_slots;
static void sync(char* self) { PM(self)->match_stack.b = (char*)&slots[0]; PM(self)->match_stack.e = (char*)&slots[n_slots]; PM(self)->match_stack.c = (char*)&slots[8]; }
static int n_values, value_ok[NV], n_ops, op_present[3]; static char op_text[3]; static int rec_depth, q[4];
static int depth; void DC_CTOR(char* self, char* parser) { *(char**)self = parser; depth++; } void DC_DTOR(char* self) { depth--; }
uint8_t VALUE(char* self) { int i = n_values < NV ? n_values : NV - 1; n_values++; if (!value_ok[i]) return 0; if (n_slots < 8) slots[n_slots] = (char*)&vnodes[i]; n_slots++; sync(self); return 1; }
/* Operator_Helper itself is inlined; its body is m_operator_matches.any_of(level, [&oper, this]{...}) - the stub stands for that call, the closure's first capture is &oper */
uint8_t HELPER(char* matches, uint64_t level, char* closure) {
  char* oper = *(char**)closure;
  if (level != LEVEL) return 0;                                   /* no operator of a tighter level follows (bound of this harness: one level at a time) */
  int i = n_ops < 3 ? n_ops : 2; n_ops++;
  /* q[frame] counts the queries of the current Operator(L) frame concretely (it cannot differ between merged paths), so the unrolling of the operator loop is
     bounded syntactically; that the third query of a frame is never answered "yes" follows from the total of two operators and is asserted, not assumed */
  int j = q[rec_depth] < 2 ? q[rec_depth] : 2; q[rec_depth] = j + 1;
  if (j >= 2) { __CPROVER_assert(i >= 2, "MODEL: the per-frame bound on operator matches is implied by the total number of operators"); return 0; }
  if (i >= 2 || !op_present[i]) return 0;
  struct sso_string* s = (struct sso_string*)oper; s->p = s->buf; s->n = 1; s->buf[0] = op_text[i]; s->buf[1] = 0; return 1; }
uint8_t EOL(char* self) { return 0; }
static int colon_ok; uint8_t SYMBOL(char* self, char* sym, uint8_t disallow) { return (uint8_t)colon_ok; }
void EE_CTOR3(char* self, char* why, char* where, char* fname) { eval_error_ctor_calls++; }
enum { BK_BINARY = 1, BK_AND, BK_OR, BK_IF };
static int n_built, b_kind[3], b_n[3]; static uint64_t b_top[3]; static char* b_child[3][3]; static char b_text[3];
static void record(char* self, int kind, uint64_t top, char* text) {
  int j = n_built < 3 ? n_built : 2; n_built++; b_kind[j] = kind; b_top[j] = top; b_n[j] = n_slots - (int)top; for (int c = 0; c < 3; c++) b_child[j][c] = (top + c < (uint64_t)n_slots && top + c < 8) ? slots[top + c] : 0;
  b_text[j] = text ? ((struct sso_string*)text)->p[0] : 0;
  if (top < 8) slots[top] = (char*)&built[j]; n_slots = (int)top + 1; sync(self); }
#include STUBS_H
uint8_t OPERATOR(char* self, uint64_t level);
uint8_t operator_rec(char* self, uint64_t level) {
  if (level == LEVEL + 1) return VALUE(self);                       /* induction hypothesis: one operand of the tighter levels */
  __CPROVER_assert(level == LEVEL && LEVEL == 0, "C03: operands are parsed at the next tighter level (only the else branch of the conditional at its own level)");
  if (level != LEVEL) { __CPROVER_assume(0); return 0; }
  if (rec_depth >= 2) { __CPROVER_assert(0, "BOUND: more nested conditionals than the harness has operators"); __CPROVER_assume(0); return 0; }
  rec_depth++; q[rec_depth] = 0; uint8_t r = OPERATOR(self, level); rec_depth--; return r;
}
char* __VERIF_exc_type(void);
int main(void) {
  static struct parser_model PMODEL; char* parser = (char*)&PMODEL; static char buf[4]; parser_init(parser, buf, 4, 0, 1, 1, 1);
  static char* pre = (char*)0; n_slots = 1; slots[0] = (char*)&pre;            /* something already on the match stack: prev_stack_top = 1 */
  sync(parser);
  for (int i = 0; i < NV; i++) value_ok[i] = nondet_u8() & 1; for (int i = 0; i < 3; i++) { op_present[i] = nondet_u8() & 1; op_text[i] = (char)nondet_u8(); } colon_ok = nondet_u8() & 1;
  uint8_t r = OPERATOR(parser, LEVEL);
  __CPROVER_assert(depth == 0, "C01: the parse depth counter is balanced");
#if LEVEL == 11
  __CPROVER_assert(!__exc_pending && n_ops == 0 && n_built == 0 && n_values == 1 && (r & 1) == (value_ok[0] & 1) && n_slots == 1 + (value_ok[0] & 1), "C03: at the tightest level an expression is exactly one Value()");
  if (r & 1) __CPROVER_assert(0, "witness: plain operand"); else __CPROVER_assert(0, "witness: no operand");
  return 0;
#endif
  /* reference: a (op b)* at this level, ternary: a ? b : c */
  int nops = 0; for (int i = 0; i < 2; i++) { if (op_present[i]) nops++; else break; }
  if (!value_ok[0]) { __CPROVER_assert(!__exc_pending && !(r & 1) && n_built == 0 && n_slots == 1, "C03: no operand, no expression; the match stack is untouched"); __CPROVER_assert(0, "witness: no operand"); return 0; }
  int built_expect = 0, err = 0, vi = 1;
  for (int i = 0; i < nops && !err; i++) {
    if (!value_ok[vi]) { err = 1; break; } vi++;
#if LEVEL == 0
    if (!colon_ok) { err = 1; break; } if (!value_ok[vi]) { err = 1; break; } vi++;      /* the else branch starts with an operand */
#endif
    built_expect++;
  }
  if (err) { __CPROVER_assert(__exc_pending && __VERIF_exc_type() == (char*)&g__ZTIN10chaiscript9exception10eval_errorE, "C03: an operator without its operand(s) is a syntax error (eval_error)"); __CPROVER_assert(0, "witness: incomplete expression"); return 0; }
  __CPROVER_assert(!__exc_pending && (r & 1) && n_built == built_expect && n_slots == 2, "C03: a chain of operators of one level yields ONE expression node on the match stack");
  const int want_kind = LEVEL == 0 ? BK_IF : LEVEL == 1 ? BK_OR : LEVEL == 2 ? BK_AND : BK_BINARY;
  for (int j = 0; j < 2; j++) if (j < built_expect) {
#if LEVEL == 0
    /* C: the conditional operator associates to the RIGHT - a ? b : c ? d : e is a ? b : (c ? d : e); the innermost conditional is built first */
    int o = built_expect - 1 - j;
    __CPROVER_assert(b_kind[j] == BK_IF && b_top[j] == (uint64_t)(1 + 2 * o), "C03: each conditional builds a ternary node over its own condition, then-value and else-value");
    __CPROVER_assert(b_n[j] == 3 && b_child[j][0] == (char*)&vnodes[2 * o] && b_child[j][1] == (char*)&vnodes[2 * o + 1] && b_child[j][2] == (j == 0 ? (char*)&vnodes[2 * o + 2] : (char*)&built[j - 1]),
                     "C03: c ? a : b has exactly the children condition, then-value, else-value, and a conditional in the else position belongs to the else branch (right associativity, as in C)");
#else
    __CPROVER_assert(b_kind[j] == want_kind && b_top[j] == 1, "C03: each operator of the level builds the node kind of that level over everything parsed at this level so far");
    __CPROVER_assert(b_n[j] == 2 && b_child[j][0] == (j == 0 ? (char*)&vnodes[0] : (char*)&built[j - 1]) && b_child[j][1] == (char*)&vnodes[1 + j], "C03: binary operators of one level associate to the left: (a op1 b) op2 c");
    __CPROVER_assert(b_text[j] == op_text[j], "C03: each operator node carries the spelling of its own operator");
#endif
  }
  if (built_expect == 2) __CPROVER_assert(0, "witness: chain of two"); else if (built_expect == 1) __CPROVER_assert(0, "witness: one operator"); else __CPROVER_assert(0, "witness: plain operand");
  return 0;
}
