#ifndef BV_MODEL_H
#define BV_MODEL_H
/* Harness-side view of Boxed_Value / Boxed_Value::Data / Type_Info; all offsets from layout.h (compiler-derived). */
#include <stdint.h>
#include <string.h>
#include "layout.h"
struct BV { char* p; char* pn; };                 /* std::shared_ptr<Data>: object pointer, control block */
struct bv_data { char bytes[SZ_BV_Data] __attribute__((aligned(8))); };
#define D_TI(d)        (*(char**)((d)->bytes + OFF_Data_type_info + OFF_TI_type_info))
#define D_BARE_TI(d)   (*(char**)((d)->bytes + OFF_Data_type_info + OFF_TI_bare_type_info))
#define D_FLAGS(d)     (*(uint32_t*)((d)->bytes + OFF_Data_type_info + OFF_TI_flags))
#define D_PTR(d)       (*(void**)((d)->bytes + OFF_Data_data_ptr))
#define D_CPTR(d)      (*(const void**)((d)->bytes + OFF_Data_const_data_ptr))
#define D_ATTRS(d)     (*(char**)((d)->bytes + OFF_Data_attrs))
#define D_IS_REF(d)    (*(uint8_t*)((d)->bytes + OFF_Data_is_ref))
#define D_RETVAL(d)    (*(uint8_t*)((d)->bytes + OFF_Data_return_value))
#define D_ANY(d)       (*(char**)((d)->bytes + OFF_Data_obj))
struct sso_string { char* p; uint64_t n; char buf[16]; };
struct vec3 { char* b; char* e; char* c; };
uint8_t nondet_u8(void); uint16_t nondet_u16(void); uint32_t nondet_u32(void); uint64_t nondet_u64(void); int32_t nondet_i32(void); int64_t nondet_i64(void);
#endif
