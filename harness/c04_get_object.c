/* C04 L1: the real Dispatch_Engine::get_object(name, hint, holder) on a symbolic scope stack with an ARBITRARY hint of the
   documented shape (the per-node cache may have been written under any earlier scope layout, or by another thread).
   Shape: NS scopes with E0,E1,E2 entries; names are SSO strings of 1..2 symbolic bytes, distinct within a scope.
   The global/function tail (std::map, function tables) is a contract stub that returns a marker.
   Asserted: the result is the value of the innermost entry of that name if one exists, else the tail is consulted;
   no access outside the scope vectors (CBMC bounds checks on exactly-sized arrays). */
#include "layout.h"
#include "bv_model.h"
struct entry { struct sso_string name; struct BV val; };
struct scope { uint64_t cmp_; struct vec3 data; };
struct holder { struct vec3 stacks; struct vec3 call_params; uint64_t call_depth; };
_Static_assert(sizeof(struct entry) == SZ_Scope_Entry && offsetof(struct entry, val) == OFF_Entry_second && sizeof(struct scope) == SZ_Scope && offsetof(struct scope, data) == OFF_Scope_data &&
               offsetof(struct holder, stacks) == OFF_SH_stacks && offsetof(struct holder, call_params) == OFF_SH_call_params && sizeof(struct holder) == SZ_Stack_Holder, "scope/holder layout changed");
#ifndef NS
#define NS 2
#endif
#ifndef E0
#define E0 1
#endif
#ifndef E1
#define E1 1
#endif
#ifndef E2
#define E2 0
#endif
#define EMAX 3
static char marker[8]; static char vals[3 * EMAX][8];
static char engine[SZ_Dispatch_Engine] __attribute__((aligned(16)));
uint32_t F_pthread_rwlock_rdlock(char* l) { return 0; }
uint32_t F_pthread_rwlock_unlock(char* l) { return 0; }
int tail_taken;
/* the global table: whether a global of this name exists is the solver's choice (globals can be created at any time, also under a name that is a function) */
static int global_exists; static struct { char hdr[32]; struct sso_string key; struct BV val; } global_node; static char global_val[8];
char* MAPFIND(char* map, char* key) { tail_taken++; if (global_exists) { global_node.val.p = global_val; global_node.val.pn = 0; return (char*)&global_node; } return map + 8; /* == end(): the header node */ }
void GETFUNOBJ(char* sret, char* self, uint64_t len, char* ptr, uint64_t hint) { *(uint64_t*)sret = hint; ((struct BV*)(sret + 8))->p = marker; ((struct BV*)(sret + 8))->pn = 0; }
#ifdef COUNT
/* contract of QuickFlatMap::count(name): 1 iff some entry's key equals name (asserted on the real count/find by harness L2) */
uint64_t COUNT(char* scope, char* sv) {
  struct scope* s = (struct scope*)scope; uint64_t len = *(uint64_t*)sv; char* p = *(char**)(sv + 8);
  struct entry* b = (struct entry*)s->data.b; struct entry* e = (struct entry*)s->data.e;
  for (unsigned k = 0; k < EMAX; k++) if (b + k < e && b[k].name.n == len && b[k].name.buf[0] == p[0] && (len == 1 || b[k].name.buf[1] == p[1])) return 1;
  return 0;
}
#endif
void GET_OBJECT(char* sret, char* self, uint64_t len, char* ptr, char* t_loc, char* holder);
int main(void) {
  static struct entry ents[3][EMAX]; static struct scope scopes[NS]; static struct vec3 stackdata[1]; static struct holder H;
  const unsigned cnt[3] = { E0, E1, E2 };
  for (unsigned s = 0; s < NS; s++) {
    for (unsigned i = 0; i < EMAX; i++) if (i < cnt[s]) { struct entry* e = &ents[s][i]; e->name.p = e->name.buf; uint64_t n = nondet_u64(); __CPROVER_assume(n >= 1 && n <= 2); e->name.n = n;
      e->name.buf[0] = (char)nondet_u8(); e->name.buf[1] = (n == 2) ? (char)nondet_u8() : 0; e->name.buf[2] = 0; e->val.p = vals[s * EMAX + i]; e->val.pn = 0; }
    scopes[s].data.b = (char*)&ents[s][0]; scopes[s].data.e = (char*)&ents[s][cnt[s]]; scopes[s].data.c = (char*)&ents[s][EMAX];
    for (unsigned i = 0; i < EMAX; i++) for (unsigned j = 0; j < i; j++) if (i < cnt[s])            /* QuickFlatMap::insert keeps names distinct within a scope */
      __CPROVER_assume(!(ents[s][i].name.n == ents[s][j].name.n && ents[s][i].name.buf[0] == ents[s][j].name.buf[0] && ents[s][i].name.buf[1] == ents[s][j].name.buf[1]));
  }
  stackdata[0].b = (char*)&scopes[0]; stackdata[0].e = (char*)&scopes[NS]; stackdata[0].c = stackdata[0].e;
  H.stacks.b = (char*)&stackdata[0]; H.stacks.e = (char*)&stackdata[1]; H.stacks.c = H.stacks.e;
  char q[2]; uint64_t qn = nondet_u64(); __CPROVER_assume(qn >= 1 && qn <= 2); q[0] = (char)nondet_u8(); q[1] = (qn == 2) ? (char)nondet_u8() : 0;
  /* the hint: its KIND, scope depth and slot are enumerated shapes (symbolic double indexing cost 18M SAT variables);
     HK: 0 = no hint, 1 = "global/function" hint with arbitrary low bits, 2 = local hint.
     HD / HI / HLOW are concrete per shape (in-range values and out-of-range representatives): a symbolic hint makes symex
     explore the local fast path with symbolic indices even where an assumption excludes it. */
  uint64_t loc;
#if HK == 0
  loc = 0;
#elif HK == 1
  loc = 0x80000000ull | HLOW;                     /* "global/function" hint; low bits: cached function-table position */
#elif HK == 3
  loc = HLOW;                                     /* a bare function-table position (what the function tail writes back): no flag bits at all */
#else
  loc = 0xC0000000ull | ((uint64_t)HD << 16) | (uint64_t)HI;
#endif
  global_exists = nondet_u8() & 1;
  uint64_t loc_cell = loc; struct BV out = { 0, 0 };
  /* reference: innermost scope first */
  char* expect = 0; int exp_depth = -1, exp_idx = -1;
  for (int s = NS - 1; s >= 0; s--) for (unsigned i = 0; i < EMAX; i++) if (!expect && i < cnt[s]) {
    struct entry* e = &ents[s][i]; if (e->name.n == qn && e->name.buf[0] == q[0] && (qn == 1 || e->name.buf[1] == q[1])) { expect = e->val.p; exp_depth = NS - 1 - s; exp_idx = (int)i; } }
  GET_OBJECT((char*)&out, engine, qn, q, (char*)&loc_cell, (char*)&H);
  __CPROVER_assert(!__exc_pending, "C04: lookup of a name does not throw in the lookup itself");
  if (expect) {
    __CPROVER_assert(out.p == expect, "C04: a name resolves to its innermost live binding whatever the cached hint says");
    __CPROVER_assert(tail_taken == 0, "C04: a live local is found without consulting globals/functions");
    __CPROVER_assert(0, "witness: local binding exists");
  } else {
    __CPROVER_assert(tail_taken == 1 && out.p == (global_exists ? global_val : marker), "C04: a name with no live local binding goes to globals, then functions - a global of that name wins over a function whatever the cached hint says");
    if (global_exists) __CPROVER_assert(0, "witness: global found"); else __CPROVER_assert(0, "witness: no local binding");
  }
  if (expect && loc == 0) __CPROVER_assert(loc_cell == (0xC0000000ull | ((uint64_t)exp_depth << 16) | (uint64_t)exp_idx), "C04: the hint written back denotes the slot that was found");
  return 0;
}
