/* C13 K3: the conversions registry (Type_Conversions) under the lock model.  Real add_conversion / has_conversion / get_conversion /
   thread_cache / converts run on a red-black-tree image of m_conversions with 0..2 registered conversions (types, direction flags symbolic).
   The shared tables are VERSIONED AT THE LOCK BOUNDARY: while the mutex is not held their headers show a poison state (a begin() node whose
   traversal asserts, a wrong size); rdlock/wrlock install the real contents, unlock restores the poison - so any read of m_conversions or
   m_convertableTypes made before the lock is taken or after it is released reaches an assertion, not only the calls that are stubs.
   Asserted: lookups read m_conversions with the mutex held (shared suffices), add_conversion searches AND inserts under ONE unique hold,
   rejects an existing conversion in either direction (bidirectional ones also reversed) without inserting, otherwise inserts the conversion and
   its two bare types and publishes m_num_types == m_convertableTypes.size() before the lock is released (that is what makes other threads'
   caches refresh: "every thread sees each conversion once its registration has returned"); thread_cache() returns the calling thread's own
   cache - never the shared table - refreshed under a shared hold exactly when its size differs from m_num_types; converts() consults only the
   thread's cache and then has_conversion; results equal the reference predicate; every exit leaves the lock released. */
#include "layout.h"
#include "bv_model.h"
enum { UNLOCKED = 0, SHARED = 1, UNIQUE = 2 };
static char tc[SZ_Type_Conversions] __attribute__((aligned(16)));
#define THE_MUTEX (tc + OFF_TC_mutex)
#define CONVS (tc + OFF_TC_conversions)
#define TYPES (tc + OFF_TC_types)
#define NUM_TYPES (*(uint64_t*)(tc + OFF_TC_num_types))
/* libstdc++ std::set image: +0 comparator, +8 header {color, parent, left, right}, +40 node count */
#define SET_BEGIN(s) (*(char**)((s) + 24))
#define SET_END(s) ((s) + 8)
#define SET_COUNT(s) (*(uint64_t*)((s) + 40))
_Static_assert(OFF_TC_types - OFF_TC_conversions == 48 && OFF_TC_num_types - OFF_TC_types == 48, "std::set is 48 bytes");
static struct verif_ti pool[4]; static char nm[4][2] = { "A", "B", "C", "P" };
struct conv { char* vptr; char to[SZ_Type_Info]; char from[SZ_Type_Info]; uint8_t bidir; };
_Static_assert(offsetof(struct conv, to) == OFF_TCB_to && offsetof(struct conv, from) == OFF_TCB_from, "Type_Conversion_Base layout");
static uint8_t bidir_fn(char* self) { return ((struct conv*)self)->bidir; }
static void no_fn(char* a) { __CPROVER_assert(0, "MODEL: conversion object virtual other than bidir() called"); }
static char* conv_vtable[5] = { (char*)no_fn, (char*)no_fn, (char*)bidir_fn, (char*)no_fn, (char*)no_fn };
struct rbnode { uint64_t color; char* parent; char* left; char* right; char* val_p; char* val_pn; };
static struct conv cv[2], cv_poison, cv_new; static struct rbnode cn[2], poison;
static int nconv, mode, lock_ops, unlock_ops, c_to[2], c_from[2]; static uint64_t ntypes;
static uint64_t types_at_unlock, num_at_unlock; static int ins_conv, ins_types, ins_added, copies;
static void set_ti(char* ti, int t) { *(char**)(ti + OFF_TI_type_info) = (char*)&pool[t]; *(char**)(ti + OFF_TI_bare_type_info) = (char*)&pool[t]; *(uint32_t*)(ti + OFF_TI_flags) = 0; }
static void install(void) { SET_BEGIN(CONVS) = nconv ? (char*)&cn[0] : SET_END(CONVS); SET_COUNT(CONVS) = (uint64_t)nconv; SET_COUNT(TYPES) = ntypes; }
static void uninstall(void) { SET_BEGIN(CONVS) = (char*)&poison; SET_COUNT(CONVS) = 77; SET_COUNT(TYPES) = ntypes + 1000; }
uint32_t F_pthread_rwlock_wrlock(char* l) { __CPROVER_assert(l == THE_MUTEX, "C13: the mutex taken is the one that guards the conversion tables"); __CPROVER_assert(mode == UNLOCKED, "C13: a non-recursive lock is not taken twice"); mode = UNIQUE; lock_ops++; install(); return 0; }
uint32_t F_pthread_rwlock_rdlock(char* l) { __CPROVER_assert(l == THE_MUTEX, "C13: the mutex taken is the one that guards the conversion tables"); __CPROVER_assert(mode == UNLOCKED, "C13: a non-recursive lock is not taken twice"); mode = SHARED; lock_ops++; install(); return 0; }
uint32_t F_pthread_rwlock_unlock(char* l) { __CPROVER_assert(l == THE_MUTEX && mode != UNLOCKED, "C13: only a held lock is released"); types_at_unlock = SET_COUNT(TYPES); num_at_unlock = NUM_TYPES; ntypes = SET_COUNT(TYPES); mode = UNLOCKED; unlock_ops++; uninstall(); return 0; }
char* F__ZSt18_Rb_tree_incrementPKSt18_Rb_tree_node_base(char* n) {
  __CPROVER_assert(mode >= SHARED && n != (char*)&poison, "C13: m_conversions is read only with the mutex held");
  if (n == (char*)&cn[0] && nconv == 2) return (char*)&cn[1]; return SET_END(CONVS); }
struct ins_ret { char* it; uint8_t inserted; };
INS_AGG SET_INSERT(char* set, char* sp) { __CPROVER_assert(set == CONVS && mode == UNIQUE, "C13: m_conversions is modified only with the mutex held unique");
  __CPROVER_assert(*(char**)sp == (char*)&cv_new, "C13: the conversion inserted is the one being registered"); ins_conv++;
  INS_AGG r; memset(&r, 0, sizeof r); struct ins_ret x = { (char*)&cn[0], 1 }; memcpy(&r, &x, sizeof x); return r; }
static int want_to, want_from;
void TYPES_INSERT(char* set, char* il, uint64_t n) { __CPROVER_assert(set == TYPES && mode == UNIQUE, "C13: m_convertableTypes is modified only with the mutex held unique");
  __CPROVER_assert(n == 2 && ((char**)il)[0] == (char*)&pool[want_to] && ((char**)il)[1] == (char*)&pool[want_from], "C13: both bare types of the new conversion become convertible types");
  ins_types++; uint64_t k = nondet_u8() % 3; ins_added = (int)k; SET_COUNT(TYPES) += k; }
static char my_cache[48] __attribute__((aligned(8))); static int in_cache[4];
static char* last_dst;
#ifdef OFF_TC_thread_cache
#define CACHE_IS_MINE(p) ((p) == my_cache)
#else       /* a tree without the per-engine member: for C13 it is enough that the cache is not one of the shared tables (whose cache it is: C14 K2) */
#define CACHE_IS_MINE(p) ((p) != TYPES && (p) != CONVS && (p) != tc)
#endif
#ifdef OFF_TC_thread_cache
char* CACHE_SLOT(char* map, char* key) { __CPROVER_assert(key == tc + OFF_TC_thread_cache, "C14: the thread-local slot is looked up by the key of this storage object (m_key, its first member)"); return my_cache; }
#else          /* the tree has no per-engine thread-local cache member: whatever thread_cache() hands out instead is judged by the assertions below and by C14 K2 */
char* CACHE_SLOT(char* map, char* key) { return my_cache; }
#endif
char* TREE_ASSIGN(char* dst, char* src) { __CPROVER_assert(mode >= SHARED, "C13: m_convertableTypes is copied only with the mutex held"); __CPROVER_assert(src == TYPES && CACHE_IS_MINE(dst), "C13: the refresh copies the shared type set into the calling thread's cache"); last_dst = dst;
  copies++; SET_COUNT(dst) = SET_COUNT(src); return dst; }
uint64_t SET_COUNT_FN(char* set, char* key) { __CPROVER_assert(CACHE_IS_MINE(set), "C13: convertibility is looked up in the thread's own cache, never in the shared table without the lock");
  char* t = *(char**)key; return t == (char*)&pool[0] ? in_cache[0] : t == (char*)&pool[1] ? in_cache[1] : t == (char*)&pool[2] ? in_cache[2] : 0; }
uint32_t F___cxa_thread_atexit(char* f, char* o, char* d) { return 0; }
void F__ZNSt12out_of_rangeC1ERKNSt7__cxx1112basic_stringIcSt11char_traitsIcESaIcEEE(char* s, char* m) { }
void F__ZNSt12out_of_rangeD1Ev(char* s) { }
void E_ADD(char* tc, char* sp); uint8_t E_HAS(char* tc, char* to, char* from); void E_GET(char* sret, char* tc, char* to, char* from); char* E_CACHE(char* tc); uint8_t E_CONVERTS(char* tc, char* to, char* from);
char* __VERIF_exc_type(void);
int main(void) {
  for (int i = 0; i < 4; i++) { pool[i].vt = 0; pool[i].name = nm[i]; }
  nconv = nondet_u8() % 3; ntypes = nondet_u8() % 7; NUM_TYPES = ntypes;                                     /* invariant between operations: m_num_types == m_convertableTypes.size() */
  for (int i = 0; i < 2; i++) { c_to[i] = nondet_u8() % 3; c_from[i] = nondet_u8() % 3; cv[i].vptr = (char*)conv_vtable; cv[i].bidir = nondet_u8() & 1; set_ti(cv[i].to, c_to[i]); set_ti(cv[i].from, c_from[i]);
    cn[i].val_p = (char*)&cv[i]; cn[i].val_pn = 0; }
  cv_poison.vptr = (char*)conv_vtable; cv_poison.bidir = 0; set_ti(cv_poison.to, 3); set_ti(cv_poison.from, 3); poison.val_p = (char*)&cv_poison; poison.val_pn = 0;
  uninstall();
  int to = nondet_u8() % 3, from = nondet_u8() % 3; want_to = to; want_from = from;
  static char q_to[SZ_Type_Info], q_from[SZ_Type_Info]; set_ti(q_to, to); set_ti(q_from, from);
  int hit_bidir = -1, hit_exact = -1;
  for (int i = 1; i >= 0; i--) if (i < nconv) { if ((c_to[i] == to && c_from[i] == from) || (cv[i].bidir && c_from[i] == to && c_to[i] == from)) hit_bidir = i; if (c_to[i] == to && c_from[i] == from) hit_exact = i; }
#if ENTRY == 1
  cv_new.vptr = (char*)conv_vtable; cv_new.bidir = nondet_u8() & 1; set_ti(cv_new.to, to); set_ti(cv_new.from, from);
  struct BV sp = { (char*)&cv_new, 0 };
  E_ADD(tc, (char*)&sp);
  __CPROVER_assert(lock_ops == 1 && unlock_ops == 1, "C13: registration searches and inserts under ONE hold of the mutex (no window between check and insert)");
  if (hit_bidir >= 0) { __CPROVER_assert(__exc_pending && __VERIF_exc_type() == (char*)&g__ZTIN10chaiscript9exception16conversion_errorE && ins_conv == 0 && ins_types == 0, "C06: a conversion that already exists (in either direction of a bidirectional one) is rejected and nothing is inserted"); __CPROVER_assert(0, "witness: duplicate rejected"); }
  else { __CPROVER_assert(!__exc_pending && ins_conv == 1 && ins_types == 1, "C13: a new conversion and its types are inserted exactly once");
    __CPROVER_assert(num_at_unlock == types_at_unlock, "C13: m_num_types equals the size of the type set when the lock is released - other threads' caches see the registration once it has returned");
    if (ins_added) __CPROVER_assert(0, "witness: registered with new types"); else __CPROVER_assert(0, "witness: registered, types known"); }
#elif ENTRY == 2
  uint8_t r = E_HAS(tc, q_to, q_from);
  __CPROVER_assert(!__exc_pending && (r & 1) == (hit_bidir >= 0), "C06: has_conversion is true exactly for a registered conversion, bidirectional ones in both directions");
  __CPROVER_assert(lock_ops == 1, "C13: the lookup takes the lock once");
  if (r & 1) __CPROVER_assert(0, "witness: found"); else __CPROVER_assert(0, "witness: not found");
#elif ENTRY == 3
  struct BV out = { 0, 0 };
  E_GET((char*)&out, tc, q_to, q_from);
  if (hit_exact >= 0) { __CPROVER_assert(!__exc_pending && out.p == (char*)&cv[hit_exact], "C06: get_conversion returns the first registered conversion from->to"); __CPROVER_assert(0, "witness: found"); }
  else { __CPROVER_assert(__exc_pending && out.p == 0, "C06: a conversion that is not registered is an error (out_of_range), not some other conversion"); __CPROVER_assert(0, "witness: not found"); }
  __CPROVER_assert(lock_ops == 1, "C13: the lookup takes the lock once");
#elif ENTRY == 4
  uint64_t c0 = nondet_u8() % 9; SET_COUNT(my_cache) = c0; uint64_t n0 = ntypes;
  char* r = E_CACHE(tc);
  __CPROVER_assert(!__exc_pending && CACHE_IS_MINE(r), "C13: thread_cache() hands out the calling thread's own cache, never the shared table");
#ifdef OFF_TC_thread_cache
  __CPROVER_assert(c0 != n0 ? (copies == 1 && lock_ops == 1 && SET_COUNT(my_cache) == n0) : (copies == 0 && lock_ops == 0), "C13: the cache is refreshed (under the lock) exactly when its size differs from the published number of types");
#else
  __CPROVER_assert(copies <= 1 && (!copies || (lock_ops == 1 && last_dst == r)), "C13: a refresh happens under the lock, into the cache that is handed out");
#endif
  if (copies) __CPROVER_assert(0, "witness: refreshed"); else __CPROVER_assert(0, "witness: up to date");
#elif ENTRY == 5
  SET_COUNT(my_cache) = nondet_u8() % 9; for (int i = 0; i < 3; i++) in_cache[i] = nondet_u8() & 1;
  uint8_t r = E_CONVERTS(tc, q_to, q_from);
  __CPROVER_assert(!__exc_pending && (r & 1) == (in_cache[to] && in_cache[from] && hit_bidir >= 0), "C06: converts() holds exactly when both types are convertible types and a conversion between them is registered");
  if (r & 1) __CPROVER_assert(0, "witness: converts"); else __CPROVER_assert(0, "witness: does not convert");
#else
#error "unknown ENTRY"
#endif
  __CPROVER_assert(mode == UNLOCKED && lock_ops == unlock_ops, "C13: every exit - normal or throwing - leaves the lock released");
  return 0;
}
