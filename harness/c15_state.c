/* C15 U1: the real Dispatch_Engine::get_state / set_state with the container copy operations as recorders and the lock model
   of C13.  Asserted: get_state copies each of the five engine tables (functions, function objects, boxed functions, globals,
   type names) from the engine into the corresponding table of the returned State, with the engine mutex held; set_state
   assigns each of the five tables of the given State onto the engine's, with the mutex held unique; all locks released. */
#include "layout.h"
#include "bv_model.h"
enum { UNLOCKED = 0, SHARED = 1, UNIQUE = 2 };
static char engine[SZ_Dispatch_Engine] __attribute__((aligned(16))); static char state_obj[SZ_DE_State] __attribute__((aligned(16)));
static int mode, ncopies, bad_lock; static char* cp_dst[8]; static char* cp_src[8];
#define THE_MUTEX (engine + OFF_DE_mutex)
uint32_t F_pthread_rwlock_wrlock(char* l) { __CPROVER_assert(l == THE_MUTEX && mode == UNLOCKED, "C13: the engine mutex is taken once"); mode = UNIQUE; return 0; }
uint32_t F_pthread_rwlock_rdlock(char* l) { __CPROVER_assert(l == THE_MUTEX && mode == UNLOCKED, "C13: the engine mutex is taken once"); mode = SHARED; return 0; }
uint32_t F_pthread_rwlock_unlock(char* l) { __CPROVER_assert(l == THE_MUTEX && mode != UNLOCKED, "C13: only a held lock is released"); mode = UNLOCKED; return 0; }
static void rec(char* dst, char* src) { if (ncopies < 8) { cp_dst[ncopies] = dst; cp_src[ncopies] = src; } ncopies++; if (mode < NEED_MODE) bad_lock++; }
#include "c15_stubs.h"          /* generated: one recorder per container copy constructor / copy assignment found in the IR */
static const uint64_t members[5] = { OFF_State_functions, OFF_State_function_objects, OFF_State_boxed_functions, OFF_State_global_objects, OFF_State_types };
int main(void) {
#if ENTRY == 1
  GET_STATE(state_obj, engine); char* dbase = state_obj; char* sbase = engine + OFF_DE_state;
#else
  SET_STATE(engine, state_obj); char* dbase = engine + OFF_DE_state; char* sbase = state_obj;
#endif
  __CPROVER_assert(!__exc_pending && mode == UNLOCKED, "C13: the lock is released on exit");
  __CPROVER_assert(bad_lock == 0, "C13/C15: the tables are copied with the engine mutex held (shared to read, unique to replace)");
  __CPROVER_assert(ncopies == 5, "C15: exactly the five tables of the engine state are copied");
  for (int m = 0; m < 5; m++) { int found = 0; for (int i = 0; i < 5; i++) if ((cp_dst[i] == dbase + members[m] && cp_src[i] == sbase + members[m]) || (cp_dst[i] == dbase + members[m] + 8 && cp_src[i] == sbase + members[m] + 8)) found++;   /* the vector inside a QuickFlatMap sits 8 bytes in */
    __CPROVER_assert(found == 1, "C15: each table (functions, function objects, boxed functions, globals, type names) is copied to its counterpart, once"); }
  __CPROVER_assert(0, "witness: state transferred");
  return 0;
}
