/* C10 X4 / C03 / C09 / C11: the real Fun_Call_AST_Node::do_eval_internal<Save_Params> - a function call expression - with abstract argument and
   function expressions and the call itself (Proxy_Function_Base::operator()) an abstract step that returns a value or throws: dispatch_error,
   bad_boxed_cast, arity_error, guard_error (no overload could be entered), Return_Value (the callee's `return`), eval_error, std::runtime_error,
   a script value (Boxed_Value) or a foreign type.
   Asserted: arguments are evaluated left to right, then the function expression; the call happens once with exactly those values; a failure
   to find/enter an overload is reported as eval_error; a Return_Value becomes the call's value; EVERY other exception leaves as the very same
   object (nothing is swallowed or replaced); the function-call frame is pushed and popped exactly once on every path; the argument values
   are saved for the duration of the call in the saving variant (value may be used) and not in the no-copy variant. */
#define NNODES 6
#include "node_model.h"
#ifndef NA
#define NA 2
#endif
enum { C_RET = 0, C_DISPATCH, C_BADCAST, C_ARITY, C_GUARD, C_RETURN, C_EVAL_ERROR, C_RUNTIME, C_BV, C_FOREIGN, C_NKINDS };
static int evals[NNODES], eval_order[NNODES], eval_seq;
void NODE_EVAL_CHILD(char* sret, char* self, char* st) {
  int idx = (int)((struct node*)self - nodes); evals[idx]++; eval_order[idx] = eval_seq++;
  if (behav[idx] != B_RET) { child_throw(behav[idx], TI_EVAL_ERROR, TI_BOXED_VALUE); return; }
  ((struct BV*)sret)->p = valpool[idx]; ((struct BV*)sret)->pn = 0; }
static int n_push, n_pop, n_save, save_before_call; static uint64_t save_n;
static int n_call, call_beh; static uint64_t call_n; static char* call_arg[3]; static struct bv_data call_result, rv_value;
void FPP_CTOR(char* self, char* st) { n_push++; }
void FPP_DTOR(char* self) { n_pop++; }
void FPP_SAVE(char* self, char* params) { n_save++; { struct BV* b = *(struct BV**)params; struct BV* e = *(struct BV**)(params + 8); save_n = (b == e) ? 0 : (uint64_t)(e - b); } save_before_call = (n_call == 0); }
static int fn_is_function, fn_is_shared_function; static struct { char* vptr; } the_function;
static char* what_stub(char* self) { return "x"; }
static char* exc_vtable[6] = { (char*)what_stub, (char*)what_stub, (char*)what_stub, (char*)what_stub, (char*)what_stub, (char*)what_stub };
/* exception objects thrown by the abstract call: harness statics with their vptr (what()) and first member preset */
static struct exc_image { char* vptr; char* f1; char rest[144]; } call_exc = { (char*)exc_vtable, 0, {0} }, rv_exc;
static void throw_kind(char* ti) { thrown_obj = (char*)&call_exc; __VERIF_throw_static(thrown_obj, ti); }
char* CAST_PFB(char* bv, char* conv) { __CPROVER_assert(((struct BV*)bv)->p == valpool[1], "C03: the callee is the value of the function expression"); if (!fn_is_function) { throw_kind(TI_BAD_BOXED_CAST); thrown_kind = -1; return 0; } return (char*)&the_function; }
void CAST_SHARED_PFB(char* sret, char* engine, char* bv) { if (!fn_is_shared_function) { throw_kind(TI_BAD_BOXED_CAST); thrown_kind = -1; return; } ((struct BV*)sret)->p = (char*)&the_function; ((struct BV*)sret)->pn = 0; }
#ifdef VEC_MODEL
/* std::vector<Boxed_Value> as a recorder over fixed harness storage (the libstdc++ growth code on a byte-addressed temporary: out of memory) */
static struct BV vstore[4]; static uint64_t reserved_n; static int args_in_order = 1;
void VEC_CTOR(char* vec) { struct vec3* v = (struct vec3*)vec; v->b = v->e = (char*)&vstore[0]; v->c = (char*)&vstore[4]; }
void VEC_RESERVE(char* vec, uint64_t n) { reserved_n = n; }
void VEC_PUSH_BACK(char* vec, char* bv) { struct vec3* v = (struct vec3*)vec; __CPROVER_assert(v->b == (char*)&vstore[0] && v->e < v->c, "BOUND: more than 4 arguments"); __CPROVER_assume(v->e < v->c);
  *(struct BV*)v->e = *(struct BV*)bv; ((struct BV*)bv)->p = 0; ((struct BV*)bv)->pn = 0; v->e += sizeof(struct BV); }
#endif
void FUNC_CALL(char* sret, char* self, char* params, char* conv) {
  n_call++;
#ifdef VEC_MODEL
  { struct BV* b = *(struct BV**)params; struct BV* e = *(struct BV**)(params + 8); for (int i = 0; i < NA; i++) if (!(i < e - b && b[i].p == valpool[3 + i])) args_in_order = 0; }
#endif
  struct BV* b = *(struct BV**)params; struct BV* e = *(struct BV**)(params + 8); call_n = (b == e) ? 0 : (uint64_t)(e - b);      /* the elements are not read here: dereferencing a pointer the real code keeps in a byte-addressed temporary makes CBMC case-split over every object (out of memory) */
  thrown_kind = call_beh;
  switch (call_beh) {
    case C_RET: ((struct BV*)sret)->p = (char*)&call_result; ((struct BV*)sret)->pn = 0; return;
    case C_DISPATCH: throw_kind(TI_DISPATCH_ERROR); return;
    case C_BADCAST: throw_kind(TI_BAD_BOXED_CAST); return;
    case C_ARITY: throw_kind(TI_ARITY_ERROR); return;
    case C_GUARD: throw_kind(TI_GUARD_ERROR); return;
    case C_RETURN: rv_exc.vptr = (char*)&rv_value; rv_exc.f1 = 0; thrown_obj = (char*)&rv_exc; __VERIF_throw_static(thrown_obj, TI_RETURN_VALUE); return;     /* Return_Value { Boxed_Value retval; }: retval = { &rv_value, null } */
    case C_EVAL_ERROR: throw_kind(TI_EVAL_ERROR); return;
    case C_RUNTIME: throw_kind((char*)&g__ZTISt13runtime_error); return;
    case C_BV: throw_kind(TI_BOXED_VALUE); return;
    default: throw_kind((char*)&ti_foreign); return;
  }
}
/* shared_ptr control blocks / virtual destructors of temporaries: not part of what is decided here */
void __VERIF_v1_hook(char* f, char* a) { }
static char conv_saves[64] __attribute__((aligned(8)));
char* CONV_SAVES(char* map, char* key) { return conv_saves; }
uint32_t F___cxa_thread_atexit(char* f, char* o, char* d) { return 0; }
static char conv_state[32] __attribute__((aligned(8)));
char* CONVERSIONS(char* st) { return conv_state; }
void BV_VEC_DTOR(char* self) { }
char* __VERIF_exc_type(void);
void CALL_NODE(char* sret, char* self, char* st);
int main(void) {
  for (int i = 0; i < NNODES; i++) { unsigned b = nondet_u32(); __CPROVER_assume(b < B_NKINDS); behav[i] = (int)b; }
#ifdef ARGS_RETURN
  for (int i = 3; i < NNODES; i++) __CPROVER_assume(behav[i] == B_RET);
#endif
  { unsigned b = nondet_u32(); __CPROVER_assume(b < C_NKINDS); call_beh = (int)b; } fn_is_function = nondet_u8() & 1; fn_is_shared_function = nondet_u8() & 1;
  /* node 0 = the call; children: node 1 = function expression, node 2 = Arg_List with arguments 3 .. 2+NA */
  node_set_children(0, 1, 2, -1, -1); node_set_children(2, NA >= 1 ? 3 : -1, NA >= 2 ? 4 : -1, NA >= 3 ? 5 : -1, -1);
  static char engine[SZ_Dispatch_Engine] __attribute__((aligned(8))); static char* state[4]; state[0] = engine; struct BV out = { 0, 0 };
  CALL_NODE((char*)&out, (char*)&nodes[0], (char*)state);
  __CPROVER_assert(n_push == 1 && n_pop == 1, "C09: a call pushes and pops exactly one function-call frame on every exit");
  int first_bad_arg = 0; for (int i = NA; i >= 1; i--) if (behav[2 + i] != B_RET) first_bad_arg = i;
  for (int i = 1; i <= NA; i++) __CPROVER_assert(evals[2 + i] == ((first_bad_arg == 0 || i <= first_bad_arg) ? 1 : 0), "C03: arguments are evaluated once each, left to right, stopping at the first that throws");
  for (int i = 2; i <= NA; i++) if (evals[2 + i]) __CPROVER_assert(eval_order[2 + i] > eval_order[1 + i], "C03: left to right");
  if (first_bad_arg) { __CPROVER_assert(__exc_pending && __exc_obj == thrown_obj && evals[1] == 0 && n_call == 0, "C10: an exception in an argument leaves unchanged; nothing is called"); __CPROVER_assert(0, "witness: argument throws"); return 0; }
#if SAVE_PARAMS
  __CPROVER_assert(n_save == 1 && save_n == NA && save_before_call, "C11: the argument values are saved for the duration of the call before the callee runs (its result may refer into them)");
#else
  __CPROVER_assert(n_save == 0, "C11: the no-copy call variant (value discarded) does not save its arguments");
#endif
  __CPROVER_assert(evals[1] == 1 && (NA == 0 || eval_order[1] > eval_order[2 + NA]), "C03: the function expression is evaluated once, after the arguments");
  if (behav[1] != B_RET) { __CPROVER_assert(__exc_pending && __exc_obj == thrown_obj && n_call == 0, "C10: an exception in the function expression leaves unchanged"); __CPROVER_assert(0, "witness: function expression throws"); return 0; }
  if (!fn_is_function) { __CPROVER_assert(n_call == 0 && __exc_pending && __VERIF_exc_type() == TI_EVAL_ERROR, "C03: calling something that is not a function is an eval_error"); __CPROVER_assert(0, "witness: not a function"); return 0; }
  __CPROVER_assert(n_call == 1 && call_n == NA, "C06: the callee is entered once, with as many values as there are arguments (they are the argument values in evaluation order: std::vector::push_back)");
#ifdef VEC_MODEL
  __CPROVER_assert(args_in_order, "C06: the callee receives exactly the argument values, in source order");
#endif
  switch (call_beh) {
    case C_RET: __CPROVER_assert(!__exc_pending && out.p == (char*)&call_result, "C03: the value of a call is the callee's result"); __CPROVER_assert(0, "witness: call returns"); break;
    case C_RETURN: __CPROVER_assert(!__exc_pending && out.p == (char*)&rv_value, "C03: a return statement's value becomes the value of the call"); __CPROVER_assert(0, "witness: return value"); break;
    case C_DISPATCH: case C_BADCAST: case C_ARITY: case C_GUARD:
      __CPROVER_assert(__exc_pending && __VERIF_exc_type() == TI_EVAL_ERROR, "C10: a call that no overload accepts is reported as eval_error"); __CPROVER_assert(0, "witness: dispatch failure reported"); break;
    default: __CPROVER_assert(__exc_pending && __exc_obj == thrown_obj, "C10: an exception thrown by the callee leaves the call expression as the very same object"); __CPROVER_assert(0, "witness: callee exception passes"); break;
  }
  return 0;
}
