/* C06 D1: the arity gate every call of a registered function passes - the real Proxy_Function_Base::operator() on a function object of symbolic arity
   (-1 = variadic, 0..3) with NV argument values; the virtual do_call (typed casts + the C++ function, or the script function body) is a recorder
   reached through a model vtable.
   Asserted: a function is entered exactly when it is variadic or takes exactly as many parameters as there are values - once, with exactly the caller's
   values and conversions, its result (or exception) is the call's; otherwise arity_error is raised and NOTHING is entered. */
#include "layout.h"
#include "bv_model.h"
#include "verif_rt.h"
struct PFB { char* vptr; struct vec3 types; int32_t arity; uint8_t has_arith; uint8_t pad_[3]; };
_Static_assert(sizeof(struct PFB) == SZ_PFB && offsetof(struct PFB, arity) == OFF_PFB_arity, "Proxy_Function_Base layout");
static struct PFB fn; static struct BV vals[4]; static char conv[16];
static int n_entered, entered_ok, do_call_throws; static struct bv_data result; static char* thrown; static struct verif_ti ti_foreign = {0, "*foreign"};
char* __VERIF_throw_new(char* tinfo, uint64_t size);
static void do_call_stub(char* sret, char* self, char* params, char* cv) {
  n_entered++; entered_ok = self == (char*)&fn && *(char**)params == (char*)&vals[0] && *(char**)(params + 8) == (char*)&vals[NV] && cv == conv;
  if (do_call_throws) { thrown = __VERIF_throw_new((char*)&ti_foreign, 32); return; }
  ((struct BV*)sret)->p = (char*)&result; ((struct BV*)sret)->pn = 0; }
static void other_virtual(char* a, char* b, char* c, char* d) { __CPROVER_assert(0, "C06: calling a function goes through do_call only"); }
static char* vtable[12];
char* __VERIF_exc_type(void);
void FUNC_CALL(char* sret, char* self, char* params, char* conv);
int main(void) {
  for (int i = 0; i < 12; i++) vtable[i] = (char*)other_virtual;
  vtable[DO_CALL_SLOT] = (char*)do_call_stub;
  fn.vptr = (char*)vtable; int32_t ar = nondet_i32(); __CPROVER_assume(ar >= -1 && ar <= 1000000); fn.arity = ar; do_call_throws = nondet_u8() & 1;
  struct { struct BV* b; struct BV* e; } params = { &vals[0], &vals[NV] }; struct BV out = { 0, 0 };
  FUNC_CALL((char*)&out, (char*)&fn, (char*)&params, conv);
  if (ar < 0 || ar == NV) {
    __CPROVER_assert(n_entered == 1 && entered_ok, "C06: a function whose arity fits is entered exactly once, with exactly the caller's values");
    if (do_call_throws) __CPROVER_assert(__exc_pending && __exc_obj == thrown, "C10: what the function throws is what the call throws"); else __CPROVER_assert(!__exc_pending && out.p == (char*)&result, "C06: the function's result is the call's result");
    __CPROVER_assert(0, "witness: entered");
  } else {
    __CPROVER_assert(n_entered == 0 && __exc_pending && __VERIF_exc_type() == (char*)&g__ZTIN10chaiscript9exception11arity_errorE, "C06: a call with the wrong number of arguments raises arity_error without entering the function");
    __CPROVER_assert(0, "witness: arity mismatch");
  }
  return 0;
}
