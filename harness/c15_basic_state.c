/* C15 U4 / C13 K6: the public state entry points - the real ChaiScript_Basic::get_state / set_state TOGETHER WITH the real Dispatch_Engine::get_state /
   set_state they call - with every container copy (copy constructor / copy assignment of the vectors, maps and sets that make up the state) a recorder
   and the three locks (use-mutex, ChaiScript_Basic::m_mutex, the engine's mutex) a lock-state model.
   Asserted:
   get_state  each of the five engine tables (functions, function objects, boxed functions, globals, type names), the set of used files and the set of
              loaded modules is the SOURCE of exactly one copy; a copy whose source is an engine table happens WHILE THE ENGINE MUTEX IS HELD (wherever in
              the call chain the copy is made: a reference handed out of the locked region and copied later is a data race with every registration);
              the sets of ChaiScript_Basic are copied under its mutex and the use-mutex.
   set_state  each of the seven is the DESTINATION of exactly one copy from the given State; the engine tables are replaced with the engine mutex held
              unique; the sets with the use-mutex held (what serialises them against use()).
   every lock is released on exit. */
#include "layout.h"
#include "bv_model.h"
enum { UNLOCKED = 0, SHARED = 1, UNIQUE = 2 };
static char chai[SZ_ChaiScript_Basic] __attribute__((aligned(16))); static char given[SZ_CB_State] __attribute__((aligned(16)));
#define ENGINE (chai + OFF_CB_engine)
static int eng_mode, cb_mode, use_held, lock_err;
uint32_t F_pthread_mutex_lock(char* m) { if (m != chai + OFF_CB_use_mutex) lock_err = 1; use_held++; return 0; }
uint32_t F_pthread_mutex_unlock(char* m) { if (m != chai + OFF_CB_use_mutex || use_held <= 0) lock_err = 1; use_held--; return 0; }
static int* which(char* m) { return m == ENGINE + OFF_DE_mutex ? &eng_mode : m == chai + OFF_CB_mutex ? &cb_mode : (int*)0; }
uint32_t F_pthread_rwlock_wrlock(char* m) { int* w = which(m); if (!w || *w != UNLOCKED) lock_err = 1; else *w = UNIQUE; return 0; }
uint32_t F_pthread_rwlock_rdlock(char* m) { int* w = which(m); if (!w || *w != UNLOCKED) lock_err = 1; else *w = SHARED; return 0; }
uint32_t F_pthread_rwlock_unlock(char* m) { int* w = which(m); if (!w || *w == UNLOCKED) lock_err = 1; else *w = UNLOCKED; return 0; }
#define NT 7
/* the seven tables, as (object the live engine keeps, member of a ChaiScript_Basic::State) */
static char* live[NT]; static uint64_t in_state[NT];
static int n_src[NT], n_dst[NT], unlocked_engine_copy, unlocked_set_copy, ncopies;
static int inside(char* p, char* base) { return p == base || p == base + 8; }         /* the vector of a QuickFlatMap sits 8 bytes into it */
static void rec(char* dst, char* src) {
  ncopies++;
  for (int t = 0; t < NT; t++) {
#if ENTRY == 1
    if (inside(src, live[t])) { n_src[t]++; if (t < 5 ? eng_mode == UNLOCKED : (cb_mode == UNLOCKED || use_held != 1)) { if (t < 5) unlocked_engine_copy++; else unlocked_set_copy++; } }
#else
    if (inside(dst, live[t])) { n_dst[t]++; if (!inside(src, given + in_state[t])) n_dst[t] += 100; if (t < 5 ? eng_mode != UNIQUE : use_held != 1) { if (t < 5) unlocked_engine_copy++; else unlocked_set_copy++; } }
#endif
  }
}
static void init_empty_vector(char* v) { ((struct vec3*)v)->b = ((struct vec3*)v)->e = ((struct vec3*)v)->c = 0; }
/* std::map / std::set: { compare (padded to 8); _Rb_tree_node_base header { color; parent; left; right }; node_count } */
static void init_empty_tree(char* t) { *(uint32_t*)(t + 8) = 0; *(char**)(t + 16) = 0; *(char**)(t + 24) = t + 8; *(char**)(t + 32) = t + 8; *(uint64_t*)(t + 40) = 0; }
#include "c15_basic_stubs.h"        /* generated: one recorder per container copy constructor / copy assignment found in the IR */
void __VERIF_v1_hook(char* f, char* a) { }
void CB_GET_STATE(char* sret, char* self); void CB_SET_STATE(char* self, char* st);
int main(void) {
  static const uint64_t es[5] = { OFF_State_functions, OFF_State_function_objects, OFF_State_boxed_functions, OFF_State_global_objects, OFF_State_types };
  for (int t = 0; t < 5; t++) { live[t] = ENGINE + OFF_DE_state + es[t]; in_state[t] = OFF_CBS_engine_state + es[t]; }
  live[5] = chai + OFF_CB_used_files; in_state[5] = OFF_CBS_used_files; live[6] = chai + OFF_CB_active_loaded_modules; in_state[6] = OFF_CBS_active_loaded_modules;
  for (int t = 0; t < NT; t++) { if (t == 0 || t == 1 || t == 2) { init_empty_vector(live[t] + 8); init_empty_vector(given + in_state[t] + 8); } else { init_empty_tree(live[t]); init_empty_tree(given + in_state[t]); } }
#if ENTRY == 1
  static char out[SZ_CB_State] __attribute__((aligned(16)));
  CB_GET_STATE(out, chai);
  for (int t = 0; t < NT; t++) __CPROVER_assert(n_src[t] == 1, "C15: get_state copies each of the engine's five tables, the used files and the loaded modules - once each");
  __CPROVER_assert(unlocked_engine_copy == 0, "C13: an engine table is copied only while the engine mutex is held - also when the copy is made by a caller of Dispatch_Engine::get_state");
  __CPROVER_assert(unlocked_set_copy == 0, "C13: used files and loaded modules are copied with ChaiScript_Basic's mutex and the use-mutex held");
#else
  CB_SET_STATE(chai, given);
  for (int t = 0; t < NT; t++) __CPROVER_assert(n_dst[t] == 1, "C15: set_state replaces each of the engine's five tables, the used files and the loaded modules by its counterpart in the given state - once each");
  __CPROVER_assert(unlocked_engine_copy == 0, "C13: the engine tables are replaced with the engine mutex held unique");
  __CPROVER_assert(unlocked_set_copy == 0, "C13: used files and loaded modules are replaced with the use-mutex held");
#endif
  __CPROVER_assert(!__exc_pending && !lock_err && eng_mode == UNLOCKED && cb_mode == UNLOCKED && use_held == 0, "C13: every lock is taken by its owner's entry point and released on exit");
  __CPROVER_assert(0, "witness: state transferred");
  return 0;
}
