/* C04 L2: real QuickFlatMap<string,Boxed_Value,str_equal>::count / find / find(key, hint) on a map of K entries with symbolic
   names, against a linear reference.  This is the contract the get_object harness (L1) assumes for count(), and the
   name-validated hint lookup used for function tables.  Shape: K, HINT (concrete slot, incl. out-of-range representatives). */
#include "layout.h"
#include "bv_model.h"
struct entry { struct sso_string name; struct BV val; };
struct scope { uint64_t cmp_; struct vec3 data; };
_Static_assert(sizeof(struct entry) == SZ_Scope_Entry && sizeof(struct scope) == SZ_Scope && offsetof(struct scope, data) == OFF_Scope_data, "QuickFlatMap layout changed");
#ifndef K
#define K 2
#endif
uint64_t COUNT(char* self, char* sv);
char* FIND(char* self, char* sv);
char* FINDH(char* self, char* sv, uint64_t hint);
int main(void) {
  static struct entry ents[K ? K : 1]; static struct scope S; static char vals[K ? K : 1][8];
  for (unsigned i = 0; i < K; i++) { struct entry* e = &ents[i]; e->name.p = e->name.buf; uint64_t n = nondet_u64(); __CPROVER_assume(n >= 1 && n <= 2); e->name.n = n;
    e->name.buf[0] = (char)nondet_u8(); e->name.buf[1] = (n == 2) ? (char)nondet_u8() : 0; e->name.buf[2] = 0; e->val.p = vals[i]; e->val.pn = 0; }
  S.data.b = (char*)&ents[0]; S.data.e = (char*)&ents[K]; S.data.c = S.data.e;
  char q[2]; uint64_t qn = nondet_u64(); __CPROVER_assume(qn >= 1 && qn <= 2); q[0] = (char)nondet_u8(); q[1] = (qn == 2) ? (char)nondet_u8() : 0;
  struct { uint64_t len; char* p; } sv = { qn, q };
  int first = -1;
  for (int i = K - 1; i >= 0; i--) if (ents[i].name.n == qn && ents[i].name.buf[0] == q[0] && (qn == 1 || ents[i].name.buf[1] == q[1])) first = i;
  uint64_t c = COUNT((char*)&S, (char*)&sv);
  __CPROVER_assert(c == (first >= 0 ? 1u : 0u), "C04: count(name) is 1 exactly when an entry with that key exists");
  char* f = FIND((char*)&S, (char*)&sv);
  __CPROVER_assert(f == (first >= 0 ? (char*)&ents[first] : S.data.e), "C04: find(name) yields the first entry with that key, else end()");
  char* fh = FINDH((char*)&S, (char*)&sv, HINT);
  __CPROVER_assert(first < 0 ? fh == S.data.e : (fh >= (char*)&ents[0] && fh < S.data.e), "C04: find(name, hint) finds the key iff it exists, whatever the hint");
  if (first >= 0) { struct entry* r = (struct entry*)fh; __CPROVER_assert(r->name.n == qn && r->name.buf[0] == q[0] && (qn == 1 || r->name.buf[1] == q[1]), "C04: a hinted lookup is validated by name: the entry returned has the requested key"); }
  __CPROVER_assert(!__exc_pending, "C04: lookups do not throw");
  if (first >= 0) __CPROVER_assert(0, "witness: key present"); else __CPROVER_assert(0, "witness: key absent");
  return 0;
}
