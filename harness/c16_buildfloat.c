/* C16 I3 (type selection part): the real ChaiScript_Parser::buildFloat on every text of N bytes that the float scanner can hand it -
   digits/point/exponent characters followed by at most ONE suffix character (read_exponent_and_suffix consumes at most one of f F l L).
   parse_num<float|double|long double> (the numeric conversion - floating-point accuracy, declined) and const_var<T> are recorders.
   Asserted: the literal has type float iff it ends in f/F, long double iff it ends in l/L, double otherwise; the digits handed to the
   conversion are exactly the text without that suffix character; the constant built holds the converted value of that type. */
#include "layout.h"
#include "bv_model.h"
#ifndef N
#define N 3
#endif
static int n_parse, parse_t; static uint64_t parse_len; static char* parse_ptr; static int n_cv, cv_t; static struct bv_data cv_data;
float PARSE_F(uint64_t len, char* p) { n_parse++; parse_t = 'f'; parse_len = len; parse_ptr = p; return 1.5f; }
double PARSE_D(uint64_t len, char* p) { n_parse++; parse_t = 'd'; parse_len = len; parse_ptr = p; return 2.5; }
long double PARSE_E(uint64_t len, char* p) { n_parse++; parse_t = 'e'; parse_len = len; parse_ptr = p; return 3.5L; }
static int cv_ok;
void CV_F(char* sret, char* v) { n_cv++; cv_t = 'f'; cv_ok = (*(float*)v == 1.5f); ((struct BV*)sret)->p = (char*)&cv_data; ((struct BV*)sret)->pn = 0; }
void CV_D(char* sret, char* v) { n_cv++; cv_t = 'd'; cv_ok = (*(double*)v == 2.5); ((struct BV*)sret)->p = (char*)&cv_data; ((struct BV*)sret)->pn = 0; }
void CV_E(char* sret, char* v) { n_cv++; cv_t = 'e'; cv_ok = (*(long double*)v == 3.5L); ((struct BV*)sret)->p = (char*)&cv_data; ((struct BV*)sret)->pn = 0; }
void BUILD_FLOAT(char* sret, uint64_t len, char* ptr);
static int is_suffix(char c) { return c == 'f' || c == 'F' || c == 'l' || c == 'L'; }
int main(void) {
  char text[N ? N : 1]; const char body[8] = { '0', '1', '9', '.', 'e', 'E', '+', '-' };
  for (unsigned i = 0; i < N; i++) { unsigned k = nondet_u8(); text[i] = (k & 8) ? "fFlL"[k & 3] : body[k & 7]; }
  for (unsigned i = 0; i + 1 < N; i++) __CPROVER_assume(!is_suffix(text[i]));         /* at most one suffix character, and only at the end (what the scanner produces) */
  __CPROVER_assume(N >= 1 && !is_suffix(text[0]));                                    /* a literal starts with a digit or a point */
  struct BV out = { 0, 0 };
  BUILD_FLOAT((char*)&out, N, text);
  char last = text[N - 1]; int want = (last == 'f' || last == 'F') ? 'f' : (last == 'l' || last == 'L') ? 'e' : 'd'; uint64_t digits = is_suffix(last) ? N - 1 : N;
  __CPROVER_assert(!__exc_pending && n_parse == 1 && n_cv == 1 && out.p == (char*)&cv_data, "C16: a floating literal is converted once and yields one constant");
  __CPROVER_assert(parse_t == want && cv_t == want, "C16: a floating literal has type float with suffix f/F, long double with l/L, double otherwise");
  __CPROVER_assert(parse_ptr == text && parse_len == digits, "C16: the value is converted from exactly the digits of the literal (without the suffix)");
  __CPROVER_assert(cv_ok, "C16: the constant holds the converted value");
  if (want == 'f') __CPROVER_assert(0, "witness: float"); else if (want == 'e') __CPROVER_assert(0, "witness: long double"); else __CPROVER_assert(0, "witness: double");
  return 0;
}
