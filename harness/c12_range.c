/* C12 R: the range view scripts iterate with (Bidir_Range over a Vector): the real empty / pop_front / pop_back / front / back and the
   constructor, on an arbitrary range [begin, end] inside a vector of exactly K elements (begin <= end, both symbolic).
   Asserted: front/back/pop_* on an empty range raise std::range_error and leave the range unchanged; otherwise they move exactly one
   end by one element / yield exactly the first / last element of the range; the range never leaves the vector's storage; the
   constructor spans the whole container.  (A range is a pair of iterators: what happens to it when its container is modified is the
   property's documented exception and outside.) */
#include "layout.h"
#include "bv_model.h"
#define R_EMPTY 1
#define R_POP_FRONT 2
#define R_POP_BACK 3
#define R_FRONT 4
#define R_BACK 5
#define R_CTOR 6
extern struct verif_ti g__ZTISt11range_error;
void F__ZNSt11range_errorC1EPKc(char* self, char* m) { }
char* __VERIF_exc_type(void);
struct range { char* b; char* e; };
#if OP == R_EMPTY
uint8_t FN(char* self);
#elif OP == R_POP_FRONT || OP == R_POP_BACK
void FN(char* self);
#elif OP == R_FRONT || OP == R_BACK
char* FN(char* self);
#elif OP == R_CTOR
void FN(char* self, char* container);
#else
#error "unknown OP"
#endif
int main(void) {
  struct BV* el = (struct BV*)malloc((K ? K : 1) * sizeof(struct BV)); __CPROVER_assume(el != 0);
  struct vec3 v = { (char*)el, (char*)(el + K), (char*)(el + K) };
  unsigned i0 = nondet_u32(), i1 = nondet_u32(); __CPROVER_assume(i0 <= i1 && i1 <= K);
  struct range r = { (char*)(el + i0), (char*)(el + i1) };
#if OP == R_CTOR
  r.b = 0; r.e = 0; FN((char*)&r, (char*)&v);
  __CPROVER_assert(!__exc_pending && r.b == (char*)el && r.e == (char*)(el + K), "C12: a range over a container spans exactly its elements");
  __CPROVER_assert(0, "witness: operation performed");
#elif OP == R_EMPTY
  uint8_t res = FN((char*)&r);
  __CPROVER_assert(!__exc_pending && (res & 1) == (i0 == i1) && r.b == (char*)(el + i0) && r.e == (char*)(el + i1), "C12: empty() says whether the range has elements and changes nothing");
  __CPROVER_assert(0, "witness: operation performed");
#else
#if OP == R_FRONT || OP == R_BACK
  char* res = FN((char*)&r);
#else
  FN((char*)&r);
#endif
  if (i0 == i1) {
    __CPROVER_assert(__exc_pending && __VERIF_exc_type() == (char*)&g__ZTISt11range_error, "C12: reading or shrinking an empty range raises std::range_error");
    __CPROVER_assert(r.b == (char*)(el + i0) && r.e == (char*)(el + i1), "C12: a refused operation leaves the range unchanged");
    __CPROVER_assert(0, "witness: precondition violated");
  } else {
    __CPROVER_assert(!__exc_pending, "C12: a non-empty range can be read and shrunk");
#if OP == R_POP_FRONT
    __CPROVER_assert(r.b == (char*)(el + i0 + 1) && r.e == (char*)(el + i1), "C12: pop_front drops exactly the first element");
#elif OP == R_POP_BACK
    __CPROVER_assert(r.b == (char*)(el + i0) && r.e == (char*)(el + i1 - 1), "C12: pop_back drops exactly the last element");
#elif OP == R_FRONT
    __CPROVER_assert(res == (char*)(el + i0) && r.b == (char*)(el + i0) && r.e == (char*)(el + i1), "C12: front() is the first element of the range");
#elif OP == R_BACK
    __CPROVER_assert(res == (char*)(el + i1 - 1) && r.b == (char*)(el + i0) && r.e == (char*)(el + i1), "C12: back() is the last element of the range");
#endif
    __CPROVER_assert(r.b >= (char*)el && r.e <= (char*)(el + K) && r.b <= r.e, "C12: the range stays inside the container");
    __CPROVER_assert(0, "witness: operation performed");
  }
#endif
  return 0;
}
