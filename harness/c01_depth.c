/* C01 P8: the nesting limit - the real ChaiScript_Parser::Depth_Counter constructor and destructor on a parser image with an arbitrary current depth.
   Asserted: the constructor returns exactly when the new depth does not exceed the limit, otherwise it leaves with eval_error (the nesting limit is
   REPORTED, not a crash); a counter that was constructed restores the depth when destroyed; nothing else of the parser is touched.
   (Every cycle of the parser's recursion passes such a counter: structural lemma P9, irbmc/callgraph.py.) */
#include "layout.h"
#include "bv_model.h"
#include "verif_rt.h"
static char parser[SZ_Parser] __attribute__((aligned(16))), before[SZ_Parser];
#define DEPTH (*(uint64_t*)(parser + OFF_Parser_current_parse_depth))
static struct sso_string fname;
void EE_CTOR3(char* self, char* what, char* pos, char* file) { }
void FILE_POSITION(char* self, uint32_t l, uint32_t c) { }
char* __VERIF_exc_type(void);
void DC_CTOR(char* self, char* p); void DC_DTOR(char* self);
int main(void) {
  for (unsigned i = 0; i < SZ_Parser; i++) parser[i] = (char)nondet_u8();
  fname.p = fname.buf; fname.n = 0; *(char**)(parser + OFF_Parser_filename) = (char*)&fname;      /* m_filename: shared_ptr<std::string>, object pointer first */
  uint64_t d0 = nondet_u64(); __CPROVER_assume(d0 < 0x7fffffffffffffffULL); DEPTH = d0;
  for (unsigned i = 0; i < SZ_Parser; i++) before[i] = parser[i];
  char dc[SZ_Depth_Counter] __attribute__((aligned(8)));
  DC_CTOR(dc, parser);
  if (d0 + 1 > PARSE_DEPTH_LIMIT) {
    __CPROVER_assert(__exc_pending && __VERIF_exc_type() == (char*)&g__ZTIN10chaiscript9exception10eval_errorE, "C01: exceeding the nesting limit is reported as eval_error");
    __CPROVER_assert(0, "witness: limit exceeded"); return 0; }
  __CPROVER_assert(!__exc_pending && DEPTH == d0 + 1 && *(char**)dc == parser, "C01: entering a grammar rule raises the depth by exactly one");
  DC_DTOR(dc);
  __CPROVER_assert(!__exc_pending && DEPTH == d0, "C01: leaving a grammar rule restores the depth");
  for (unsigned i = 0; i < SZ_Parser; i++) if (i < OFF_Parser_current_parse_depth || i >= OFF_Parser_current_parse_depth + 8) __CPROVER_assert(parser[i] == before[i], "C01: the depth counter touches nothing else of the parser");
  __CPROVER_assert(0, "witness: within the limit");
  return 0;
}
