/* C13 K5: Dispatch_Engine::add_function under the lock model - the real outer function; the lambda that computes the new overload set (its
   copy-on-write discipline is K4 / C15 U2) and the two insert_or_assign calls on the function tables are stubs that assert the lock state.
   Asserted: the overload set is computed AND both function tables are updated under ONE unique hold of the engine mutex (no window in which
   the tables disagree is visible to a reader), a refused registration (name_conflict_error) updates nothing, the function object stored in both
   tables is the one the overload computation returned, the boxed-functions entry is const, every exit leaves the lock released. */
#include "layout.h"
#include "bv_model.h"
enum { UNLOCKED = 0, SHARED = 1, UNIQUE = 2 };
static char engine[SZ_Dispatch_Engine] __attribute__((aligned(16)));
static int mode, lock_ops, unlock_ops, n_lambda, n_ins_boxed, n_ins_objs, lambda_throws;
#define THE_MUTEX (engine + OFF_DE_mutex)
uint32_t F_pthread_rwlock_wrlock(char* l) { __CPROVER_assert(l == THE_MUTEX, "C13: the mutex taken is the one that guards the engine tables"); __CPROVER_assert(mode == UNLOCKED, "C13: a non-recursive lock is not taken twice"); mode = UNIQUE; lock_ops++; return 0; }
uint32_t F_pthread_rwlock_rdlock(char* l) { __CPROVER_assert(l == THE_MUTEX, "C13: the mutex taken is the one that guards the engine tables"); __CPROVER_assert(mode == UNLOCKED, "C13: a non-recursive lock is not taken twice"); mode = SHARED; lock_ops++; return 0; }
uint32_t F_pthread_rwlock_unlock(char* l) { __CPROVER_assert(l == THE_MUTEX && mode != UNLOCKED, "C13: only a held lock is released"); mode = UNLOCKED; unlock_ops++; return 0; }
static void table_write(char* table) { __CPROVER_assert(table >= engine + OFF_DE_state && table < engine + OFF_DE_state + SZ_DE_State, "C13: the table accessed is engine state"); __CPROVER_assert(mode == UNIQUE, "C13: a shared table is modified only with its mutex held unique"); }
static char new_func_obj[8]; static struct bv_data const_box; static char* boxed_value_stored; static char* obj_stored; static struct sso_string name;
char* __VERIF_throw_new(char* tinfo, uint64_t size); static struct verif_ti ti_conflict = {0, "*name_conflict"}; static char* thrown;
void LAMBDA(char* sret, char* closure) { n_lambda++; __CPROVER_assert(mode == UNIQUE, "C13: the overload set of a name is computed and switched with the mutex held unique");
  if (lambda_throws) { thrown = __VERIF_throw_new((char*)&ti_conflict, 64); return; } ((struct BV*)sret)->p = new_func_obj; ((struct BV*)sret)->pn = 0; }
void CONST_VAR(char* sret, char* sp) { __CPROVER_assert(*(char**)sp == new_func_obj, "C13: the boxed entry wraps the function object just computed"); D_FLAGS(&const_box) = TIF_const; ((struct BV*)sret)->p = (char*)&const_box; ((struct BV*)sret)->pn = 0; }
INS_AGG INS_BOXED(char* map, char* key, char* val) { table_write(map); n_ins_boxed++; __CPROVER_assert(key == (char*)&name, "C13: the entry is stored under the function's name"); boxed_value_stored = ((struct BV*)val)->p; INS_AGG r; memset(&r, 0, sizeof r); return r; }
INS_AGG INS_OBJS(char* map, char* key, char* val) { table_write(map); n_ins_objs++; __CPROVER_assert(key == (char*)&name, "C13: the entry is stored under the function's name"); obj_stored = *(char**)val; *(char**)val = 0; *(char**)(val + 8) = 0; INS_AGG r; memset(&r, 0, sizeof r); return r; }
void ADD_FUNCTION(char* engine_, char* f, char* name_);
int main(void) {
  name.p = name.buf; name.n = 1; name.buf[0] = (char)nondet_u8(); name.buf[1] = 0; static char fobj[8]; struct BV f = { fobj, 0 }; lambda_throws = nondet_u8() & 1;
  ADD_FUNCTION(engine, (char*)&f, (char*)&name);
  __CPROVER_assert(lock_ops == 1 && unlock_ops == 1 && mode == UNLOCKED, "C13: one unique hold covers the whole registration and is released on every exit");
  __CPROVER_assert(n_lambda == 1, "C13: the overload set is computed once");
  if (lambda_throws) { __CPROVER_assert(__exc_pending && __exc_obj == thrown && n_ins_boxed == 0 && n_ins_objs == 0, "C13: a refused registration leaves both function tables untouched and the error passes unchanged"); __CPROVER_assert(0, "witness: refused"); return 0; }
  __CPROVER_assert(!__exc_pending && n_ins_boxed == 1 && n_ins_objs == 1, "C13: both function tables are updated, each once");
  __CPROVER_assert(boxed_value_stored == (char*)&const_box && obj_stored == new_func_obj, "C13: both tables receive the function object the overload computation returned (the boxed one as a const value)");
  __CPROVER_assert(0, "witness: registered");
  return 0;
}
