/* C18 J5: json_wrap::from_json(const JSON&) for the scalar classes - which script value a parsed JSON scalar becomes.  The JSON accessors
   (JSONType / to_bool / to_int / to_float / to_string) are oracles for a symbolic JSON value; the Boxed_Value constructors are recorders that
   hand out a NEW data object per construction.
   Asserted, for two conversions in a row (the same or different JSON values, of the same or different documents):
     - null -> the undefined value, true/false -> bool with that value, integral -> 64 bit integer with that value, floating -> double with
       that value, string -> string built from the JSON's text;
     - EVERY conversion constructs its own value: the two results are different objects.  Values handed out by from_json are ordinary
       mutable script values (doc[0] = false assigns through them): if two conversions shared one object, changing one element of a parsed
       document would change its siblings and every later from_json("true"), and from_json(to_json(v)) == v would stop holding. */
#include "layout.h"
#include "bv_model.h"
#include "verif_rt.h"
enum { J_NULL = 0, J_OBJECT, J_ARRAY, J_STRING, J_FLOATING, J_INTEGRAL, J_BOOLEAN };
static char json[2][64] __attribute__((aligned(8)));
static int cls[2]; static uint8_t bval[2]; static int64_t ival[2];
static int cur;       /* which of the two conversions is running: concrete, so the class switch of the code under test folds */
static int which(char* j) { return cur; }
uint32_t JSON_TYPE(char* j) { __CPROVER_assert(j == json[cur], "C18: the value converted is the one handed in"); return cur ? CLS1 : CLS0; }
uint8_t TO_BOOL(char* j) { return bval[which(j)]; }
uint64_t TO_INT(char* j) { return (uint64_t)ival[which(j)]; }
double TO_FLOAT(char* j) { double d; return d; }
void TO_STRING(char* sret, char* j) { struct sso_string* s = (struct sso_string*)sret; s->p = s->buf; s->n = 1; s->buf[0] = which(j) ? 'B' : 'A'; s->buf[1] = 0; }
#define MAXV 4
static struct bv_data made[MAXV]; static int n_made, made_kind[MAXV]; static int64_t made_i[MAXV]; static uint8_t made_b[MAXV], made_rv[MAXV]; static char made_s[MAXV];
static char* fresh(char* self, int kind) { __CPROVER_assert(n_made < MAXV, "BOUND: more values than modelled"); __CPROVER_assume(n_made < MAXV); int k = n_made++; made_kind[k] = kind; ((struct BV*)self)->p = (char*)&made[k]; ((struct BV*)self)->pn = 0; return (char*)&made[k]; }
void BV_UNDEF(char* sret) { fresh(sret, J_NULL); }
void BV_BOOL(char* self, char* v, uint8_t rv) { int k = n_made; fresh(self, J_BOOLEAN); made_b[k] = *(uint8_t*)v & 1; made_rv[k] = rv; }
void BV_LONG(char* self, char* v, uint8_t rv) { int k = n_made; fresh(self, J_INTEGRAL); made_i[k] = *(int64_t*)v; made_rv[k] = rv; }
void BV_DOUBLE(char* self, char* v, uint8_t rv) { int k = n_made; fresh(self, J_FLOATING); made_rv[k] = rv; }
void BV_STRING(char* self, char* v, uint8_t rv) { int k = n_made; fresh(self, J_STRING); made_s[k] = (*(char**)v)[0]; made_rv[k] = rv; }
/* function-local statics, should the code under test use any */
uint32_t F___cxa_guard_acquire(char* g) { return *g ? 0u : 1u; } void F___cxa_guard_release(char* g) { *g = 1; } void F___cxa_guard_abort(char* g) { }
uint32_t F___cxa_atexit(char* f, char* o, char* d) { return 0; }
void F__ZNSt13runtime_errorC1EPKc(char* s, char* m) { }
void FROM_JSON(char* sret, char* j);
int main(void) {
  cls[0] = CLS0; cls[1] = CLS1;        /* the classes are shapes (a symbolic class makes symex walk the recursive container branches); the VALUES are symbolic */
  for (int k = 0; k < 2; k++) { bval[k] = nondet_u8() & 1; ival[k] = nondet_i64(); }
  struct BV out[2] = { {0, 0}, {0, 0} };
  for (int k = 0; k < 2; k++) {
    int before = n_made; cur = k;
    FROM_JSON((char*)&out[k], json[k]);
    __CPROVER_assert(!__exc_pending, "C18: a scalar converts without error");
    __CPROVER_assert(n_made == before + 1 && out[k].p == (char*)&made[before], "C18: every converted JSON scalar is its own, newly constructed script value (two conversions never share an object)");
    if (n_made == before + 1) {
      __CPROVER_assert(made_kind[before] == cls[k], "C18: null / boolean / integral / floating / string JSON values become undefined / bool / 64 bit integer / double / string script values");
      if (cls[k] == J_BOOLEAN) __CPROVER_assert(made_b[before] == bval[k], "C18: a JSON boolean keeps its value");
      if (cls[k] == J_INTEGRAL) __CPROVER_assert(made_i[before] == ival[k], "C18: a JSON integer keeps its value");
      if (cls[k] == J_STRING) __CPROVER_assert(made_s[before] == (k ? 'B' : 'A'), "C18: a JSON string keeps its text");
    }
  }
  __CPROVER_assert(out[0].p != out[1].p, "C18: the results of two conversions are different objects");
  if (cls[0] == J_BOOLEAN && cls[1] == J_BOOLEAN && bval[0] == bval[1]) __CPROVER_assert(0, "witness: the same boolean twice");
  __CPROVER_assert(0, "witness: two conversions");
  return 0;
}
