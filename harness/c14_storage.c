/* C14: the real Thread_Storage<Stack_Holder> members with the per-thread std::unordered_map as a recorder.
   Two facts give isolation for every history of create/use/destroy on any threads and addresses:
   (K1) every storage object gets a key that no other storage object of the process ever had: two constructions - with ANY
        number of other constructions before and between them (the shared counter starts from an arbitrary value) - get
        different keys, wherever the objects live (the harness places the second object at the SAME address as the first);
   (K2) every access and the destructor address the per-thread map with exactly the object's own key.
   Hence an entry left behind on some thread by a destroyed engine can never be found by a later engine. */
#include "layout.h"
#include "bv_model.h"
static uint64_t seen_key; static char* seen_map; static int idx_calls, erase_calls; static char slot[64];
char* UMAP_INDEX(char* map, char* key) { idx_calls++; seen_key = *(uint64_t*)key; seen_map = map; return slot; }
#ifdef UMAP_INDEX2
char* UMAP_INDEX2(char* map, char* key) { idx_calls++; seen_key = *(uint64_t*)key; seen_map = map; return slot; }
#endif
uint64_t UMAP_ERASE(char* map, char* key) { erase_calls++; seen_key = *(uint64_t*)key; seen_map = map; return 1; }
uint32_t F___cxa_thread_atexit(char* f, char* o, char* d) { return 0; }
#ifdef TS_CTOR
void TS_CTOR(char* self);
#endif
void TS_DTOR(char* self); char* TS_DEREF(char* self); char* TS_ARROW(char* self); char* TS_CDEREF(char* self); char* TS_CARROW(char* self);
/* COUNTER: the static std::atomic<size_t> inside next_key(), as emitted from the IR (macro from props/C14.py) */
#ifndef TS_CTOR
#define TS_CTOR(p) ((void)0)       /* trivial (defaulted) constructor: nothing to run */
#define COUNTER dummy_counter
static uint64_t dummy_counter;
#endif
#ifdef TWO_THREADS
/* K3: threads.  thread_local objects of the translated code exist once per modelled thread (the translator indexes them by __verif_tid).
   Engine A is constructed on thread 0, engine B on thread 1 (each thread with an arbitrary construction history of its own); then one
   common thread uses both: they must address that thread's map with DIFFERENT keys; and one engine used from two threads must address
   two DIFFERENT maps (each thread sees only its own locals). */
int main(void) {
  static struct { uint64_t key; } A, B; A.key = nondet_u64(); B.key = nondet_u64();
  uint64_t c0 = nondet_u64(), c1 = nondet_u64(); __CPROVER_assume(c0 < (1ull << 62) && c1 < (1ull << 62));
  COUNTER_T(0) = c0;
#if COUNTER_IS_TL
  COUNTER_T(1) = c1;                                         /* a per-thread counter has a history per thread */
#endif
  __verif_tid = 0; TS_CTOR((char*)&A);
  __verif_tid = 1; TS_CTOR((char*)&B);
  __verif_tid = 0; (void)TS_DEREF((char*)&A); uint64_t kA = seen_key; char* mA0 = seen_map;
  (void)TS_DEREF((char*)&B); uint64_t kB = seen_key; char* mB0 = seen_map;
  __CPROVER_assert(kA != kB, "C14: two engines never share per-thread state, whichever threads constructed them (keys are unique in the process, not per thread)");
  __CPROVER_assert(mA0 == mB0, "C14: on one thread all engines use that thread's map");
  __verif_tid = 1; (void)TS_DEREF((char*)&A); char* mA1 = seen_map;
  __CPROVER_assert(seen_key == kA, "C14: an engine uses its own key on every thread");
  __CPROVER_assert(mA1 != mA0, "C13: every thread keeps its own per-thread state of an engine (its own map)");
  __CPROVER_assert(!__exc_pending, "C14: storage management does not throw");
  __CPROVER_assert(0, "witness: two threads explored");
  return 0;
}
#else
int main(void) {
  static struct { uint64_t key; } obj;                      /* Thread_Storage's only data member */
  _Static_assert(sizeof obj == SZ_Thread_Storage, "Thread_Storage layout changed");
  obj.key = nondet_u64();                                    /* whatever the memory held before */
  uint64_t c0 = nondet_u64(); __CPROVER_assume(c0 < (1ull << 62)); COUNTER = c0;                         /* any number of earlier constructions */
  TS_CTOR((char*)&obj);
  unsigned which = WHICH;                                    /* accessor used (shape) */ char* r = which == 0 ? TS_DEREF((char*)&obj) : which == 1 ? TS_ARROW((char*)&obj) : which == 2 ? TS_CDEREF((char*)&obj) : TS_CARROW((char*)&obj);
  uint64_t k1 = seen_key;                                    /* the key under which the first storage keeps this thread's state */
  __CPROVER_assert(idx_calls == 1 && r == slot, "C14: per-thread state is looked up in the thread's map");
  TS_DTOR((char*)&obj);
  __CPROVER_assert(erase_calls == 1 && seen_key == k1, "C14: destroying a storage erases the key it used");
  uint64_t between = nondet_u64(); __CPROVER_assume(between < (1ull << 20)); COUNTER += between;          /* other engines created meanwhile */
  TS_CTOR((char*)&obj);                                                                                 /* a new storage at the SAME address */
  (void)TS_DEREF((char*)&obj); uint64_t k2 = seen_key;
  __CPROVER_assert(k2 != k1, "C14: a storage created after another was destroyed never finds the old one's per-thread state, even at the same address (keys are never reused)");
  __CPROVER_assert(!__exc_pending, "C14: storage management does not throw");
  __CPROVER_assert(0, "witness: history explored");
  return 0;
}
#endif
