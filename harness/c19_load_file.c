/* C19 F1: the real ChaiScript_Basic::load_file + skip_bom over a CONTRACT MODEL of std::ifstream.
   The file is a symbolic byte array of exactly L bytes (shape); the model follows the standard's words for the seven stream
   entry points the code uses (a short read sets eofbit|failbit; a failed stream ignores seekg and read; tellg of a failed
   stream is -1; clear() resets the state).  Asserted: the returned string is the file's content minus ONE leading
   EF BB BF, for every length including 0, 1 and 2; a missing file raises file_not_found_error. */
#include "layout.h"
#include "bv_model.h"
#ifndef L
#define L 2
#endif
void F__ZN10chaiscript9exception20file_not_found_errorC2ERKNSt7__cxx1112basic_stringIcSt11char_traitsIcESaIcEEE(char* self, char* s) { }
void F__ZN10chaiscript9exception20file_not_found_errorD2Ev(char* self) { }
void F__ZN10chaiscript9exception20file_not_found_errorD0Ev(char* self) { }
char* __VERIF_exc_type(void);
/* ---- the stream model (one stream at a time) */
static char file_bytes[L ? L : 1]; static int file_exists; static int64_t s_pos; static int s_eof, s_fail, s_open, s_ctor, s_dtor, s_reads;
static struct { int64_t vbase_off; int64_t pad[2]; char* entries[4]; } fake_vtbl = { 256, {0, 0}, {0, 0, 0, 0} };
void F__ZNSt14basic_ifstreamIcSt11char_traitsIcEEC1EPKcSt13_Ios_Openmode(char* self, char* name, uint32_t mode) {
  *(char**)self = (char*)&fake_vtbl.entries[0]; s_ctor++; s_eof = 0;
  __CPROVER_assert(mode == (8u | 2u | 4u), "C19: the file is opened in|ate|binary");    /* libstdc++: in=8, ate=2, binary=4 */
  if (file_exists) { s_open = 1; s_fail = 0; s_pos = L; } else { s_open = 0; s_fail = 1; s_pos = 0; }
}
uint8_t F__ZNKSt12__basic_fileIcE7is_openEv(char* self) { return (uint8_t)s_open; }
struct fpos_model { int64_t off; int64_t state; };
#define TELLG_RET struct TELLG_AGG
TELLG_RET F__ZNSi5tellgEv(char* self) { TELLG_RET r; memset(&r, 0, sizeof r); int64_t v = s_fail ? -1 : s_pos; memcpy(&r, &v, 8); return r; }
static int sentry_ok(void) { if (s_eof || s_fail) { s_fail = 1; return 0; } return 1; }
char* F__ZNSi5seekgElSt12_Ios_Seekdir(char* self, uint64_t off, uint32_t dir) {
  s_eof = 0; if (!sentry_ok()) return self;
  int64_t base = dir == 0 ? 0 : dir == 1 ? s_pos : L; int64_t np = base + (int64_t)off; if (np < 0 || np > L) { s_fail = 1; return self; } s_pos = np; return self; }
char* F__ZNSi5seekgESt4fposI11__mbstate_tE(char* self, uint64_t off, uint64_t state) {
  s_eof = 0; if (!sentry_ok()) return self; if ((int64_t)off < 0 || (int64_t)off > L) { s_fail = 1; return self; } s_pos = (int64_t)off; return self; }
char* F__ZNSi4readEPcl(char* self, char* buf, uint64_t n) {
  s_reads++; if (!sentry_ok()) return self;
  int64_t left = L - s_pos; int64_t k = (int64_t)n < left ? (int64_t)n : left;
  for (int64_t i = 0; i < L; i++) if (i < k) buf[i] = file_bytes[s_pos + i];
  s_pos += k; if (k < (int64_t)n) { s_eof = 1; s_fail = 1; } return self; }
void F__ZNSt9basic_iosIcSt11char_traitsIcEE5clearESt12_Ios_Iostate(char* self, uint32_t st) { s_eof = (st & 2u) != 0; s_fail = (st & (4u | 1u)) != 0; }   /* eofbit=2, failbit=4, badbit=1 */
void F__ZNSt14basic_ifstreamIcSt11char_traitsIcEED1Ev(char* self) { s_dtor++; }
void F__ZNSt13basic_filebufIcSt11char_traitsIcEED2Ev(char* self) { }
void F__ZNSt8ios_baseD2Ev(char* self) { }
/* std::string(first, last) from the byte buffer: SSO model */
void STR_FROM_RANGE(char* s, char* first, char* last, char* al) {
  uint64_t n = (uint64_t)(last - first); __CPROVER_assert(n <= 15, "BOUND: file content longer than the SSO string model"); __CPROVER_assume(n <= 15);
  struct sso_string* d = (struct sso_string*)s; d->p = d->buf; d->n = n; for (uint64_t i = 0; i < 15; i++) if (i < n) d->buf[i] = first[i]; d->buf[n] = 0; }
void LOAD_FILE(char* sret, char* filename);
int main(void) {
  for (unsigned i = 0; i < L; i++) file_bytes[i] = (char)nondet_u8();
  file_exists = nondet_u8() & 1;
  static struct sso_string fname; fname.p = fname.buf; fname.n = 1; fname.buf[0] = 'f'; fname.buf[1] = 0;
  static struct sso_string out; out.p = out.buf;
  LOAD_FILE((char*)&out, (char*)&fname);
  __CPROVER_assert(s_ctor == 1 && (s_dtor == 1 || !s_ctor), "C19: the stream is opened once and closed on every path");
  if (!file_exists) {
    __CPROVER_assert(__exc_pending && __VERIF_exc_type() == (char*)&g__ZTIN10chaiscript9exception20file_not_found_errorE, "C19: a missing file raises file_not_found_error");
    __CPROVER_assert(0, "witness: missing file");
    return 0;
  }
  __CPROVER_assert(!__exc_pending, "C19: an existing file loads without an exception");
  int bom = (L >= 3) && (unsigned char)file_bytes[0] == 0xef && (unsigned char)file_bytes[1] == 0xbb && (unsigned char)file_bytes[2] == 0xbf;
  unsigned start = bom ? 3 : 0, n = L - start;
  __CPROVER_assert(out.n == n, "C19: the loaded text has the file's length (minus one leading byte order mark)");
  int same = 1; for (unsigned i = 0; i < L; i++) if (i < n && out.buf[i] != file_bytes[start + i]) same = 0;
  __CPROVER_assert(same, "C19: the loaded text is exactly the bytes of the file (minus one leading byte order mark)");
  __CPROVER_assert(0, "witness: file loaded");
  if (bom) __CPROVER_assert(0, "witness: byte order mark skipped");
  return 0;
}
