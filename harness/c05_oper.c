/* C05 A1+A2 / C07: the real Boxed_Number::oper(op, lhs, rhs) (visit/get_common_type/dispatch lambdas) with every go<L,R>
   instance replaced by a recorder.  The static C++ type of each operand is symbolic over the 18 arithmetic types the engine
   registers (+ bool and a non-arithmetic type), constness and the return-value flag are symbolic.
   Asserted: exactly go<common(L), common(R)> is entered, once; it gets a mutable pointer to the left operand iff that operand
   is neither const nor a pending return value (so a const lhs can never be written: C07), and references to the stored
   operand bytes; non-arithmetic / bool operands raise bad_any_cast without entering any go. */
#include "layout.h"
#include "bv_model.h"
#include "c05_go_stubs.h"      /* generated: one recorder per go<L,R> symbol present in the IR + table of type objects */
void F__ZN10chaiscript6detail9exception12bad_any_castC2Ev(char* self) { }
void F__ZN10chaiscript11Boxed_ValueD2Ev(char* self) { }
char* __VERIF_exc_type(void);
void OPER2(char* sret, uint32_t op, char* lhs, char* rhs);
int main(void) {
  static struct bv_data ld, rd; static long double lstore, rstore;
#ifdef LT_FIX
  unsigned lt = LT_FIX;                                   /* left operand's static type: enumerated shape */
#else
  unsigned lt = nondet_u32();
#endif
#ifdef RT_FIX
  unsigned rt = RT_FIX;
#else
  unsigned rt = nondet_u32();
#endif
  __CPROVER_assume(lt < NTYPES && rt < NTYPES);
  uint8_t lconst = nondet_u8() & 1, lret = nondet_u8() & 1;
  D_TI(&ld) = type_objs[lt]; D_BARE_TI(&ld) = type_objs[lt]; D_FLAGS(&ld) = TIF_arithmetic | (lconst ? TIF_const : 0); D_CPTR(&ld) = &lstore; D_PTR(&ld) = lconst ? (void*)0 : (void*)&lstore; D_RETVAL(&ld) = lret;
  D_TI(&rd) = type_objs[rt]; D_BARE_TI(&rd) = type_objs[rt]; D_FLAGS(&rd) = TIF_arithmetic | TIF_const; D_CPTR(&rd) = &rstore; D_PTR(&rd) = 0;
  struct BV l = { (char*)&ld, 0 }, r = { (char*)&rd, 0 }, out = { 0, 0 };
  uint32_t op = nondet_u32(); __CPROVER_assume(op <= OP_invalid);
  OPER2((char*)&out, op, (char*)&l, (char*)&r);
  int lk = type_common[lt], rk = type_common[rt];
  if (lk == 0 || rk == 0) {
    __CPROVER_assert(__exc_pending && go_calls == 0, "C05: bool and non-arithmetic operands are rejected (bad_any_cast) before any arithmetic runs");
    __CPROVER_assert(0, "witness: non-arithmetic operand");
    return 0;
  }
  __CPROVER_assert(go_calls == 1, "C05: exactly one arithmetic kernel runs per operation");
  __CPROVER_assert(go_l == lk && go_r == rk, "C05: operands are read with the width/signedness/floating-ness of their C++ types");
  __CPROVER_assert(go_op == op && go_bv == (char*)&l, "C05: the kernel receives the operator and the left operand box");
  __CPROVER_assert(go_clhs == (char*)&lstore && go_crhs == (char*)&rstore, "C05: the kernel reads the operands' stored bytes");
  __CPROVER_assert(go_tlhs == ((lconst || lret) ? (char*)0 : (char*)&lstore), "C07: in-place operations get a mutable pointer only to a non-const left operand that is not a pending return value");
  __CPROVER_assert(0, "witness: dispatched");
  if (lconst) __CPROVER_assert(0, "witness: const left operand");
  return 0;
}
