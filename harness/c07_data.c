/* C07 D0: the real Boxed_Value::Data constructor on a symbolic Type_Info and object pointer.
   Asserted (the representation invariant every other const-correctness argument rests on): the mutable pointer is null
   exactly when the type is const; the const pointer is the object; type, is_ref and return-value flags are stored as given. */
#include "layout.h"
#include "bv_model.h"
void DATA_CTOR(char* self, char* ti, char* any, uint8_t is_ref, char* ptr, uint8_t retval);
int main(void) {
  static struct bv_data d; static char ti[SZ_Type_Info] __attribute__((aligned(8))); static char any[8]; static char obj[4];
  uint32_t flags = nondet_u32() & 63; *(uint32_t*)(ti + OFF_TI_flags) = flags; *(char**)(ti + OFF_TI_type_info) = obj; *(char**)(ti + OFF_TI_bare_type_info) = obj;
  uint8_t is_ref = nondet_u8() & 1, rv = nondet_u8() & 1; char* p = (nondet_u8() & 1) ? obj : (char*)0;
  *(char**)any = 0;
  DATA_CTOR((char*)&d, ti, any, is_ref, p, rv);
  __CPROVER_assert(!__exc_pending, "C07: constructing a value box does not throw");
  __CPROVER_assert((D_PTR(&d) == (void*)0) == (((flags & TIF_const) != 0) || p == 0), "C07: a const object exposes no mutable pointer (and only a const object or a null one lacks it)");
  if (!(flags & TIF_const)) __CPROVER_assert(D_PTR(&d) == (void*)p, "C07: a mutable object's pointer is the object");
  __CPROVER_assert(D_CPTR(&d) == (const void*)p, "C07: the const pointer is the object");
  __CPROVER_assert(D_FLAGS(&d) == flags && D_IS_REF(&d) == is_ref && D_RETVAL(&d) == rv, "C07: constness and the other flags travel with the box as given");
  __CPROVER_assert(0, "witness: constructed");
  if (flags & TIF_const) __CPROVER_assert(0, "witness: const type");
  return 0;
}
