/* C02 O7b (+ C11 L2b): the closure object the For_Loop pass itself builds, EXECUTED - no hand-written picture of what the closure captures.
   The real optimizer::For_Loop::optimize runs on an eligible loop  for (var <name> = <start>; <name> < <end>; ++<name>) body  (name, start, end
   symbolic); make_compiled_node - which only moves the callable into the compiled node - is a stub that runs the real closure operator() on the
   very object it was handed, TWICE (a loop inside a function is executed once per call; calls nest when the function is recursive).
   Asserted, for each execution separately:
     - it declares ITS OWN loop variable: one new object per execution, built by an owning route, bound under the loop's name - as the
       unoptimized loop does with `var i = start` (state kept in the closure between executions would be shared by nested/recursive and
       repeated executions, and by lambdas that captured the variable of an earlier execution);
     - the body sees start, start+1, ... while < end, is evaluated exactly that often; one scope pushed and popped;
     - the variable of the first execution is still alive and unchanged in value after the second one ran (a lambda may have captured it). */
#define NNODES 10
#include "node_model.h"
extern struct verif_ti g__ZTIi;
static struct bv_data cdata[2]; static int32_t cval[2];
struct cnode { struct node n; struct BV value; };
static struct cnode cn[2];
char* F___dynamic_cast(char* p, char* src, char* dst, int64_t hint) { if (dst == TI_CONSTANT_NODE) return ((struct node*)p)->identifier == AST_Constant ? p : (char*)0; return 0; }
uint32_t BOXED_CAST_INT(char* bv, char* conv) { struct bv_data* d = (struct bv_data*)((struct BV*)bv)->p; return *(uint32_t*)D_CPTR(d); }
#define R_OWN 1
#define R_ALIAS 2
#define MAXV 4
struct ctrl { char* vptr; uint32_t use; uint32_t weak; };
static struct ctrl data_cb[MAXV]; static struct bv_data loop_data[MAXV]; static int32_t owned_counter[MAXV]; static int route[MAXV]; static char* alias_ptr[MAXV]; static int disposed[MAXV];
static int n_get;
void BV_DTOR(char* self) { struct BV* b = (struct BV*)self; if (b->pn) { struct ctrl* c = (struct ctrl*)b->pn; c->use--; if (c->use == 0) for (int k = 0; k < MAXV; k++) if (c == &data_cb[k]) disposed[k]++; } b->p = 0; b->pn = 0; }
static void od_get(char* sret, int kind, char* p, int32_t v) {
  __CPROVER_assert(n_get < MAXV, "BOUND: more loop variables than modelled"); __CPROVER_assume(n_get < MAXV);
  int k = n_get++; route[k] = kind; alias_ptr[k] = p;
  if (kind == R_OWN) { owned_counter[k] = v; D_PTR(&loop_data[k]) = &owned_counter[k]; D_CPTR(&loop_data[k]) = &owned_counter[k]; D_IS_REF(&loop_data[k]) = 0; }
  else { D_PTR(&loop_data[k]) = p; D_CPTR(&loop_data[k]) = p; D_IS_REF(&loop_data[k]) = 1; }
  data_cb[k].vptr = 0; data_cb[k].use = 1; data_cb[k].weak = 1; ((struct BV*)sret)->p = (char*)&loop_data[k]; ((struct BV*)sret)->pn = (char*)&data_cb[k];
}
static int n_deleted; static void node_deleter(char* self) { n_deleted++; }
static char* node_vtable[10] = { (char*)node_deleter, (char*)node_deleter, (char*)node_deleter, (char*)node_deleter, (char*)node_deleter, (char*)node_deleter, (char*)node_deleter, (char*)node_deleter, (char*)node_deleter, (char*)node_deleter };
#include STUBS_H
/* ---- the execution environment of the closure */
static int run;                                  /* 0 before, 1 / 2 while the first / second execution runs */
static int n_new[3], n_pop[3], n_add[3], n_eval[3], gets_at_start[3]; static char* added_data[3]; static struct sso_string added_name[3]; static struct BV scope_slot[3]; static int added_var[3];
#define MAXIT 3
static int32_t seen[3][MAXIT + 1];
void NEW_SCOPE(char* holder) { n_new[run]++; }
void POP_SCOPE(char* holder) { n_pop[run]++; }
void ADD_OBJECT(char* self, char* name, char* bv) { n_add[run]++; added_name[run] = *(struct sso_string*)name; added_name[run].buf[0] = (*(char**)name)[0]; added_name[run].buf[1] = (*(char**)name)[1];
  added_data[run] = ((struct BV*)bv)->p; scope_slot[run] = *(struct BV*)bv; ((struct BV*)bv)->p = 0; ((struct BV*)bv)->pn = 0;
  added_var[run] = -1; for (int k = 0; k < MAXV; k++) if (added_data[run] == (char*)&loop_data[k]) added_var[run] = k; }
static struct bv_data void_data;
void VOID_VAR(char* sret) { ((struct BV*)sret)->p = (char*)&void_data; ((struct BV*)sret)->pn = 0; }
void NODE_EVAL(char* sret, char* node, char* ss) {
  int k = n_eval[run] < MAXIT ? n_eval[run] : MAXIT; n_eval[run]++;
  int v = added_var[run]; int32_t cur = 0;
  if (v >= 0 && v < MAXV) cur = route[v] == R_OWN ? owned_counter[v] : *(int32_t*)alias_ptr[v];       /* what the script reads under the loop variable's name */
  seen[run][k] = cur;
  ((struct BV*)sret)->p = (char*)&void_data; ((struct BV*)sret)->pn = 0;
}
void CLOSURE(char* sret, char* self, char* children, char* ss);
static int n_compiled; static int32_t first_var_after_second = 0;
static struct node compiled_node;
void MAKE_COMPILED(char* sret, char* orig_uptr, char* children, char* callable) {
  n_compiled++;
  static char engine[8], holder[8]; char* ss[3] = { engine, holder, 0 };
  for (run = 1; run <= 2; run++) {
    gets_at_start[run] = n_get; struct BV out = {0, 0};
    CLOSURE((char*)&out, callable, children, (char*)ss);
    __CPROVER_assert(!__exc_pending && out.p == (char*)&void_data, "C02: the compiled loop completes with a void value");
  }
  run = 0; *(char**)sret = (char*)&compiled_node;
}
static char** kids[NNODES];
static struct node* N(int i) { return i == 6 ? &cn[0].n : i == 8 ? &cn[1].n : &nodes[i]; }
static void set_kids(int n, int count, int first) { char** s = (char**)malloc((count ? count : 1) * sizeof(char*)); kids[n] = s; for (int i = 0; i < count; i++) s[i] = (char*)N(first + i);
  N(n)->children.b = (char*)s; N(n)->children.e = (char*)(s + count); N(n)->children.c = N(n)->children.e; }
static void set_text(struct node* n, unsigned l, char a, char b) { n->text.p = n->text.buf; n->text.n = l; n->text.buf[0] = l > 0 ? a : 0; n->text.buf[1] = l > 1 ? b : 0; n->text.buf[2] = 0; }
void OPTIMIZE(char* sret, char* self, char* node_uptr);
int main(void) {
  static const int kind_of[NNODES] = { AST_For, AST_Assign_Decl, AST_Binary, AST_Prefix, AST_Block, AST_Id, AST_Constant, AST_Id, AST_Constant, AST_Id };
  unsigned nl = 1 + (nondet_u8() & 1); char na = (char)nondet_u8(), nb = (char)nondet_u8();
  for (int i = 0; i < NNODES; i++) { struct node* n = N(i); n->identifier = kind_of[i]; n->vptr = (char*)node_vtable; set_text(n, 0, 0, 0); n->children.b = n->children.e = n->children.c = 0; }
  set_text(&nodes[5], nl, na, nb); set_text(&nodes[7], nl, na, nb); set_text(&nodes[9], nl, na, nb); set_text(&nodes[2], 1, '<', 0); set_text(&nodes[3], 2, '+', '+'); set_text(&nodes[1], 1, '=', 0);
  int32_t start = nondet_i32(), end = nondet_i32(); __CPROVER_assume((int64_t)end - (int64_t)start <= MAXIT - 1); cval[0] = start; cval[1] = end;
  for (int j = 0; j < 2; j++) { D_BARE_TI(&cdata[j]) = (char*)&g__ZTIi; D_TI(&cdata[j]) = (char*)&g__ZTIi; D_FLAGS(&cdata[j]) = TIF_arithmetic; D_CPTR(&cdata[j]) = &cval[j]; D_PTR(&cdata[j]) = 0; cn[j].value.p = (char*)&cdata[j]; cn[j].value.pn = 0; }
  set_kids(0, 4, 1); set_kids(1, 2, 5); set_kids(2, 2, 7); set_kids(3, 1, 9);
  char* in = (char*)&nodes[0]; char* out = 0; char pass_obj[1];
  OPTIMIZE((char*)&out, pass_obj, (char*)&in);
  __CPROVER_assert(!__exc_pending, "C02: the pass does not fail");
  __CPROVER_assert(n_compiled == 1, "C02 O7b: an eligible loop is compiled (if this fails the pass changed what it accepts: see O7)");
  if (n_compiled != 1) return 0;
  int64_t niter = (int64_t)end - (int64_t)start; if (niter < 0) niter = 0;
  for (int r = 1; r <= 2; r++) {
    __CPROVER_assert(n_get - gets_at_start[r] >= 1 && (r == 2 || gets_at_start[2] - gets_at_start[1] == 1) && (r == 1 || n_get - gets_at_start[2] == 1), "C02: every execution of a compiled for loop declares its own, new loop variable (as `var i = start` does in the unoptimized loop); nothing is carried over in the closure");
    __CPROVER_assert(n_add[r] == 1 && added_var[r] >= gets_at_start[r] && added_var[r] < MAXV, "C02: the variable bound in the loop's scope is the one created by this execution");
    if (added_var[r] >= 0 && added_var[r] < MAXV) __CPROVER_assert(route[added_var[r]] == R_OWN, "C11: the for-loop variable owns its storage");
    __CPROVER_assert(added_name[r].n == nl && added_name[r].buf[0] == na && (nl < 2 || added_name[r].buf[1] == nb), "C02: the loop variable is declared under the name written in the loop header");
    __CPROVER_assert(n_new[r] == 1 && n_pop[r] == 1, "C09: one scope per execution, popped on exit");
    __CPROVER_assert(n_eval[r] == niter, "C02: the body is evaluated exactly as often as in the unoptimized loop");
    for (int k = 0; k < MAXIT; k++) if (k < niter) __CPROVER_assert(seen[r][k] == (int32_t)(start + k), "C02: the body sees the loop variable the unoptimized loop would show it");
  }
  if (added_var[1] >= 0 && added_var[1] < MAXV && added_var[1] != added_var[2]) {
    int v = added_var[1]; __CPROVER_assert(disposed[v] == 0 && data_cb[v].use >= 1 && owned_counter[v] == (int32_t)(start + niter), "C11: the variable of an earlier execution (possibly captured by a lambda) is alive and keeps its final value while the loop runs again"); }
  if (niter >= 2) __CPROVER_assert(0, "witness: two iterations"); if (niter == 0) __CPROVER_assert(0, "witness: no iteration");
  __CPROVER_assert(0, "witness: ran twice");
  return 0;
}
