/* C19 F3: script-level eval_file(name) - the real ChaiScript_Basic::internal_eval_file over P search paths.  Loading a file under a path is an
   abstract step (exists: its text / does not exist: file_not_found_error for THAT path), evaluating the loaded text is an abstract step (a value /
   a NESTED eval_file or use inside the file failed: file_not_found_error for another name / eval_error / something else).
   Asserted ("eval_file(path) gives the same result and ERROR as eval(content)"): paths are tried in order; the first path that has the file is
   loaded once and its text evaluated once under the resolved name; its value is the result; "not found under this path" - and only that - moves
   on to the next path; an error raised WHILE EVALUATING the file is what the caller sees: a nested file_not_found_error leaves as the very same
   object (it names the nested file, not this one), an eval_error reaches the script as a value of type eval_error, anything else unchanged;
   nothing is tried after the first file that exists; no path has it -> file_not_found_error for the requested name. */
#include "layout.h"
#include "bv_model.h"
#ifndef P
#define P 2
#endif
enum { E_OK = 0, E_MISSING, E_NESTED, E_EVAL_ERROR, E_OTHER, E_NKINDS };
static char chai[SZ_ChaiScript_Basic] __attribute__((aligned(16)));
static struct sso_string paths[P ? P : 1]; static struct sso_string fname;
static int beh[P ? P : 1], n_load[P ? P : 1], n_eval[P ? P : 1], seqno[P ? P : 1], seq, eval_args_ok = 1;
static int path_of(char* str) { struct sso_string* s = (struct sso_string*)str; __CPROVER_assert(s->n == 2 && s->p[1] == 'f', "C19: the name tried is <search path> + <requested name>"); return s->p[0] == 'a' ? 0 : 1; }
static struct bv_data values[P ? P : 1];
static struct fnf_image { char base[OFF_FNF_filename]; struct sso_string filename; char tail[SZ_FNF - OFF_FNF_filename - sizeof(struct sso_string) + 8]; } fnf_exc; static char other_exc[320] __attribute__((aligned(16))); static char* thrown;
extern struct verif_ti g__ZTISt13runtime_error;
static void throw_fnf(char a, char b) { fnf_exc.filename.p = fnf_exc.filename.buf; fnf_exc.filename.n = 2; fnf_exc.filename.buf[0] = a; fnf_exc.filename.buf[1] = b; fnf_exc.filename.buf[2] = 0; thrown = (char*)&fnf_exc; __VERIF_throw_static(thrown, TI_FNF); }
void LOAD_FILE(char* sret, char* file) { int i = path_of(file); n_load[i]++; seqno[i] = seq++;
  if (beh[i] == E_MISSING) { throw_fnf(i == 0 ? 'a' : 'b', 'f'); return; }
  struct sso_string* s = (struct sso_string*)sret; s->p = s->buf; s->n = 1; s->buf[0] = i == 0 ? 'A' : 'B'; s->buf[1] = 0; }
void DO_EVAL(char* sret, char* self, char* text, char* name, uint8_t internal) { int i = path_of(name); n_eval[i]++;
  struct sso_string* t = (struct sso_string*)text; if (!(self == chai && t->n == 1 && t->p[0] == (i == 0 ? 'A' : 'B') && n_load[i] == 1)) eval_args_ok = 0;
  switch (beh[i]) {
    case E_OK: ((struct BV*)sret)->p = (char*)&values[i]; ((struct BV*)sret)->pn = 0; return;
    case E_NESTED: throw_fnf('z', 'z'); return;
    case E_EVAL_ERROR: thrown = other_exc; __VERIF_throw_static(thrown, TI_EVAL_ERROR); return;
    default: thrown = other_exc; __VERIF_throw_static(thrown, (char*)&g__ZTISt13runtime_error); return;
  }
}
static int n_wrap; static char* wrapped;
void BV_FROM_EVAL_ERROR(char* self, char* ee, uint8_t rv) { n_wrap++; wrapped = ee; ((struct BV*)self)->p = (char*)&n_wrap; ((struct BV*)self)->pn = 0; }
void __VERIF_v1_hook(char* f, char* a) { }
static int n_fnf_ctor; static char* fnf_name;
void FNF_CTOR(char* self, char* name) { n_fnf_ctor++; fnf_name = name; }
void FNF_DTOR(char* self) { }
char* __VERIF_exc_type(void);
void EVAL_FILE(char* sret, char* self, char* name);
int main(void) {
  for (int i = 0; i < P; i++) { paths[i].p = paths[i].buf; paths[i].n = 1; paths[i].buf[0] = i == 0 ? 'a' : 'b'; paths[i].buf[1] = 0; unsigned b = nondet_u8(); __CPROVER_assume(b < E_NKINDS); beh[i] = (int)b; }
  fname.p = fname.buf; fname.n = 1; fname.buf[0] = 'f'; fname.buf[1] = 0;
  struct vec3* up = (struct vec3*)(chai + OFF_CB_use_paths); up->b = (char*)&paths[0]; up->e = (char*)&paths[P]; up->c = up->e;
  struct BV out = { 0, 0 };
  EVAL_FILE((char*)&out, chai, (char*)&fname);
  int k = 0; while (k < P && beh[k] == E_MISSING) k++;          /* the first path that has the file */
  for (int i = 0; i < P; i++) {
    __CPROVER_assert(n_load[i] == (i <= k ? 1 : 0) && n_eval[i] == (i == k ? 1 : 0), "C19: the search paths are tried in order; the first file that exists is loaded and evaluated once; nothing is tried after it - whatever its evaluation does");
    if (i && n_load[i]) __CPROVER_assert(seqno[i] > seqno[i - 1], "C19: in order");
  }
  __CPROVER_assert(eval_args_ok, "C19: what is evaluated is the text that was loaded, under the resolved file name");
  if (k == P) { __CPROVER_assert(__exc_pending && __VERIF_exc_type() == TI_FNF && n_fnf_ctor == 1 && fnf_name == (char*)&fname, "C19: a file found under no search path raises file_not_found_error for the requested name"); __CPROVER_assert(0, "witness: not found"); return 0; }
  switch (beh[k]) {
    case E_OK: __CPROVER_assert(!__exc_pending && out.p == (char*)&values[k], "C19: eval_file yields the value of the file's text"); __CPROVER_assert(0, "witness: evaluated"); break;
    case E_NESTED: __CPROVER_assert(__exc_pending && __exc_obj == thrown && n_fnf_ctor == 0, "C19: a failed nested include propagates its own error (the file that is missing is the nested one, not this one)"); __CPROVER_assert(0, "witness: nested include fails"); break;
    case E_EVAL_ERROR: __CPROVER_assert(__exc_pending && __VERIF_exc_type() == TI_BOXED_VALUE && n_wrap == 1 && wrapped == thrown, "C10: an eval_error of the file reaches the calling script as a value holding that eval_error"); __CPROVER_assert(0, "witness: eval_error"); break;
    default: __CPROVER_assert(__exc_pending && __exc_obj == thrown, "C19: any other error of the file leaves unchanged"); __CPROVER_assert(0, "witness: other error"); break;
  }
  return 0;
}
