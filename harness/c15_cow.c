/* C15 U2: saved states stay valid - the copy-on-write step of Dispatch_Engine::add_function (the real lambda that computes the new overload set).
   The functions table holds shared_ptr<vector<Proxy_Function>> per name; a State taken earlier shares those vectors.  Here the name is found,
   its vector (K overloads) is ALSO held by a saved State (use count 2), operator== between functions is an oracle, the table lookup,
   the vector copy constructor, the sort and the Dispatch_Function constructor are recorders; reserve / push_back / make_shared are the real code.
   Asserted: the vector the saved State shares is never written (same storage, same size, same elements); the table entry is switched to a NEW
   vector; exactly the table's share of the old vector is released (2 -> 1, not disposed); the vector that grows is a copy of the current
   overloads and the new function is appended to it; a duplicate raises name_conflict_error and changes nothing. */
#include "layout.h"
#include "bv_model.h"
#ifndef K
#define K 1
#endif
struct ctrl { char* vptr; uint32_t use; uint32_t weak; };
/* every dispose/destroy of a shared_ptr control block and every virtual destructor of the unit goes through this hook (-DVERIF_CALL_V1) */
static int n_v1; static char* v1_obj[4];
void __VERIF_v1_hook(char* f, char* a) { if (n_v1 < 4) v1_obj[n_v1] = a; n_v1++; }
static uint8_t eq_result[K + 1];
static int n_eq;
static uint8_t pf_equal(char* self, char* other) { int i = n_eq < K ? n_eq : K; n_eq++; return eq_result[i]; }
static char* pfb_vtable[12] = { (char*)pf_equal, (char*)pf_equal, (char*)pf_equal, (char*)pf_equal, (char*)pf_equal, (char*)pf_equal, (char*)pf_equal, (char*)pf_equal, (char*)pf_equal, (char*)pf_equal, (char*)pf_equal, (char*)pf_equal };
struct PFB { char* vptr; struct vec3 types; int32_t arity; uint8_t has_arith; uint8_t pad_[3]; };
static struct PFB fobj[K + 1];                     /* K registered overloads + the new function */
static struct BV old_elems[K ? K : 1]; static struct vec3 oldvec; static struct ctrl oldcb;
static struct { struct sso_string key; struct BV second; } qf_elem;
static char engine[SZ_Dispatch_Engine] __attribute__((aligned(16)));
static int n_find, found;
char* QFM_FIND(char* map, char* key) { n_find++; __CPROVER_assert(map >= engine + OFF_DE_state && map < engine + OFF_DE_state + SZ_DE_State, "C15: the overloads are looked up in the engine's function table");
  if (!found) return *(char**)(map + 8); return (char*)&qf_elem; }
static int n_copy; static char* copy_src[3]; static char* copy_dst[3];
void VEC_COPY(char* self, char* other) { if (n_copy < 3) { copy_src[n_copy] = other; copy_dst[n_copy] = self; } n_copy++;
  struct vec3* o = (struct vec3*)other; struct vec3* s = (struct vec3*)self; uint64_t n = (o->b == o->e) ? 0 : (uint64_t)((struct BV*)o->e - (struct BV*)o->b);
  struct BV* a = (struct BV*)malloc((n ? n : 1) * sizeof(struct BV)); __CPROVER_assume(a != 0);
  for (unsigned i = 0; i < K + 1; i++) if (i < n) a[i] = ((struct BV*)o->b)[i];
  s->b = (char*)a; s->e = (char*)(a + n); s->c = (char*)(a + n); }
void VEC_DTOR(char* self) { }
static int n_sort; static char* sort_first; static char* sort_last;
void STABLE_SORT(char* first, char* last, char* cmp) { n_sort++; sort_first = first; sort_last = last; }
static int n_disp; static uint64_t disp_n; static char* disp_last;
static void construct_dispatch(char* where, char* vec) { n_disp++; struct vec3* v = (struct vec3*)vec; disp_n = (v->b == v->e) ? 0 : (uint64_t)((struct BV*)v->e - (struct BV*)v->b); if (disp_n) disp_last = ((struct BV*)v->e)[-1].p; *(char**)where = (char*)pfb_vtable; }
#include "c15_cow_stubs.h"
static int n_insert;
QFM_INSERT_RET QFM_INSERT(char* map, char* pair) { n_insert++; QFM_INSERT_RET r; memset(&r, 0, sizeof r); return r; }
void F__ZN10chaiscript9exception19name_conflict_errorC2ERKNSt7__cxx1112basic_stringIcSt11char_traitsIcESaIcEEE(char* self, char* n) { }
char* F___dynamic_cast(char* p, char* src, char* dst, int64_t hint) { return 0; }
struct closure { char* self; char* name; char* f; };
void LAMBDA(char* sret, char* closure);
int main(void) {
  for (int i = 0; i <= K; i++) { fobj[i].vptr = (char*)pfb_vtable; fobj[i].arity = 1; eq_result[i] = nondet_u8() & 1; }
  for (int i = 0; i < K; i++) { old_elems[i].p = (char*)&fobj[i]; old_elems[i].pn = 0; }
  oldvec.b = (char*)&old_elems[0]; oldvec.e = (char*)&old_elems[K]; oldvec.c = oldvec.e;
  oldcb.vptr = 0; oldcb.use = 2; oldcb.weak = 1;                      /* shared by the table and by one saved State */
  qf_elem.key.p = qf_elem.key.buf; qf_elem.second.p = (char*)&oldvec; qf_elem.second.pn = (char*)&oldcb;
  found = nondet_u8() & 1;
#ifdef FORCE_FOUND
  __CPROVER_assume(found == FORCE_FOUND);
#endif
#ifdef FORCE_NODUP
  for (int i = 0; i <= K; i++) __CPROVER_assume(!eq_result[i]);
#endif
#ifdef FORCE_DUP
  { int any = 0; for (int i = 0; i < K; i++) if (eq_result[i]) any = 1; __CPROVER_assume(any); }
#endif
  static struct sso_string name; name.p = name.buf; name.n = 1; name.buf[0] = 'f';
  struct BV newf = { (char*)&fobj[K], 0 }; struct closure c = { engine, (char*)&name, (char*)&newf }; struct BV out = { 0, 0 };
  LAMBDA((char*)&out, (char*)&c);
  __CPROVER_assert(n_find == 1, "C15: one lookup of the name");
  /* the saved State's view */
  __CPROVER_assert(oldvec.b == (char*)&old_elems[0] && oldvec.e == (char*)&old_elems[K] && oldvec.c == oldvec.e, "C15: the overload vector a saved State shares is never resized or moved");
  for (int i = 0; i < K; i++) __CPROVER_assert(old_elems[i].p == (char*)&fobj[i] && old_elems[i].pn == 0, "C15: ... nor are its elements touched (a saved State stays valid however the engine changes later)");
  int dup = 0; for (int i = 0; i < K; i++) if (eq_result[i]) dup = 1;
  if (!found) {
    __CPROVER_assert(!__exc_pending && n_insert == 1 && qf_elem.second.p == (char*)&oldvec && oldcb.use == 2, "C15: a new name gets a new table entry; existing entries are untouched");
    __CPROVER_assert(0, "witness: new name");
  } else if (dup) {
    __CPROVER_assert(__exc_pending && qf_elem.second.p == (char*)&oldvec && qf_elem.second.pn == (char*)&oldcb && oldcb.use == 2 && n_insert == 0, "C15: registering an identical overload is refused and changes nothing");
    __CPROVER_assert(0, "witness: duplicate refused");
  } else {
    __CPROVER_assert(!__exc_pending, "C15: a new overload of an existing name is accepted");
    __CPROVER_assert(qf_elem.second.p != (char*)&oldvec && qf_elem.second.p != 0 && qf_elem.second.pn != (char*)&oldcb, "C15: the table entry is switched to a new vector (copy-on-write)");
    __CPROVER_assert(oldcb.use == 1, "C15: exactly the table's share of the old vector is released; the saved State's share keeps it alive");
    for (int i = 0; i < 4; i++) __CPROVER_assert(i >= n_v1 || v1_obj[i] != (char*)&oldcb, "C15: the shared vector is not destroyed");
    { struct vec3* nv = (struct vec3*)qf_elem.second.p; uint64_t n = (uint64_t)((struct BV*)nv->e - (struct BV*)nv->b);
      __CPROVER_assert(n == K + 1, "C15: the new vector has one overload more");
      int has_new = 0; for (unsigned i = 0; i < K + 1; i++) if (i < n && ((struct BV*)nv->b)[i].p == (char*)&fobj[K]) has_new = 1;
      __CPROVER_assert(has_new, "C15: ... and contains the new function"); }
    __CPROVER_assert(n_sort == 1 && n_disp == 1 && disp_n == K + 1, "C15: the dispatcher object is built over the grown overload set");
    __CPROVER_assert(0, "witness: overload added");
  }
  return 0;
}
