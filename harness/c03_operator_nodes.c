/* C03 / C05 (the "runtime operator node" route) / C07 / C09 / C10: the real eval_internal of the operator nodes - Binary_Operator_AST_Node (KIND 1),
   Fold_Right_Binary_Operator_AST_Node (KIND 2, right operand pre-evaluated by the optimizer), Prefix_AST_Node (KIND 3) - with abstract operand
   expressions (return a value with symbolic arithmetic/const flags, or throw), the node's operator code symbolic, and Boxed_Number::do_oper /
   Dispatch_Engine::call_function as abstract steps (return a value or throw arithmetic_error / dispatch_error / something else).
   Asserted: operands are evaluated once each, left before right; for arithmetic operands and a known operator the node computes
   Boxed_Number::do_oper(<the node's operator code>, operands in source order) and nothing else - the same computation the folds and the named
   functions perform (route agreement); ++/-- on a const number is refused before anything is computed; otherwise the operator function named by
   the node's text is called once with the operands in order, inside one function-call frame with the operands saved; arithmetic_error and every
   foreign exception leave as the very same object, a failed dispatch is reported as eval_error, anything else the number operator throws is
   reported as eval_error. */
#define NNODES 4
#include "node_model.h"
enum { R_RET = 0, R_ARITH_ERROR, R_DISPATCH_ERROR, R_OTHER };
static int evals[NNODES], eval_order[NNODES], seq; static struct bv_data opd[NNODES]; static int arith[NNODES], cst[NNODES];
void NODE_EVAL_CHILD(char* sret, char* self, char* st) {
  int idx = (int)((struct node*)self - nodes); evals[idx]++; eval_order[idx] = seq++;
  if (behav[idx] != B_RET) { child_throw(behav[idx], TI_EVAL_ERROR, TI_BOXED_VALUE); return; }
  ((struct BV*)sret)->p = (char*)&opd[idx]; ((struct BV*)sret)->pn = 0; }
static int n_do, do_arity, do_beh; static uint32_t do_op; static char* do_l; static char* do_r; static struct bv_data do_result, call_result, rhs_const;
static struct exc_image { char* vptr; char rest[152]; } op_exc; static char* op_thrown; static struct verif_ti ti_other_exc = {0, "*otherexc"};
static void op_throw(char* ti) { op_thrown = (char*)&op_exc; __VERIF_throw_static(op_thrown, ti); }
static void do_common(char* sret) { if (do_beh == R_RET) { ((struct BV*)sret)->p = (char*)&do_result; ((struct BV*)sret)->pn = 0; } else op_throw(do_beh == R_ARITH_ERROR ? TI_ARITH_ERROR : (char*)&ti_other_exc); }
void DO_OPER2(char* sret, uint32_t op, char* l, char* r) { n_do++; do_arity = 2; do_op = op; do_l = ((struct BV*)l)->p; do_r = ((struct BV*)r)->p; do_common(sret); }
void DO_OPER1(char* sret, uint32_t op, char* v) { n_do++; do_arity = 1; do_op = op; do_l = ((struct BV*)v)->p; do_common(sret); }
static int n_call, call_beh, call_name_ok; static uint64_t call_np; static int n_push, n_pop, n_save, save_before;
void CALL_FUNCTION(char* sret, char* self, uint64_t nlen, char* nptr, char* loc, char* params, char* conv) {
  n_call++; call_name_ok = (nlen == 2 && nptr[0] == 'o' && nptr[1] == 'p'); { char* b = *(char**)params; char* e = *(char**)(params + 8); call_np = (b == e) ? 0 : (uint64_t)((struct BV*)e - (struct BV*)b); }
  if (call_beh == R_RET) { ((struct BV*)sret)->p = (char*)&call_result; ((struct BV*)sret)->pn = 0; } else op_throw(call_beh == R_DISPATCH_ERROR ? TI_DISPATCH_ERROR : (char*)&ti_other_exc); }
void FPP_CTOR(char* self, char* st) { n_push++; } void FPP_DTOR(char* self) { n_pop++; }
void FPP_SAVE(char* self, char* params) { n_save++; save_before = (n_call == 0); }
static char conv_state[32] __attribute__((aligned(8))); char* CONVERSIONS(char* st) { return conv_state; }
void __VERIF_v1_hook(char* f, char* a) { }
char* __VERIF_exc_type(void);
void NODE_EVAL(char* sret, char* self, char* st);
#if KIND == 1
struct opnode { char bytes[SZ_BinOp_Node] __attribute__((aligned(8))); }; 
#define OPER_OFF OFF_BinOp_oper
#elif KIND == 2
struct opnode { char bytes[SZ_FoldR_Node] __attribute__((aligned(8))); };
#define OPER_OFF OFF_FoldR_oper
#else
struct opnode { char bytes[SZ_Prefix_Node] __attribute__((aligned(8))); };
#define OPER_OFF OFF_Prefix_oper
#endif
int main(void) {
  static union { struct node n; struct opnode raw; } N; static char* kids[2];
  for (int i = 0; i < NNODES; i++) { unsigned b = nondet_u32(); __CPROVER_assume(b < B_NKINDS); behav[i] = (int)b; arith[i] = nondet_u8() & 1; cst[i] = nondet_u8() & 1;
    D_FLAGS(&opd[i]) = (arith[i] ? TIF_arithmetic : 0) | (cst[i] ? TIF_const : 0); nodes[i].text.p = nodes[i].text.buf; }
  D_FLAGS(&rhs_const) = TIF_arithmetic | TIF_const;
  { unsigned b = nondet_u32(); __CPROVER_assume(b <= R_OTHER && b != R_DISPATCH_ERROR); do_beh = (int)b; } { unsigned b = nondet_u32(); __CPROVER_assume(b <= R_OTHER && b != R_ARITH_ERROR); call_beh = (int)b; }
  uint32_t oper = nondet_u32(); __CPROVER_assume(oper <= OP_invalid); *(uint32_t*)(N.raw.bytes + OPER_OFF) = oper;
  N.n.text.p = N.n.text.buf; N.n.text.n = 2; N.n.text.buf[0] = 'o'; N.n.text.buf[1] = 'p'; N.n.text.buf[2] = 0;
  kids[0] = (char*)&nodes[1]; kids[1] = (char*)&nodes[2]; N.n.children.b = (char*)&kids[0]; N.n.children.e = (char*)&kids[KIND == 1 ? 2 : 1]; N.n.children.c = N.n.children.e;
#if KIND == 2
  ((struct BV*)(N.raw.bytes + OFF_FoldR_rhs))->p = (char*)&rhs_const; ((struct BV*)(N.raw.bytes + OFF_FoldR_rhs))->pn = 0;
#endif
  static char engine[SZ_Dispatch_Engine] __attribute__((aligned(8))); static char* state[4]; state[0] = engine; struct BV out = { 0, 0 };
  NODE_EVAL((char*)&out, (char*)&N, (char*)state);
  __CPROVER_assert(n_push == n_pop && n_push <= 1, "C09: at most one function-call frame, always popped");
  __CPROVER_assert(evals[1] == 1, "C03: the (left) operand is evaluated exactly once");
  if (behav[1] != B_RET) { __CPROVER_assert(__exc_pending && __exc_obj == thrown_obj && evals[2] == 0 && n_do + n_call == 0, "C10: an exception in the left operand leaves unchanged; nothing else happens"); __CPROVER_assert(0, "witness: operand throws"); return 0; }
#if KIND == 1
  __CPROVER_assert(evals[2] == 1 && eval_order[2] > eval_order[1], "C03: the right operand is evaluated once, after the left one");
  if (behav[2] != B_RET) { __CPROVER_assert(__exc_pending && __exc_obj == thrown_obj && n_do + n_call == 0, "C10: an exception in the right operand leaves unchanged"); __CPROVER_assert(0, "witness: operand throws"); return 0; }
  int numeric = oper != OP_invalid && arith[1] && arith[2]; char* want_r = (char*)&opd[2]; int refused_const = 0;
#elif KIND == 2
  int numeric = arith[1]; char* want_r = (char*)&rhs_const; int refused_const = 0;
#else
  int numeric = oper != OP_invalid && oper != OP_bitwise_and && arith[1]; char* want_r = 0; int refused_const = numeric && (oper == OP_pre_increment || oper == OP_pre_decrement) && cst[1];
#endif
  if (refused_const) { __CPROVER_assert(__exc_pending && __VERIF_exc_type() == TI_EVAL_ERROR && n_do + n_call == 0, "C07: ++/-- on a const number is refused before anything is computed"); __CPROVER_assert(0, "witness: const refused"); return 0; }
  if (numeric) {
    __CPROVER_assert(n_do == 1 && n_call == 0 && n_push == 0 && do_op == oper && do_l == (char*)&opd[1] && (KIND == 3 ? do_arity == 1 : (do_arity == 2 && do_r == want_r)),
                     "C05: on arithmetic operands the operator node computes Boxed_Number::do_oper(<its operator code>, operands in source order) - the computation of every other route");
    if (do_beh == R_RET) { __CPROVER_assert(!__exc_pending && out.p == (char*)&do_result, "C03: the value of the operator expression is the operator's result"); __CPROVER_assert(0, "witness: numeric"); }
    else if (do_beh == R_ARITH_ERROR) { __CPROVER_assert(__exc_pending && __exc_obj == op_thrown, "C05/C10: arithmetic_error (division by zero ...) leaves as the very same object"); __CPROVER_assert(0, "witness: arithmetic_error"); }
#if KIND == 3
    else { __CPROVER_assert(__exc_pending && __exc_obj == op_thrown, "C10: what the number operator throws leaves the prefix node unchanged"); __CPROVER_assert(0, "witness: numeric failure"); }
#else
    else { __CPROVER_assert(__exc_pending && __VERIF_exc_type() == TI_EVAL_ERROR, "C05: any other failure of the number operator is reported as eval_error"); __CPROVER_assert(0, "witness: numeric failure"); }
#endif
  } else {
    __CPROVER_assert(n_call == 1 && n_do == 0 && call_name_ok && call_np == (KIND == 3 ? 1 : 2), "C03: otherwise the operator function named by the node's text is called once with the operands");
    __CPROVER_assert(n_push == 1 && n_save == 1 && save_before, "C09/C11: ... inside one function-call frame, with the operands saved before the call");
    if (call_beh == R_RET) { __CPROVER_assert(!__exc_pending && out.p == (char*)&call_result, "C03: the value is the function's result"); __CPROVER_assert(0, "witness: dispatched"); }
    else if (call_beh == R_DISPATCH_ERROR) { __CPROVER_assert(__exc_pending && __VERIF_exc_type() == TI_EVAL_ERROR, "C10: no matching operator function is reported as eval_error"); __CPROVER_assert(0, "witness: dispatch failure"); }
    else { __CPROVER_assert(__exc_pending && __exc_obj == op_thrown, "C10: an exception of the operator function leaves as the very same object"); __CPROVER_assert(0, "witness: callee exception"); }
  }
  return 0;
}
