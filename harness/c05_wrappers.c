/* C05 A4: the named operator functions of Boxed_Number that the bootstrap registers under the operator spellings (sum, difference,
   assign_product, less_than, pre_increment, ...): each real wrapper with Boxed_Number::oper as a recorder.
   Asserted: the wrapper applies exactly the operator its name says (code NAME), to its own operands in their order, once, and hands the
   result through (comparison wrappers: the bool the result holds; the others: a Boxed_Number around the very result). */
#include "layout.h"
#include "bv_model.h"
static int n_oper, oper_arity; static uint32_t oper_op; static char* oper_l; static char* oper_r; static struct bv_data result_data, lhs_data, rhs_data;
void OPER2(char* sret, uint32_t op, char* l, char* r) { n_oper++; oper_arity = 2; oper_op = op; oper_l = ((struct BV*)l)->p; oper_r = ((struct BV*)r)->p; ((struct BV*)sret)->p = (char*)&result_data; ((struct BV*)sret)->pn = 0; }
void OPER1(char* sret, uint32_t op, char* l) { n_oper++; oper_arity = 1; oper_op = op; oper_l = ((struct BV*)l)->p; ((struct BV*)sret)->p = (char*)&result_data; ((struct BV*)sret)->pn = 0; }
static int n_bn; static char* bn_of; static int cast_calls; static uint8_t cast_val;
void BN_CTOR(char* self, char* bv) { n_bn++; bn_of = ((struct BV*)bv)->p; ((struct BV*)self)->p = bn_of; ((struct BV*)self)->pn = 0; ((struct BV*)bv)->p = 0; }
uint8_t BOXED_CAST_BOOL(char* bv, char* conv) { cast_calls++; __CPROVER_assert(((struct BV*)bv)->p == (char*)&result_data, "C05: a comparison yields the bool its operator produced"); return cast_val; }
#if KIND == 1          /* bool f(const Boxed_Number&, const Boxed_Number&) */
uint8_t WRAPPER(char* l, char* r);
#elif KIND == 2        /* Boxed_Number f(const Boxed_Number& | Boxed_Number, const Boxed_Number&) */
void WRAPPER(char* sret, char* l, char* r);
#else                  /* Boxed_Number f(const Boxed_Number& | Boxed_Number) */
void WRAPPER(char* sret, char* l);
#endif
int main(void) {
  struct BV l = { (char*)&lhs_data, 0 }, r = { (char*)&rhs_data, 0 }, out = { 0, 0 }; cast_val = nondet_u8() & 1;
#if KIND == 1
  uint8_t res = WRAPPER((char*)&l, (char*)&r);
  __CPROVER_assert(!__exc_pending && cast_calls == 1 && (res & 1) == cast_val, "C05: a comparison function returns the truth value of its operator");
#elif KIND == 2
  WRAPPER((char*)&out, (char*)&l, (char*)&r);
  __CPROVER_assert(!__exc_pending && n_bn == 1 && bn_of == (char*)&result_data && out.p == (char*)&result_data, "C05: a named operator function returns the value its operator produced");
#else
  WRAPPER((char*)&out, (char*)&l);
  __CPROVER_assert(!__exc_pending && n_bn == 1 && bn_of == (char*)&result_data && out.p == (char*)&result_data, "C05: a named operator function returns the value its operator produced");
#endif
  __CPROVER_assert(n_oper == 1 && oper_op == NAME, "C05: a named operator function applies exactly the operator its name says");
  __CPROVER_assert(oper_l == (char*)&lhs_data && (KIND == 3 ? oper_arity == 1 : (oper_arity == 2 && oper_r == (char*)&rhs_data)), "C05: ... to its own operands, in their order");
  __CPROVER_assert(0, "witness: wrapper ran");
  return 0;
}
