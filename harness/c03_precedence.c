/* C03 S3 (table part): the operator precedence the parser climbs - the real Operator_Matches::is_match(level, text) on the real constant
   table object of the parser, for every level and every text of 1-3 bytes over the operator characters, and the real m_operators array.
   Asserted: an operator spelling belongs to level L exactly as in C - 0 `?`, 1 `||`, 2 `&&`, 3 `|`, 4 `^`, 5 `&`, 6 `== !=`, 7 `< <= > >=`,
   8 `<< >>`, 9 `+ -`, 10 `* / %` (lower level = binds weaker), 11 the prefix operators `++ -- - + ! ~`; nothing else is an operator at any
   level; m_operators names those levels in this order.  (The recursion Operator(level) that uses the table is outside.) */
#include "layout.h"
#include "bv_model.h"
uint8_t IS_MATCH(char* self, uint64_t group, uint64_t len, char* ptr);
static int eq(const char* s, unsigned n, const char* lit) { unsigned l = 0; while (lit[l]) l++; if (l != n) return 0; for (unsigned i = 0; i < 3; i++) if (i < n && s[i] != lit[i]) return 0; return 1; }
int main(void) {
  const char alpha[16] = { '?', '|', '&', '^', '=', '!', '<', '>', '+', '-', '*', '/', '%', '~', ':', '.' };
  char s[3]; unsigned n = NLEN; for (unsigned i = 0; i < 3; i++) { unsigned k = nondet_u8() & 15; s[i] = alpha[k]; }
  uint64_t g = nondet_u64(); __CPROVER_assume(g <= 13);
  uint8_t res = IS_MATCH(MATCHES, g, n, s) & 1;
  int want = 0;
  switch (g) {
    case 0: want = eq(s, n, "?"); break;
    case 1: want = eq(s, n, "||"); break;
    case 2: want = eq(s, n, "&&"); break;
    case 3: want = eq(s, n, "|"); break;
    case 4: want = eq(s, n, "^"); break;
    case 5: want = eq(s, n, "&"); break;
    case 6: want = eq(s, n, "==") || eq(s, n, "!="); break;
    case 7: want = eq(s, n, "<") || eq(s, n, "<=") || eq(s, n, ">") || eq(s, n, ">="); break;
    case 8: want = eq(s, n, "<<") || eq(s, n, ">>"); break;
    case 9: want = eq(s, n, "+") || eq(s, n, "-"); break;
    case 10: want = eq(s, n, "*") || eq(s, n, "/") || eq(s, n, "%"); break;
    case 11: want = eq(s, n, "++") || eq(s, n, "--") || eq(s, n, "-") || eq(s, n, "+") || eq(s, n, "!") || eq(s, n, "~"); break;
    default: want = 0; break;
  }
  __CPROVER_assert(!__exc_pending && res == want, "C03: every operator spelling sits at exactly its C precedence level (and nothing else is an operator)");
  const int32_t* ops = (const int32_t*)OPERATORS;
  const int32_t order[12] = { PREC_Ternary_Cond, PREC_Logical_Or, PREC_Logical_And, PREC_Bitwise_Or, PREC_Bitwise_Xor, PREC_Bitwise_And, PREC_Equality, PREC_Comparison, PREC_Shift, PREC_Addition, PREC_Multiplication, PREC_Prefix };
  for (int i = 0; i < 12; i++) __CPROVER_assert(ops[i] == order[i], "C03: the precedence levels are climbed from the ternary conditional (weakest) to prefix (strongest) in C order");
  if (want) __CPROVER_assert(0, "witness: operator"); else __CPROVER_assert(0, "witness: not an operator");
  return 0;
}
