/* C10 X1 (+ C09 for this node): the real Try_AST_Node::eval_internal + handle_exception.
   Tree: Try[ body, Catch*, Finally? ]; the body, every handler block and the finally block are abstract children whose
   behaviour (return / throw one of 6 kinds) the solver chooses; Param_Types::match is an oracle per typed clause.
   Shape: NCATCH (0..2), TYPED0/TYPED1 (clause has a typed variable), FIN (finally present).
   Asserted: first matching clause runs, once; finally exactly once on every path; no clause matches => the SAME exception
   object leaves; a throw inside a handler or in finally is what leaves; scope depth restored on every exit. */
#define NNODES 10
#include "node_model.h"
enum { N_TRY = 0, N_BODY = 1, N_CATCH0 = 2, N_CATCH1 = 3, N_FIN = 4, N_ARG = 5, N_H0 = 6, N_H1 = 7, N_FBLOCK = 8 };
void F__ZN10chaiscript9exception10eval_errorC2ERKNSt7__cxx1112basic_stringIcSt11char_traitsIcESaIcEEE(char* self, char* s) { }
void F__ZN10chaiscript9exception10eval_errorD2Ev(char* self) { }
void F__ZN10chaiscript9exception10eval_errorD0Ev(char* self) { }
static void mkbv(struct BV* out, int n) { out->p = valpool[n]; out->pn = 0; }
#define REFCTOR(NAME) void NAME(char* self, char* ref, uint8_t rv) { mkbv((struct BV*)self, NNODES - 2); }
REFCTOR(F__ZN10chaiscript11Boxed_ValueC2ISt17reference_wrapperIKNS_9exception10eval_errorEEvEEOT_b)
REFCTOR(F__ZN10chaiscript11Boxed_ValueC2ISt17reference_wrapperIKSt13runtime_errorEvEEOT_b)
REFCTOR(F__ZN10chaiscript11Boxed_ValueC2ISt17reference_wrapperIKSt12out_of_rangeEvEEOT_b)
REFCTOR(F__ZN10chaiscript11Boxed_ValueC2ISt17reference_wrapperIKSt9exceptionEvEEOT_b)
void F__ZN10chaiscript11Boxed_ValueD2Ev(char* self) { }
/* Boxed_Value() allocates an 'undefined' Data: cut (pair with the destructor): an object without control block */
static char undef_data[8];
void F__ZN10chaiscript11Boxed_Value11Object_Data3getEv(char* sret) { ((struct BV*)sret)->p = undef_data; ((struct BV*)sret)->pn = 0; }
void NEW_SCOPE(char* h) { scope_depth++; }
void POP_SCOPE(char* h) { scope_depth--; }
char* F__ZNK10chaiscript6detail14Dispatch_State11conversionsEv(char* s) { return s; }
char* STACK_HOLDER(char* s) { return s; }
/* AST_Node_Impl::eval(sret, this, state): the abstract child */
void F__ZNK10chaiscript4eval13AST_Node_ImplINS0_6TracerIJNS0_18Noop_Tracer_DetailEEEEE4evalERKNS_6detail14Dispatch_StateE(char* sret, char* self, char* st) {
  int idx = (int)((struct node*)self - nodes);
  LOG(100 + idx); LOG(1000 + scope_depth);
  if (behav[idx] == B_RET) { mkbv((struct BV*)sret, idx); return; }
  child_throw(behav[idx], TI_EVAL_ERROR, TI_BOXED_VALUE);
}
void F__ZN10chaiscript4eval17Arg_List_AST_NodeINS0_6TracerIJNS0_18Noop_Tracer_DetailEEEEE12get_arg_nameB5cxx11ERKNS0_13AST_Node_ImplIS4_EE(char* sret, char* n) { struct sso_string* s = (struct sso_string*)sret; s->p = s->buf; s->n = 1; s->buf[0] = 'e'; s->buf[1] = 0; }
/* the declared type of a typed clause: a non-empty type name and an ARBITRARY Type_Info (a script class or an unknown type name
   yields an undefined Type_Info; a registered C++ type a defined one) - whether the clause accepts the exception is decided by
   Param_Types::match alone */
void F__ZN10chaiscript4eval17Arg_List_AST_NodeINS0_6TracerIJNS0_18Noop_Tracer_DetailEEEEE12get_arg_typeB5cxx11ERKNS0_13AST_Node_ImplIS4_EERKNS_6detail14Dispatch_StateE(char* sret, char* n, char* st) {
  memset(sret, 0, 56); struct sso_string* s = (struct sso_string*)sret; s->p = s->buf; s->n = 1; s->buf[0] = 'T';
  *(uint32_t*)(sret + 32 + OFF_TI_flags) = nondet_u32() & (TIF_undef | TIF_const | TIF_reference | TIF_pointer | TIF_arithmetic); }
void F__ZN10chaiscript8dispatch11Param_TypesC2ESt6vectorISt4pairINSt7__cxx1112basic_stringIcSt11char_traitsIcESaIcEEENS_9Type_InfoEESaISB_EE(char* self, char* v) { }
void F__ZN10chaiscript8dispatch11Param_TypesD2Ev(char* self) { }
static int match_of[2]; static int clause_ix;
uint16_t F__ZNK10chaiscript8dispatch11Param_Types5matchERKNS_15Function_ParamsERKNS_22Type_Conversions_StateE(char* self, char* ps, char* cs) { int m = match_of[clause_ix & 1]; LOG(300 + (clause_ix & 1)); clause_ix++; return (uint16_t)(m ? 1 : 0); }
void F__ZNK10chaiscript6detail14Dispatch_State10add_objectERKNSt7__cxx1112basic_stringIcSt11char_traitsIcESaIcEEENS_11Boxed_ValueE(char* self, char* name, char* bv) { LOG(400); }
void TRY_EVAL(char* sret, char* self, char* st);
int main(void) {
  const int typed[2] = { TYPED0, TYPED1 };
  nodes[N_TRY].identifier = AST_Try; nodes[N_CATCH0].identifier = AST_Catch; nodes[N_CATCH1].identifier = AST_Catch; nodes[N_FIN].identifier = AST_Finally; nodes[N_BODY].identifier = AST_Block;
  node_set_children(N_CATCH0, typed[0] ? N_ARG : N_H0, typed[0] ? N_H0 : -1, -1, -1);
  node_set_children(N_CATCH1, typed[1] ? N_ARG : N_H1, typed[1] ? N_H1 : -1, -1, -1);
  node_set_children(N_FIN, N_FBLOCK, -1, -1, -1);
  node_set_children(N_TRY, N_BODY, NCATCH >= 1 ? N_CATCH0 : (FIN ? N_FIN : -1), NCATCH >= 2 ? N_CATCH1 : (NCATCH == 1 && FIN ? N_FIN : -1), NCATCH == 2 && FIN ? N_FIN : -1);
  for (int i = 0; i < NNODES; i++) { unsigned b = nondet_u32(); __CPROVER_assume(b < B_NKINDS); behav[i] = (int)b; }
  match_of[0] = nondet_u8() & 1; match_of[1] = nondet_u8() & 1;
  static char state[SZ_Dispatch_State] __attribute__((aligned(8)));
  struct BV out = { 0, 0 };
  TRY_EVAL((char*)&out, (char*)&nodes[N_TRY], state);
  /* ---- reference semantics of try / catch / finally */
  int body = behav[N_BODY];
  int script_visible = (body == B_EVAL_ERROR || body == B_RUNTIME || body == B_OOR || body == B_STDEXC || body == B_BV);   /* what a script catch clause can see */
  int handler = -1;                                  /* index of the clause that handles */
  if (body != B_RET && script_visible) for (int i = 0; i < NCATCH; i++) if (handler < 0 && (!typed[i] || match_of[i])) handler = i;
  int hnode = handler == 0 ? N_H0 : N_H1;
  int exp_exc;       /* 0 none, 1 = the body's exception object itself, 2 = the handler's exception, 3 = finally's exception */
  if (body == B_RET) exp_exc = 0; else if (handler < 0) exp_exc = 1; else exp_exc = (behav[hnode] == B_RET) ? 0 : 2;
  if (FIN && behav[N_FBLOCK] != B_RET) exp_exc = 3;
  __CPROVER_assert(scope_depth == 0, "C09: the scope depth is restored on every exit of a try node");
  __CPROVER_assert(log_count(100 + N_BODY) == 1, "C10: the try body is evaluated exactly once");
  if (FIN) __CPROVER_assert(log_count(100 + N_FBLOCK) == 1, "C10: the finally block runs exactly once on every path through the try node");
  if (handler >= 0) __CPROVER_assert(log_count(100 + hnode) == 1, "C10: the first matching catch clause runs exactly once");
  if (handler != 0) __CPROVER_assert(log_count(100 + N_H0) == 0, "C10: a catch clause that does not match does not run");
  if (handler != 1) __CPROVER_assert(log_count(100 + N_H1) == 0, "C10: only the first matching catch clause runs");
  if (exp_exc == 0) __CPROVER_assert(!__exc_pending, "C10: a handled exception (or none) does not leave the try node");
  else {
    __CPROVER_assert(__exc_pending, "C10: an exception no catch clause accepts is not lost");
    if (exp_exc == 1) __CPROVER_assert(__exc_pending && __exc_obj == thrown_obj && thrown_kind == body, "C10: an unhandled exception leaves the try node as the very same exception object");
    if (exp_exc == 2) __CPROVER_assert(__exc_pending && __exc_obj == thrown_obj && thrown_kind == behav[hnode], "C10: an exception thrown by a handler is what leaves the try node");
    if (exp_exc == 3) __CPROVER_assert(__exc_pending && thrown_kind == behav[N_FBLOCK], "C10: an exception thrown by the finally block leaves the try node");
  }
  if (exp_exc == 0 && !__exc_pending) __CPROVER_assert(out.p == (FIN ? valpool[N_FBLOCK] : body == B_RET ? valpool[N_BODY] : valpool[hnode]), "C10: the value of a try node is that of the finally block, else the handler, else the body");
  if (exp_exc == 0) __CPROVER_assert(0, "witness: completes normally");
  if (exp_exc == 1) __CPROVER_assert(0, "witness: unhandled exception");
  if (exp_exc == 2) __CPROVER_assert(0, "witness: handler throws");
  if (exp_exc == 3) __CPROVER_assert(0, "witness: finally throws");
  return 0;
}
