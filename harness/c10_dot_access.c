/* C10 X6 / C03 / C06 / C09 / C11: the real Dot_Access_AST_Node::eval_internal - member access and method calls  obj.name  /  obj.name(args) -
   with abstract object / argument expressions; Dispatch_Engine::call_member (which finds and enters the member: C06) is an abstract step that
   returns or throws (dispatch_error with or without candidate functions, bad_boxed_cast, arity_error, guard_error, Return_Value, eval_error,
   std::runtime_error, a script value, a foreign type).  std::vector<Boxed_Value> growth (make_vector / push_back) is a recorder over harness
   storage (the libstdc++ growth code on a byte-addressed temporary is out of reach).
   Parser invariant used: the right side of a dot is an identifier or a call `name(args)` (Dot_Fun_Array builds a.b[i] as Array_Call(Dot_Access(a,b), i)).
   Asserted: the object expression, then the arguments left to right, once each, stopping at the first that throws; ONE member call, to the
   name the node was built for, through this node's own cache slot, with the object as first value followed by exactly the argument values in order,
   flagged as "has arguments" exactly when there is an argument list; all values saved for the duration of the call before it; a dispatch_error is
   reported as eval_error; a Return_Value becomes the value; EVERY other exception leaves as the very same object; one call frame on every path. */
#define NNODES 8
#include "node_model.h"
#ifndef NA
#define NA 1
#endif
#ifndef RHS
#define RHS 1          /* 0: obj.name   1: obj.name(NA arguments) */
#endif
enum { C_RET = 0, C_DISPATCH_NOFUN, C_DISPATCH_FUNS, C_BADCAST, C_ARITY, C_GUARD, C_RETURN, C_EVAL_ERROR, C_RUNTIME, C_BV, C_FOREIGN, C_NKINDS };
static struct { struct node n; char tail[SZ_Dot_Access - SZ_Node]; } dot __attribute__((aligned(8)));
#define DOT ((char*)&dot)
#define FUN_NAME ((struct sso_string*)(DOT + OFF_DA_fun_name))
static int evals[NNODES], eval_order[NNODES], eval_seq;
void NODE_EVAL_CHILD(char* sret, char* self, char* st) {
  int idx = (int)((struct node*)self - nodes); evals[idx]++; eval_order[idx] = eval_seq++;
  if (behav[idx] != B_RET) { child_throw(behav[idx], TI_EVAL_ERROR, TI_BOXED_VALUE); return; }
  ((struct BV*)sret)->p = valpool[idx]; ((struct BV*)sret)->pn = 0; }
/* ---- std::vector<Boxed_Value> as a recorder over fixed storage */
static struct BV vstore[4]; static int n_vec_made, n_vec_dtor;
void MAKE_VECTOR(char* sret, char* bv) { n_vec_made++; vstore[0] = *(struct BV*)bv; struct vec3* v = (struct vec3*)sret; v->b = (char*)&vstore[0]; v->e = (char*)&vstore[1]; v->c = (char*)&vstore[4]; }
void VEC_PUSH_BACK(char* vec, char* bv) { struct vec3* v = (struct vec3*)vec; __CPROVER_assert(v->b == (char*)&vstore[0] && v->e < v->c, "BOUND: more than 3 arguments"); __CPROVER_assume(v->e < v->c);
  *(struct BV*)v->e = *(struct BV*)bv; ((struct BV*)bv)->p = 0; ((struct BV*)bv)->pn = 0; v->e += sizeof(struct BV); }
void VEC_DTOR(char* vec) { n_vec_dtor++; }
static int values_in_order(char* params) { struct BV* b = *(struct BV**)params; struct BV* e = *(struct BV**)(params + 8);
  if (e - b != 1 + (RHS ? NA : 0)) return 0; if (b[0].p != valpool[1]) return 0;
  for (int i = 0; i < NA; i++) if (RHS && b[1 + i].p != valpool[5 + i]) return 0; return 1; }
static int n_push, n_pop, n_save, save_before_call, save_ok; static int n_call, call_beh, call_ok; static struct bv_data call_result, rv_value;
void FPP_CTOR(char* self, char* st) { n_push++; }
void FPP_DTOR(char* self) { n_pop++; }
void FPP_SAVE(char* self, char* params) { n_save++; save_ok = values_in_order(params); save_before_call = (n_call == 0); }
static char* what_stub(char* self) { return "x"; }
static char* exc_vtable[6] = { (char*)what_stub, (char*)what_stub, (char*)what_stub, (char*)what_stub, (char*)what_stub, (char*)what_stub };
static struct exc_image { char* vptr; char* f1; struct vec3 parameters; struct vec3 functions; char rest[96]; } call_exc = { (char*)exc_vtable, 0, {0, 0, 0}, {0, 0, 0}, {0} }, rv_exc;
_Static_assert(offsetof(struct exc_image, functions) == OFF_DErr_functions, "dispatch_error layout");
static char one_function[16];
static void throw_kind(char* ti) { thrown_obj = (char*)&call_exc; __VERIF_throw_static(thrown_obj, ti); }
void CALL_MEMBER(char* sret, char* engine, char* name, char* loc, char* params, uint8_t has_params, char* conv) {
  n_call++; call_ok = name == DOT + OFF_DA_fun_name && loc == DOT + OFF_DA_loc && values_in_order(params) && (has_params & 1) == (RHS ? 1 : 0);
  thrown_kind = call_beh;
  switch (call_beh) {
    case C_RET: ((struct BV*)sret)->p = (char*)&call_result; ((struct BV*)sret)->pn = 0; return;
    case C_DISPATCH_NOFUN: throw_kind(TI_DISPATCH_ERROR); return;
    case C_DISPATCH_FUNS: call_exc.functions.b = one_function; call_exc.functions.e = call_exc.functions.c = one_function + 16; throw_kind(TI_DISPATCH_ERROR); return;
    case C_BADCAST: throw_kind(TI_BAD_BOXED_CAST); return;
    case C_ARITY: throw_kind(TI_ARITY_ERROR); return;
    case C_GUARD: throw_kind(TI_GUARD_ERROR); return;
    case C_RETURN: rv_exc.vptr = (char*)&rv_value; rv_exc.f1 = 0; thrown_obj = (char*)&rv_exc; __VERIF_throw_static(thrown_obj, TI_RETURN_VALUE); return;
    case C_EVAL_ERROR: throw_kind(TI_EVAL_ERROR); return;
    case C_RUNTIME: throw_kind((char*)&g__ZTISt13runtime_error); return;
    case C_BV: throw_kind(TI_BOXED_VALUE); return;
    default: throw_kind((char*)&ti_foreign); return;
  }
}
void CALL_FUNCTION(char* sret, char* engine, uint64_t nlen, char* nptr, char* loc, char* params, char* conv) { __CPROVER_assert(0, "C03: obj.name / obj.name(args) makes no other call (the [] route belongs to a right side the parser never builds)"); }
void __VERIF_v1_hook(char* f, char* a) { }
static char conv_state[32] __attribute__((aligned(8)));
char* CONVERSIONS(char* st) { return conv_state; }
char* __VERIF_exc_type(void);
void NODE_EVAL(char* sret, char* self, char* st);
int main(void) {
  for (int i = 0; i < NNODES; i++) { unsigned b = nondet_u32(); __CPROVER_assume(b < B_NKINDS); behav[i] = (int)b; nodes[i].identifier = AST_Id; }
  { unsigned b = nondet_u32(); __CPROVER_assume(b < C_NKINDS); call_beh = (int)b; }
  /* dot -> [1 object expression, 2 right side]; right side: Id, or Fun_Call -> [3 name, 4 Arg_List -> 5 .. 4+NA] */
  static char* dot_kids[2]; dot_kids[0] = (char*)&nodes[1]; dot_kids[1] = (char*)&nodes[2]; dot.n.children.b = (char*)&dot_kids[0]; dot.n.children.e = dot.n.children.c = (char*)&dot_kids[2]; dot.n.identifier = AST_Dot_Access; dot.n.text.p = dot.n.text.buf;
  FUN_NAME->p = FUN_NAME->buf; FUN_NAME->n = 1; FUN_NAME->buf[0] = 'm'; FUN_NAME->buf[1] = 0;
#if RHS
  nodes[2].identifier = AST_Fun_Call; node_set_children(2, 3, 4, -1, -1); nodes[4].identifier = AST_Arg_List; node_set_children(4, NA >= 1 ? 5 : -1, NA >= 2 ? 6 : -1, NA >= 3 ? 7 : -1, -1);
#else
  node_set_children(2, -1, -1, -1, -1);
#endif
  static char engine[SZ_Dispatch_Engine] __attribute__((aligned(8))); static char* state[4]; state[0] = engine; struct BV out = { 0, 0 };
  NODE_EVAL((char*)&out, DOT, (char*)state);
  __CPROVER_assert(n_push == 1 && n_pop == 1, "C09: a member access pushes and pops exactly one function-call frame on every exit");
  __CPROVER_assert(evals[1] == 1 && evals[2] == 0 && evals[3] == 0 && evals[4] == 0, "C03: the object expression is evaluated once; the member name is not evaluated as an expression");
  if (behav[1] != B_RET) { __CPROVER_assert(__exc_pending && __exc_obj == thrown_obj && n_call == 0, "C10: an exception in the object expression leaves unchanged; nothing is called"); __CPROVER_assert(0, "witness: object throws"); return 0; }
  int nargs = RHS ? NA : 0; int first_bad = 0; for (int i = nargs; i >= 1; i--) if (behav[4 + i] != B_RET) first_bad = i;
  for (int i = 1; i <= nargs; i++) __CPROVER_assert(evals[4 + i] == ((first_bad == 0 || i <= first_bad) ? 1 : 0) && (!evals[4 + i] || eval_order[4 + i] > (i == 1 ? eval_order[1] : eval_order[3 + i])), "C03: arguments are evaluated once each, left to right, after the object, stopping at the first that throws");
  if (first_bad) { __CPROVER_assert(__exc_pending && __exc_obj == thrown_obj && n_call == 0, "C10: an exception in an argument leaves unchanged; nothing is called"); __CPROVER_assert(0, "witness: argument throws"); return 0; }
  __CPROVER_assert(n_save == 1 && save_ok && save_before_call, "C11: the object and the argument values are saved for the duration of the call, before it");
  __CPROVER_assert(n_call == 1 && call_ok, "C06: one member call - to the name the node was built for, through this node's cache slot - receives the object first and then exactly the argument values in order, flagged as a call with arguments exactly when there is an argument list");
  switch (call_beh) {
    case C_RET: __CPROVER_assert(!__exc_pending && out.p == (char*)&call_result, "C03: the value of obj.name(args) is what the member returns"); __CPROVER_assert(0, "witness: call returns"); break;
    case C_RETURN: __CPROVER_assert(!__exc_pending && out.p == (char*)&rv_value, "C03: a return statement's value becomes the value of the method call"); __CPROVER_assert(0, "witness: return value"); break;
    case C_DISPATCH_NOFUN: case C_DISPATCH_FUNS: __CPROVER_assert(__exc_pending && __VERIF_exc_type() == TI_EVAL_ERROR, "C10: no member accepting the values is reported as eval_error"); if (call_beh == C_DISPATCH_FUNS) __CPROVER_assert(0, "witness: dispatch failure with candidates"); else __CPROVER_assert(0, "witness: not a function"); break;
    default: __CPROVER_assert(__exc_pending && __exc_obj == thrown_obj, "C10: every other exception thrown by the member leaves the expression as the very same object"); __CPROVER_assert(0, "witness: callee exception passes"); break;
  }
  return 0;
}
