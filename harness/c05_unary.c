/* C05 A5 (and C07): the unary side of Boxed_Number - the real lambda of Boxed_Number::oper(Opers, const Boxed_Value&) instantiated for
   one arithmetic type T, for every value of T, every operator code and a mutable or const operand.
   Expected, as C++ on the same type: -x and +x yield a new constant of the PROMOTED type with the C++ value; ~x likewise for integers
   only; ++x / --x modify the operand in place and yield the operand itself - and are refused (bad_any_cast, operand untouched) on a
   const operand; every other operator code is refused.  Signed overflow of -x / ++x / --x (undefined in C++) is outside the claim.
   FP negation/addition are the same uninterpreted symbols on both sides (rt/verif_arith.h). */
#include "layout.h"
#include "bv_model.h"
enum { K_int8 = 1, K_uint8, K_int16, K_uint16, K_int32, K_uint32, K_int64, K_uint64, K_float, K_double, K_ldouble, K_bool };
int res_kind; int res_calls;
union { int8_t i8; uint8_t u8; int16_t i16; uint16_t u16; int32_t i32; uint32_t u32; int64_t i64; uint64_t u64; float f; double d; long double ld; uint8_t b; } res;
static struct bv_data res_data;
#define CV(M, T, FIELD, K) void F__ZN10chaiscript9const_varI##M##EENS_11Boxed_ValueERKT_(char* sret, char* v) { res.FIELD = *(T*)v; res_kind = K; res_calls++; ((struct BV*)sret)->p = (char*)&res_data; ((struct BV*)sret)->pn = 0; }
CV(a, int8_t, i8, K_int8) CV(h, uint8_t, u8, K_uint8) CV(s, int16_t, i16, K_int16) CV(t, uint16_t, u16, K_uint16)
CV(i, int32_t, i32, K_int32) CV(j, uint32_t, u32, K_uint32) CV(l, int64_t, i64, K_int64) CV(m, uint64_t, u64, K_uint64)
CV(f, float, f, K_float) CV(d, double, d, K_double) CV(e, long double, ld, K_ldouble)
void F__ZN10chaiscript9const_varEb(char* sret, uint8_t b) { res.b = b & 1; res_kind = K_bool; res_calls++; ((struct BV*)sret)->p = (char*)&res_data; ((struct BV*)sret)->pn = 0; }
void F__ZN10chaiscript6detail9exception12bad_any_castC2Ev(char* self) { }

char* __VERIF_exc_type(void);
struct closure { uint32_t op; uint32_t pad_; char* t_lhs; };
void UNARY(char* sret, char* closure, char* c_lhs);
#define SAME(x, y) ((x) == (y) || ((x) != (x) && (y) != (y)))
int main(void) {
  static LT storage; LT a; { LT t; a = t; } storage = a;
  uint32_t op = nondet_u32(); __CPROVER_assume(op <= OP_invalid); uint8_t is_const = nondet_u8() & 1;
  static struct bv_data d; D_CPTR(&d) = &storage; D_PTR(&d) = is_const ? (void*)0 : (void*)&storage; D_FLAGS(&d) = (is_const ? TIF_const : 0) | TIF_arithmetic;   /* Data invariant: m_data_ptr null iff const (C07 D0) */
  struct BV lhs = { (char*)&d, 0 }; struct closure c = { op, 0, (char*)&lhs }; struct BV out = { 0, 0 };
  /* reference, computed before the call */
  PT pa = (PT)a; PT e_neg = NEG(pa), e_plus = pa; LT e_inc = INC(a), e_dec = DEC(a);
#if !IS_FLOAT
  PT e_not = (PT)~pa;
#if P_SIGNED
  if (op == OP_unary_minus) __CPROVER_assume(pa != P_MIN);                  /* -MIN: undefined in C++ */
#endif
#if L_SIGNED
  if (op == OP_pre_increment) __CPROVER_assume(a != L_MAX);                 /* ++MAX / --MIN on a signed type: undefined in C++ (narrow types wrap by conversion: defined, kept) */
  if (op == OP_pre_decrement) __CPROVER_assume(a != L_MIN);
#endif
#endif
  UNARY((char*)&out, (char*)&c, (char*)&storage);
  int inplace = (op == OP_pre_increment || op == OP_pre_decrement);
  int value_op = (op == OP_unary_minus || op == OP_unary_plus || (!IS_FLOAT && op == OP_bitwise_complement));
  if (inplace && !is_const) {
    __CPROVER_assert(!__exc_pending && out.p == (char*)&d && res_calls == 0, "C05: ++x / --x yield the operand itself");
    __CPROVER_assert(SAME(storage, (op == OP_pre_increment ? e_inc : e_dec)), "C05: ++x / --x change the operand by exactly one");
    __CPROVER_assert(0, "witness: in place");
  } else if (value_op) {
    __CPROVER_assert(!__exc_pending && res_calls == 1 && out.p == (char*)&res_data, "C05: -x, +x, ~x yield one new constant");
    __CPROVER_assert(res_kind == K_P, "C05: the result of a unary operator has the promoted type of its operand");
    __CPROVER_assert(SAME(res.P_FIELD, (op == OP_unary_minus ? e_neg : op == OP_unary_plus ? e_plus : E_NOT)), "C05: the result of a unary operator is the C++ value");
    __CPROVER_assert(SAME(storage, a), "C07: a value-producing operator leaves its operand unchanged");
    __CPROVER_assert(0, "witness: value");
  } else {
    __CPROVER_assert(__exc_pending && __VERIF_exc_type() == (char*)&g__ZTIN10chaiscript6detail9exception12bad_any_castE && res_calls == 0, "C05: an operator that does not apply (or ++/-- on a const value) is refused with bad_any_cast");
    __CPROVER_assert(SAME(storage, a), "C07: a refused operator leaves its operand unchanged - a const number keeps its value");
    if (inplace) __CPROVER_assert(0, "witness: const refused"); else __CPROVER_assert(0, "witness: refused");
  }
  return 0;
}
