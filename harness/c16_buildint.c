/* C16 I1: the real ChaiScript_Parser::buildInt(base, text, prefixed) for ALL 64-bit literal values.
   The digits' numeric value is a symbolic 64-bit V delivered by contract stubs of std::stoll/std::stoull (V, or
   std::out_of_range when V does not fit: libc's digit conversion itself is trusted); the suffix bytes are real input that
   the real suffix scan reads.  Shape: BASE in {2,8,10,16}, SUF (suffix length 0..3).
   Asserted: const_var<T> is called once with T = first type of the C++ [lex.icon] sequence able to hold V, value V. */
#include "layout.h"
#include "bv_model.h"
enum { K_int = 1, K_uint, K_long, K_ulong, K_llong, K_ullong };
int res_kind, res_calls; uint64_t res_val; static struct bv_data res_data;
#define CV(M, T, K) void F__ZN10chaiscript9const_varI##M##EENS_11Boxed_ValueERKT_(char* sret, char* v) { res_val = (uint64_t)*(T*)v; res_kind = K; res_calls++; ((struct BV*)sret)->p = (char*)&res_data; ((struct BV*)sret)->pn = 0; }
CV(i, int32_t, K_int) CV(j, uint32_t, K_uint) CV(l, int64_t, K_long) CV(m, uint64_t, K_ulong) CV(x, int64_t, K_llong) CV(y, uint64_t, K_ullong)
void F__ZSt20__throw_out_of_rangePKc(char*);
uint64_t V; int stoll_calls, stoull_calls; uint32_t seen_base;
uint64_t F__ZNSt7__cxx115stollERKNS_12basic_stringIcSt11char_traitsIcESaIcEEEPmi(char* str, char* idx, uint32_t base) {
  stoll_calls++; seen_base = base; if (V > (uint64_t)INT64_MAX) { F__ZSt20__throw_out_of_rangePKc("stoll"); return 0; } return V; }
uint64_t F__ZNSt7__cxx116stoullERKNS_12basic_stringIcSt11char_traitsIcESaIcEEEPmi(char* str, char* idx, uint32_t base) { stoull_calls++; seen_base = base; return V; }
void BUILDINT(char* sret, uint32_t base, uint64_t len, char* ptr, uint8_t prefixed);
#define DIGITS 2
int main(void) {
  char text[2 + DIGITS + SUF + 1]; unsigned prefixed = (BASE == 16 || BASE == 2); unsigned n = 0;
  if (prefixed) { text[n++] = '0'; text[n++] = (BASE == 16) ? 'x' : 'b'; }
  for (unsigned i = 0; i < DIGITS; i++) text[n++] = (BASE == 8) ? '0' : '1';       /* content irrelevant: value comes from the stub */
  unsigned nu = 0, nl = 0; int valid = 1;
  for (unsigned i = 0; i < SUF; i++) { char c = (char)nondet_u8(); __CPROVER_assume(c == 'u' || c == 'U' || c == 'l' || c == 'L'); text[n++] = c; if (c == 'u' || c == 'U') nu++; else nl++; }
  /* valid C++ suffixes only: at most one u, at most two l, and the l's adjacent with equal case */
#if SUF == 3
  __CPROVER_assume(nu == 1 && nl == 2 && (text[n - 2] == 'u' || text[n - 2] == 'U' ? 0 : 1));
  { char a = (text[n - 3] == 'u' || text[n - 3] == 'U') ? text[n - 2] : text[n - 3], b = (text[n - 1] == 'u' || text[n - 1] == 'U') ? text[n - 2] : text[n - 1]; __CPROVER_assume(a == b); }
#elif SUF == 2
  __CPROVER_assume(nu <= 1); if (nl == 2) __CPROVER_assume(text[n - 1] == text[n - 2]);
#endif
  V = nondet_u64();
#if BASE == 10
  if (!nu) __CPROVER_assume(V <= (uint64_t)INT64_MAX);      /* a decimal literal without u that fits no signed type is ill-formed C++: outside the claim */
#endif
  struct BV out = { 0, 0 };
  BUILDINT((char*)&out, BASE, n, text, prefixed);
  /* reference: [lex.icon] table, LP64 */
  int uns = nu > 0, lng = nl, dec = (BASE == 10); int want = 0;
  int fits_int = V <= 0x7fffffffull, fits_uint = V <= 0xffffffffull, fits_long = V <= (uint64_t)INT64_MAX;
  if (!uns && lng == 0)      want = fits_int ? K_int : (!dec && fits_uint) ? K_uint : fits_long ? K_long : K_ulong;
  else if (uns && lng == 0)  want = fits_uint ? K_uint : K_ulong;
  else if (!uns && lng == 1) want = fits_long ? K_long : K_ulong;
  else if (uns && lng == 1)  want = K_ulong;
  else if (!uns && lng == 2) want = fits_long ? K_llong : K_ullong;
  else                       want = K_ullong;
  __CPROVER_assert(!__exc_pending, "C16: a well-formed integer literal is not rejected");
  __CPROVER_assert(res_calls == 1, "C16: exactly one constant is built for an integer literal, by const_var (C07/C08: a literal value is const - the syntax tree hands it out by reference)");
  __CPROVER_assert(res_kind == want, "C16: integer literal has the first type of the C++ literal-typing sequence able to hold it");
  __CPROVER_assert(res_val == V, "C16: integer literal evaluates to exactly the written value");
  __CPROVER_assert(seen_base == BASE, "C16: digits are converted in the base the prefix denotes");
  __CPROVER_assert(0, "witness: literal built");
  if (V > (uint64_t)INT64_MAX) __CPROVER_assert(0, "witness: value above LLONG_MAX");
  return 0;
}
