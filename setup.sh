#!/bin/sh
# Offline setup: nothing to install. Warm the content-addressed caches (IR, layout probe, replayers) so that the
# per-property commands do not each pay for clang; every cache key includes a hash of /repo/include, so a changed
# header rebuilds what depends on it.
cd "$(dirname "$0")" || exit 1
python3 -m irbmc.warm || true
exit 0
