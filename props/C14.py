"""C14 — engine instances are isolated from one another."""
import re
from irbmc import core
from irbmc.core import Family, Harness

TS = r'chaiscript::detail::threading::Thread_Storage<chaiscript::detail::Stack_Holder>::'
NOINLINE = [TS, r'std::unordered_map<.*>::(operator\[\]|erase|unordered_map|~unordered_map)', r'chaiscript::detail::Stack_Holder::']
FAM = Family('threads', 'threads.cpp', noinline=NOINLINE)

def thread_cache_harness():
    """K2: per-thread conversion caches are per engine (real Type_Conversions::thread_cache on two engines / two threads)"""
    import re
    from props.engine_family import FAM as ENG
    TC = r'chaiscript::Type_Conversions::'
    rx = TC + r'thread_cache\(\)'
    stubs = [r'std::_Rb_tree<.*>::(_M_|operator=|find)', r'std::__detail::_Map_base<.*>::operator\[\]']
    g, info = core.translate(ENG, [rx], stubs, tag='K2_probe')
    ext = [e.split('|')[0].strip() for e in info['ext']]
    def opt(pat, dflt):
        ms = [e for e in ext if re.search(pat, e)]
        return ('F_' + core.cname(ms[0])) if ms else dflt
    d = {'E_CACHE': core.csym(ENG, rx), 'CACHE_SLOT': opt(r'_Map_baseImSt4pairIKmSt3setIPKSt9type_info', 'unused_cache_slot'), 'TREE_ASSIGN': opt(r'^_ZNSt8_Rb_treeIPKSt9type_info\w+aSERKS9_$', 'unused_tree_assign')}
    return Harness('K2.thread_cache(per engine, per thread)', ENG, [rx], 'c14_thread_cache.c', stubs=stubs, shapes=[dict(d, _tag='two engines on one thread, one engine on two threads', _witness=('witness: four lookups',))],
                   opts=['--unwind', '4'], timeout=120, mem_gb=4, inputs=['keyA', 'keyB'], note='keys of the two storage objects symbolic and different; caches up to date (no refresh); thread-local map lookup is a stub handing out one slot per (thread, key value)')

def harnesses(tier):
    g, info = core.translate(FAM, [TS], [r'std::unordered_map<.*>::(operator\[\]|erase)'], tag='K_storage', cuts=[r'std::unordered_map<.*>::(unordered_map|~unordered_map)'])
    txt = core.fread(g)
    m = re.search(r'^extern (struct \w+|\w+) (g__ZZN10chaiscript6detail9threading14Thread_Storage\w*8next_keyEvE10s_last_key)(\[VERIF_NTHREADS\])?;', txt, re.M)
    counter = m.group(2) if m else 'COUNTER_NOT_FOUND'
    d = {'TS_DTOR': core.csym(FAM, TS + r'~Thread_Storage\(\)'), 'TS_DEREF': core.csym(FAM, TS + r'operator\*\(\)$'),
         'TS_ARROW': core.csym(FAM, TS + r'operator->\(\)$'), 'TS_CDEREF': core.csym(FAM, TS + r'operator\*\(\) const'), 'TS_CARROW': core.csym(FAM, TS + r'operator->\(\) const'),
         'UMAP_INDEX': None,
         'UMAP_ERASE': None,
         }
    ct = core.find_symbols(FAM, TS + r'Thread_Storage\(\)')
    if ct and m:
        d['TS_CTOR'] = 'F_' + core.cname(ct[0][0]); d['COUNTER'] = '(*(uint64_t*)&%s)' % counter
        tl = bool(m.group(3)); d['COUNTER_IS_TL'] = int(tl); d['COUNTER_T(t)'] = ('(*(uint64_t*)&%s[t])' % counter) if tl else ('(*(uint64_t*)&%s)' % counter)
    um = r'std::unordered_map<[^,]*, chaiscript::detail::Stack_Holder.*::'
    ix = core.find_symbols(FAM, um + r'operator\[\]\('); er = core.find_symbols(FAM, um + r'erase\([^)]* const&\)')
    if not ix or len(er) != 1: raise core.BuildError('Thread_Storage no longer keeps its state in a std::unordered_map: C14 harness does not apply')
    d['UMAP_INDEX'] = 'F_' + core.cname(ix[0][0]); d['UMAP_ERASE'] = 'F_' + core.cname(er[0][0])
    if len(ix) > 1: d['UMAP_INDEX2'] = 'F_' + core.cname(ix[1][0])
    hs = [Harness('K.Thread_Storage', FAM, [TS], 'c14_storage.c', stubs=[r'std::unordered_map<.*>::(operator\[\]|erase)'], cuts=[r'std::unordered_map<.*>::(unordered_map|~unordered_map)'],
                    shapes=[dict(d, WHICH=w, _tag='create-use(%s)-destroy-create at one address' % n, _witness=('witness: history explored',)) for w, n in enumerate(['operator*', 'operator->', 'operator* const', 'operator-> const'])] + ([dict(d, WHICH=0, TWO_THREADS=1, _tag='two engines constructed on two threads, used from one', _witness=('witness: two threads explored',))] if 'TS_CTOR' in d else []), opts=['--unwind', '4'], timeout=120, mem_gb=4,
                    inputs=['c0', 'between', 'which'], note='counter start and number of constructions in between: symbolic; second object at the address of the first')]
    hs.append(thread_cache_harness())
    return hs

ASSUMPTIONS = ['the per-thread std::unordered_map is a recorder: that two different keys do not alias is libstdc++\'s business', 'the key counter does not wrap (2^64 constructions)',
               'threads are modelled as two copies of every thread_local object with the harness switching between them between calls (no interleaving inside a call)']
OUTSIDE = ['other process-wide mutable state: the only statics in the headers are this counter, the thread_local maps and immutable const boxes (IR scan to be added)']
