"""C10 — exceptions are delivered, not lost or altered."""
from irbmc import core
from irbmc.core import Harness
from props.engine_family import FAM, DE

TRY_STUBS = [r'AST_Node_Impl<.*>::eval\(', r'chaiscript::dispatch::Param_Types::', r'Arg_List_AST_Node<.*>::get_arg_', r'chaiscript::detail::Dispatch_State::(add_object|conversions|stack_holder)\(',
             DE + r'(new_scope|pop_scope)\(', r'eval_error::eval_error\(', r'eval_error::~eval_error\(', r'chaiscript::Boxed_Value::Boxed_Value<', r'chaiscript::Boxed_Value::~Boxed_Value', r'chaiscript::Boxed_Value::Object_Data::get\(\)']

def try_harness(tier):
    rx = r'Try_AST_Node<.*>::eval_internal'
    d = {'TRY_EVAL': core.csym(FAM, rx), 'NEW_SCOPE': core.csym(FAM, DE + r'new_scope\(chaiscript::detail::Stack_Holder&\)'), 'POP_SCOPE': core.csym(FAM, DE + r'pop_scope\(chaiscript::detail::Stack_Holder&\)'),
         'STACK_HOLDER': core.csym(FAM, r'chaiscript::detail::Dispatch_State::stack_holder\(\) const')}
    shapes = []
    for nc in (0, 1, 2):
        for t0 in ((0, 1) if nc >= 1 else (0,)):
            for t1 in ((0, 1) if nc >= 2 else (0,)):
                for fin in (0, 1):
                    if tier == 'quick' and nc == 2 and fin == 1 and (t0, t1) != (1, 1): continue      # thorough runs every shape
                    wit = ['witness: completes normally', 'witness: unhandled exception']
                    if nc >= 1: wit.append('witness: handler throws')
                    if fin: wit.append('witness: finally throws')
                    shapes.append(dict(d, NCATCH=nc, TYPED0=t0, TYPED1=t1, FIN=fin, _tag='catch=%d,typed=%d%d,finally=%d' % (nc, t0, t1, fin), _witness=tuple(wit)))
    return Harness('X1.Try', FAM, [rx], 'c10_try.c', stubs=TRY_STUBS, shapes=shapes, opts=['--unwind', '4', '--unwindset', 'log_count.0:26,main.0:12,__VERIF_isa.0:5,exc_type_of.0:5,F___cxa_throw.0:5'], timeout=600, mem_gb=8, string_model=True,
                   defines={'STRING_LITERALS_OPAQUE': 1}, inputs=['behav', 'match_of'],
                   note='body/handlers/finally: abstract children, each returns or throws one of 6 kinds; typed clauses match per oracle bit')

def funcall_harness(save):
    from props.engine_family import FAM as ENG, DE
    rx = r'Fun_Call_AST_Node<.*>::do_eval_internal<%s>\(' % ('true' if save else 'false')
    CS = r'std::__detail::_Map_base<unsigned long, std::pair<unsigned long const, chaiscript::Type_Conversions::Conversion_Saves>.*::operator\[\]'
    stubs = [r'AST_Node_Impl<.*>::eval\(', r'Proxy_Function_Base::operator\(\)', r'chaiscript::boxed_cast<', DE + r'boxed_cast<', r'Function_Push_Pop::', r'chaiscript::detail::Dispatch_State::conversions',
             r'std::vector<chaiscript::Boxed_Value.*>::~vector', CS]
    cuts = [r'eval_error::', r'Boxed_Value::~Boxed_Value', r'dispatch_error::', r'std::shared_ptr<.*>::~shared_ptr', r'std::vector<std::shared_ptr<.*>::~vector', r'std::unordered_map<unsigned long, chaiscript::Type_Conversions::Conversion_Saves.*::~unordered_map',
            r'std::operator\+<char', r'basic_string<char, std::char_traits<char>, std::allocator<char> >::(basic_string|~basic_string)', r'AST_Node::pretty_print']
    TIS = {'TI_BAD_BOXED_CAST': '_ZTIN10chaiscript9exception14bad_boxed_castE', 'TI_ARITY_ERROR': '_ZTIN10chaiscript9exception11arity_errorE', 'TI_GUARD_ERROR': '_ZTIN10chaiscript9exception11guard_errorE',
           'TI_DISPATCH_ERROR': '_ZTIN10chaiscript9exception14dispatch_errorE', 'TI_RETURN_VALUE': '_ZTIN10chaiscript4eval6detail12Return_ValueE'}
    d = {'CALL_NODE': core.csym(ENG, rx), 'NODE_EVAL_CHILD': core.csym(ENG, r'AST_Node_Impl<.*>::eval\(chaiscript::detail::Dispatch_State const&\) const$'), 'FUNC_CALL': core.csym(ENG, r'^chaiscript::dispatch::Proxy_Function_Base::operator\(\)\('),
         'CAST_PFB': core.csym(ENG, r'chaiscript::boxed_cast<chaiscript::dispatch::Proxy_Function_Base const\*>\('), 'CAST_SHARED_PFB': core.csym(ENG, DE + r'boxed_cast<std::shared_ptr<chaiscript::dispatch::Proxy_Function_Base const> const&>\('),
         'FPP_CTOR': core.csym(ENG, r'Function_Push_Pop::Function_Push_Pop\(chaiscript::detail::Dispatch_State const&\)$'), 'FPP_DTOR': core.csym(ENG, r'Function_Push_Pop::~Function_Push_Pop\(\)$'),
         'FPP_SAVE': core.csym(ENG, r'Function_Push_Pop::save_params\(chaiscript::Function_Params const&\)$'), 'CONVERSIONS': core.csym(ENG, r'^chaiscript::detail::Dispatch_State::conversions\(\) const$'),
         'BV_VEC_DTOR': core.csym(ENG, r'^std::vector<chaiscript::Boxed_Value, std::allocator<chaiscript::Boxed_Value> >::~vector\(\)$'), 'CONV_SAVES': core.csym(ENG, CS), 'SAVE_PARAMS': int(save), 'STRING_LITERALS_OPAQUE': 1, 'VERIF_CALL_V1(f,a)': '__VERIF_v1_hook(f,a)'}
    for k, v in TIS.items(): d[k] = '((char*)&g_%s)' % v
    wit = ('witness: argument throws', 'witness: function expression throws', 'witness: not a function', 'witness: call returns', 'witness: return value', 'witness: dispatch failure reported', 'witness: callee exception passes')
    # shapes: calls without arguments only - with arguments (a std::vector<Boxed_Value> built in a byte-addressed temporary) CBMC runs out of memory at 24 GB, not resolved
    h = Harness('X4.Fun_Call<%s>' % ('saving' if save else 'no-copy'), ENG, [rx], 'c10_funcall.c', stubs=stubs, cuts=cuts,
                shapes=[dict(d, NA=n, _tag='args=%d' % n, _witness=tuple(w for w in wit if n or w != 'witness: argument throws')) for n in (0,)], opts=['--unwind', '6', '--unwindset', 'main.0:8'], timeout=600, mem_gb=8,
                inputs=['behav', 'call_beh', 'fn_is_function'], note='calls without arguments (with arguments: no verdict, out of memory); function expression abstract (returns or throws 6 kinds); the call: returns or throws one of 9 kinds')
    h.need_globals = ['_ZTIN10chaiscript9exception10eval_errorE', '_ZTIN10chaiscript11Boxed_ValueE'] + list(TIS.values())
    return h

def harnesses(tier):
    from props import C20, C09
    hs = [try_harness(tier)]
    w = C20.eval_wrapper_harness(); w.name = 'X2.eval_wrapper'; hs.append(w)          # every node evaluation: exceptions leave as the same object
    for k in (7, 8):                                                                   # For and Switch nodes: exceptions of any child leave unchanged
        h = C09.node_harness(k); h.name = 'X3.' + h.name[2:]; hs.append(h)
    rf = C09.ranged_for_harness(); rf.name = 'X3.Ranged_For'; hs.append(rf)
    hs += [funcall_harness(True), funcall_harness(False)]
    return hs

ASSUMPTIONS = ['children are abstract: eval() of a child returns a value or throws eval_error / runtime_error / out_of_range / std::exception / Boxed_Value / a foreign type',
               'Param_Types::match is an oracle; Scope push/pop are counters (their real code: C09)', 'exception objects are not destroyed by the model (no double-free claims)']
OUTSIDE = ['propagation through dispatch (Proxy_Function / Dynamic_Proxy_Function / std::function wrappers) and library callbacks beyond node level', 'Dot_Access / Array_Call / Equation call sites (same pattern as Fun_Call: X4)']
