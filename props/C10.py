"""C10 — exceptions are delivered, not lost or altered."""
from irbmc import core
from irbmc.core import Harness
from props.engine_family import FAM, DE

TRY_STUBS = [r'AST_Node_Impl<.*>::eval\(', r'chaiscript::dispatch::Param_Types::', r'Arg_List_AST_Node<.*>::get_arg_', r'chaiscript::detail::Dispatch_State::(add_object|conversions|stack_holder)\(',
             DE + r'(new_scope|pop_scope)\(', r'eval_error::eval_error\(', r'eval_error::~eval_error\(', r'chaiscript::Boxed_Value::Boxed_Value<', r'chaiscript::Boxed_Value::~Boxed_Value', r'chaiscript::Boxed_Value::Object_Data::get\(\)']

def try_harness(tier):
    rx = r'Try_AST_Node<.*>::eval_internal'
    d = {'TRY_EVAL': core.csym(FAM, rx), 'NEW_SCOPE': core.csym(FAM, DE + r'new_scope\(chaiscript::detail::Stack_Holder&\)'), 'POP_SCOPE': core.csym(FAM, DE + r'pop_scope\(chaiscript::detail::Stack_Holder&\)'),
         'STACK_HOLDER': core.csym(FAM, r'chaiscript::detail::Dispatch_State::stack_holder\(\) const')}
    shapes = []
    for nc in (0, 1, 2):
        for t0 in ((0, 1) if nc >= 1 else (0,)):
            for t1 in ((0, 1) if nc >= 2 else (0,)):
                for fin in (0, 1):
                    if tier == 'quick' and nc == 2 and fin == 1 and (t0, t1) != (1, 1): continue      # thorough runs every shape
                    wit = ['witness: completes normally', 'witness: unhandled exception']
                    if nc >= 1: wit.append('witness: handler throws')
                    if fin: wit.append('witness: finally throws')
                    shapes.append(dict(d, NCATCH=nc, TYPED0=t0, TYPED1=t1, FIN=fin, _tag='catch=%d,typed=%d%d,finally=%d' % (nc, t0, t1, fin), _witness=tuple(wit)))
    return Harness('X1.Try', FAM, [rx], 'c10_try.c', stubs=TRY_STUBS, shapes=shapes, opts=['--unwind', '4', '--unwindset', 'log_count.0:26,main.0:12,__VERIF_isa.0:5,exc_type_of.0:5,F___cxa_throw.0:5'], timeout=600, mem_gb=8, string_model=True,
                   defines={'STRING_LITERALS_OPAQUE': 1}, inputs=['behav', 'match_of'],
                   note='body/handlers/finally: abstract children, each returns or throws one of 6 kinds; typed clauses match per oracle bit')

def harnesses(tier):
    from props import C20, C09
    hs = [try_harness(tier)]
    w = C20.eval_wrapper_harness(); w.name = 'X2.eval_wrapper'; hs.append(w)          # every node evaluation: exceptions leave as the same object
    for k in (7, 8):                                                                   # For and Switch nodes: exceptions of any child leave unchanged
        h = C09.node_harness(k); h.name = 'X3.' + h.name[2:]; hs.append(h)
    return hs

ASSUMPTIONS = ['children are abstract: eval() of a child returns a value or throws eval_error / runtime_error / out_of_range / std::exception / Boxed_Value / a foreign type',
               'Param_Types::match is an oracle; Scope push/pop are counters (their real code: C09)', 'exception objects are not destroyed by the model (no double-free claims)']
OUTSIDE = ['propagation through dispatch (Proxy_Function / Dynamic_Proxy_Function / std::function wrappers) and library callbacks beyond node level', 'Fun_Call turning dispatch_error into eval_error']
