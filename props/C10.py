"""C10 — exceptions are delivered, not lost or altered."""
from irbmc import core
from irbmc.core import Harness
from props.engine_family import FAM, DE

TRY_STUBS = [r'AST_Node_Impl<.*>::eval\(', r'chaiscript::dispatch::Param_Types::', r'Arg_List_AST_Node<.*>::get_arg_', r'chaiscript::detail::Dispatch_State::(add_object|conversions|stack_holder)\(',
             DE + r'(new_scope|pop_scope)\(', r'eval_error::eval_error\(', r'eval_error::~eval_error\(', r'chaiscript::Boxed_Value::Boxed_Value<', r'chaiscript::Boxed_Value::~Boxed_Value', r'chaiscript::Boxed_Value::Object_Data::get\(\)']

def try_harness(tier):
    rx = r'Try_AST_Node<.*>::eval_internal'
    d = {'TRY_EVAL': core.csym(FAM, rx), 'NEW_SCOPE': core.csym(FAM, DE + r'new_scope\(chaiscript::detail::Stack_Holder&\)'), 'POP_SCOPE': core.csym(FAM, DE + r'pop_scope\(chaiscript::detail::Stack_Holder&\)'),
         'STACK_HOLDER': core.csym(FAM, r'chaiscript::detail::Dispatch_State::stack_holder\(\) const')}
    shapes = []
    for nc in (0, 1, 2):
        for t0 in ((0, 1) if nc >= 1 else (0,)):
            for t1 in ((0, 1) if nc >= 2 else (0,)):
                for fin in (0, 1):
                    if tier == 'quick' and nc == 2 and fin == 1 and (t0, t1) != (1, 1): continue      # thorough runs every shape
                    wit = ['witness: completes normally', 'witness: unhandled exception']
                    if nc >= 1: wit.append('witness: handler throws')
                    if fin: wit.append('witness: finally throws')
                    shapes.append(dict(d, NCATCH=nc, TYPED0=t0, TYPED1=t1, FIN=fin, _tag='catch=%d,typed=%d%d,finally=%d' % (nc, t0, t1, fin), _witness=tuple(wit)))
    return Harness('X1.Try', FAM, [rx], 'c10_try.c', stubs=TRY_STUBS, shapes=shapes, opts=['--unwind', '4', '--unwindset', 'log_count.0:26,main.0:12,__VERIF_isa.0:5,exc_type_of.0:5,F___cxa_throw.0:5'], timeout=600, mem_gb=8, string_model=True,
                   defines={'STRING_LITERALS_OPAQUE': 1}, inputs=['behav', 'match_of'],
                   note='body/handlers/finally: abstract children, each returns or throws one of 6 kinds; typed clauses match per oracle bit')

def funcall_harness(save, with_args=False):
    from props.engine_family import FAM, FAM_CALLS, DE
    ENG = FAM_CALLS if with_args else FAM
    rx = r'Fun_Call_AST_Node<.*>::do_eval_internal<%s>\(' % ('true' if save else 'false')
    CS = r'std::__detail::_Map_base<unsigned long, std::pair<unsigned long const, chaiscript::Type_Conversions::Conversion_Saves>.*::operator\[\]'
    stubs = [r'AST_Node_Impl<.*>::eval\(', r'Proxy_Function_Base::operator\(\)', r'chaiscript::boxed_cast<', DE + r'boxed_cast<', r'Function_Push_Pop::', r'chaiscript::detail::Dispatch_State::conversions',
             r'std::vector<chaiscript::Boxed_Value.*>::~vector', CS]
    cuts = [r'eval_error::', r'Boxed_Value::~Boxed_Value', r'dispatch_error::', r'std::shared_ptr<.*>::~shared_ptr', r'std::vector<std::shared_ptr<.*>::~vector', r'std::unordered_map<unsigned long, chaiscript::Type_Conversions::Conversion_Saves.*::~unordered_map',
            r'std::operator\+<char', r'basic_string<char, std::char_traits<char>, std::allocator<char> >::(basic_string|~basic_string)', r'AST_Node::pretty_print']
    TIS = {'TI_BAD_BOXED_CAST': '_ZTIN10chaiscript9exception14bad_boxed_castE', 'TI_ARITY_ERROR': '_ZTIN10chaiscript9exception11arity_errorE', 'TI_GUARD_ERROR': '_ZTIN10chaiscript9exception11guard_errorE',
           'TI_DISPATCH_ERROR': '_ZTIN10chaiscript9exception14dispatch_errorE', 'TI_RETURN_VALUE': '_ZTIN10chaiscript4eval6detail12Return_ValueE'}
    d = {'CALL_NODE': core.csym(ENG, rx), 'NODE_EVAL_CHILD': core.csym(ENG, r'AST_Node_Impl<.*>::eval\(chaiscript::detail::Dispatch_State const&\) const$'), 'FUNC_CALL': core.csym(ENG, r'^chaiscript::dispatch::Proxy_Function_Base::operator\(\)\('),
         'CAST_PFB': core.csym(ENG, r'chaiscript::boxed_cast<chaiscript::dispatch::Proxy_Function_Base const\*>\('), 'CAST_SHARED_PFB': core.csym(ENG, DE + r'boxed_cast<std::shared_ptr<chaiscript::dispatch::Proxy_Function_Base const> const&>\('),
         'FPP_CTOR': core.csym(ENG, r'Function_Push_Pop::Function_Push_Pop\(chaiscript::detail::Dispatch_State const&\)$'), 'FPP_DTOR': core.csym(ENG, r'Function_Push_Pop::~Function_Push_Pop\(\)$'),
         'FPP_SAVE': core.csym(ENG, r'Function_Push_Pop::save_params\(chaiscript::Function_Params const&\)$'), 'CONVERSIONS': core.csym(ENG, r'^chaiscript::detail::Dispatch_State::conversions\(\) const$'),
         'BV_VEC_DTOR': core.csym(ENG, r'^std::vector<chaiscript::Boxed_Value, std::allocator<chaiscript::Boxed_Value> >::~vector\(\)$'), 'CONV_SAVES': core.csym(ENG, CS), 'SAVE_PARAMS': int(save), 'STRING_LITERALS_OPAQUE': 1, 'VERIF_CALL_V1(f,a)': '__VERIF_v1_hook(f,a)'}
    if with_args:
        VBV = r'^std::vector<chaiscript::Boxed_Value, std::allocator<chaiscript::Boxed_Value> >::'
        stubs = [x for x in stubs if '~vector' not in x] + [VBV]
        d.update({'VEC_MODEL': 1, 'VEC_CTOR': core.csym(ENG, VBV + r'vector\(\)$'), 'VEC_RESERVE': core.csym(ENG, VBV + r'reserve\(unsigned long\)$'), 'VEC_PUSH_BACK': core.csym(ENG, VBV + r'push_back\(chaiscript::Boxed_Value&&\)$')})
    for k, v in TIS.items(): d[k] = '((char*)&g_%s)' % v
    wit = ('witness: argument throws', 'witness: function expression throws', 'witness: not a function', 'witness: call returns', 'witness: return value', 'witness: dispatch failure reported', 'witness: callee exception passes')
    # shapes: calls without arguments only - with arguments (a std::vector<Boxed_Value> built in a byte-addressed temporary) CBMC runs out of memory at 24 GB, not resolved
    h = Harness('X4.Fun_Call<%s>%s' % ('saving' if save else 'no-copy', ' with arguments' if with_args else ''), ENG, [rx], 'c10_funcall.c', stubs=stubs, cuts=cuts,
                shapes=[dict(d, NA=n, _tag='args=%d' % n, _witness=tuple(w for w in wit if n or w != 'witness: argument throws')) for n in ((1, 2) if with_args else (0,))], opts=['--unwind', '6', '--unwindset', 'main.0:8'], timeout=600, mem_gb=8,
                inputs=['behav', 'call_beh', 'fn_is_function'], note='calls without arguments (with arguments: no verdict, out of memory); function expression abstract (returns or throws 6 kinds); the call: returns or throws one of 9 kinds')
    h.need_globals = ['_ZTIN10chaiscript9exception10eval_errorE', '_ZTIN10chaiscript11Boxed_ValueE'] + list(TIS.values())
    return h

def array_call_harness():
    from props.engine_family import FAM as ENG, DE
    rx = r'chaiscript::eval::Array_Call_AST_Node<.*>::eval_internal\(chaiscript::detail::Dispatch_State const&\) const$'
    stubs = [r'AST_Node_Impl<.*>::eval\(', r'Function_Push_Pop::', r'chaiscript::detail::Dispatch_State::conversions', DE + r'call_function\(']
    cuts = [r'eval_error::', r'Boxed_Value::~Boxed_Value', r'dispatch_error::', r'std::operator\+<char', r'basic_string<char, std::char_traits<char>, std::allocator<char> >::(basic_string|~basic_string)']
    TIS = {'TI_BAD_BOXED_CAST': '_ZTIN10chaiscript9exception14bad_boxed_castE', 'TI_ARITY_ERROR': '_ZTIN10chaiscript9exception11arity_errorE', 'TI_GUARD_ERROR': '_ZTIN10chaiscript9exception11guard_errorE',
           'TI_DISPATCH_ERROR': '_ZTIN10chaiscript9exception14dispatch_errorE', 'TI_RETURN_VALUE': '_ZTIN10chaiscript4eval6detail12Return_ValueE'}
    d = {'NODE_EVAL': core.csym(ENG, rx), 'NODE_EVAL_CHILD': core.csym(ENG, r'AST_Node_Impl<.*>::eval\(chaiscript::detail::Dispatch_State const&\) const$'), 'CALL_FUNCTION': core.csym(ENG, DE + r'call_function\(std::basic_string_view'),
         'FPP_CTOR': core.csym(ENG, r'Function_Push_Pop::Function_Push_Pop\(chaiscript::detail::Dispatch_State const&\)$'), 'FPP_DTOR': core.csym(ENG, r'Function_Push_Pop::~Function_Push_Pop\(\)$'),
         'FPP_SAVE': core.csym(ENG, r'Function_Push_Pop::save_params\(chaiscript::Function_Params const&\)$'), 'CONVERSIONS': core.csym(ENG, r'^chaiscript::detail::Dispatch_State::conversions\(\) const$'),
         'STRING_LITERALS_OPAQUE': 1, 'VERIF_CALL_V1(f,a)': '__VERIF_v1_hook(f,a)'}
    for k, v in TIS.items(): d[k] = '((char*)&g_%s)' % v
    h = Harness('X5.Array_Call', ENG, [rx], 'c10_array_call.c', stubs=stubs, cuts=cuts, shapes=[dict(d, _tag='all', _witness=('witness: operand throws', 'witness: call returns', 'witness: dispatch failure reported', 'witness: callee exception passes'))],
                opts=['--unwind', '6'], timeout=300, mem_gb=8, inputs=['behav', 'call_beh'], note='operands abstract (value or 6 exception kinds); the dispatched [] call returns or throws one of 9 kinds')
    h.need_globals = ['_ZTIN10chaiscript9exception10eval_errorE', '_ZTIN10chaiscript11Boxed_ValueE'] + list(TIS.values())
    return h

def dot_access_harness(tier='quick'):
    import re
    from props.engine_family import FAM_CALLS as ENG, DE
    rx = r'chaiscript::eval::Dot_Access_AST_Node<.*>::eval_internal\(chaiscript::detail::Dispatch_State const&\) const$'
    VBV = r'^std::vector<chaiscript::Boxed_Value, std::allocator<chaiscript::Boxed_Value> >::'
    stubs = [r'AST_Node_Impl<.*>::eval\(', r'Function_Push_Pop::', r'chaiscript::detail::Dispatch_State::conversions', DE + r'call_function\(', DE + r'call_member\(', VBV, r'chaiscript::make_vector<chaiscript::Boxed_Value&>']
    cuts = [r'eval_error::', r'Boxed_Value::~Boxed_Value', r'dispatch_error::']
    g, info = core.translate(ENG, [rx], stubs + core.STRING_MODEL, tag='X6_probe', cuts=cuts)
    ext = [e.split('|')[0].strip() for e in info['ext']]
    def one(pat):
        m = [e for e in ext if re.search(pat, e)]
        if len(m) != 1: raise core.BuildError('C10 X6: expected exactly one external matching %s, found %d' % (pat, len(m)))
        return 'F_' + core.cname(m[0])
    TIS = {'TI_BAD_BOXED_CAST': '_ZTIN10chaiscript9exception14bad_boxed_castE', 'TI_ARITY_ERROR': '_ZTIN10chaiscript9exception11arity_errorE', 'TI_GUARD_ERROR': '_ZTIN10chaiscript9exception11guard_errorE',
           'TI_DISPATCH_ERROR': '_ZTIN10chaiscript9exception14dispatch_errorE', 'TI_RETURN_VALUE': '_ZTIN10chaiscript4eval6detail12Return_ValueE'}
    d = {'NODE_EVAL': core.csym(ENG, rx), 'NODE_EVAL_CHILD': one(r'13AST_Node_Impl.*4evalERKNS_6detail14Dispatch_StateE$'), 'CALL_FUNCTION': one(r'15Dispatch_Engine13call_functionE'), 'CALL_MEMBER': one(r'15Dispatch_Engine11call_memberE'),
         'FPP_CTOR': one(r'17Function_Push_PopC[12]E'), 'FPP_DTOR': one(r'17Function_Push_PopD[12]E'), 'FPP_SAVE': one(r'17Function_Push_Pop11save_paramsE'), 'CONVERSIONS': one(r'14Dispatch_State11conversionsEv'),
         'MAKE_VECTOR': one(r'^_ZN10chaiscript11make_vectorIJRNS_11Boxed_ValueEEEE'), 'VEC_PUSH_BACK': one(r'^_ZNSt6vectorIN10chaiscript11Boxed_ValueESaIS1_EE9push_backEOS1_$'), 'VEC_DTOR': one(r'^_ZNSt6vectorIN10chaiscript11Boxed_ValueESaIS1_EED[12]Ev$'),
         'STRING_LITERALS_OPAQUE': 1, 'VERIF_CALL_V1(f,a)': '__VERIF_v1_hook(f,a)'}
    for k, v in TIS.items(): d[k] = '((char*)&g_%s)' % v
    W = ('witness: object throws', 'witness: call returns', 'witness: return value', 'witness: dispatch failure with candidates', 'witness: not a function', 'witness: callee exception passes')
    shapes = [dict(d, RHS=0, NA=0, _tag='obj.name', _witness=W)] + [dict(d, RHS=1, NA=n, _tag='obj.name(%d arguments)' % n, _witness=W + (('witness: argument throws',) if n else ())) for n in ((0, 1, 2) if tier == 'quick' else (0, 1, 2, 3))]
    h = Harness('X6.Dot_Access', ENG, [rx], 'c10_dot_access.c', stubs=stubs, cuts=cuts, shapes=shapes, opts=['--unwind', '6', '--unwindset', 'main.0:10,main.1:5,main.2:5'], timeout=600, mem_gb=8, string_model=True,
                inputs=['behav', 'call_beh'], note='object / argument expressions abstract (value or 6 exception kinds); call_member returns or throws one of 10 kinds; vector growth is a recorder over harness storage')
    h.need_globals = ['_ZTIN10chaiscript9exception10eval_errorE', '_ZTIN10chaiscript11Boxed_ValueE'] + list(TIS.values())
    return h

def attribute_call_harness():
    import re
    from props.engine_family import FAM as ENG, DE
    rx = r"call_member\(.*'lambda'\(int, chaiscript::Function_Params.*\)::operator\(\)\(int, (?:(?!This_Foist).)*\) const$"
    CS = r'std::__detail::_Map_base<unsigned long, std::pair<unsigned long const, chaiscript::Type_Conversions::Conversion_Saves>.*::operator\[\]'
    stubs = [r'chaiscript::dispatch::dispatch<', r'Proxy_Function_Base::operator\(\)', r'chaiscript::boxed_cast<', DE + r'boxed_cast<', DE + r'(new_scope|pop_scope|add_object)\(', CS]
    cuts = [r'Boxed_Value::~Boxed_Value', r'dispatch_error::', r'std::shared_ptr<.*>::~shared_ptr', r'std::__shared_ptr<.*>::~__shared_ptr', r'std::vector<std::shared_ptr<.*>::~vector', r'std::vector<std::shared_ptr<.*>::vector',
            r'std::unordered_map<unsigned long, chaiscript::Type_Conversions::Conversion_Saves.*::~unordered_map']
    g, info = core.translate(ENG, [rx], stubs + core.STRING_MODEL, tag='X7_probe', cuts=cuts)
    ext = [e.split('|')[0].strip() for e in info['ext']]
    def opt(pat, dflt):
        m = [e for e in ext if re.search(pat, e)]
        if len(m) > 1: raise core.BuildError('C10 X7: %d externals match %s' % (len(m), pat))
        return ('F_' + core.cname(m[0])) if m else dflt
    TIS = {'TI_BAD_BOXED_CAST': '_ZTIN10chaiscript9exception14bad_boxed_castE', 'TI_ARITY_ERROR': '_ZTIN10chaiscript9exception11arity_errorE', 'TI_GUARD_ERROR': '_ZTIN10chaiscript9exception11guard_errorE',
           'TI_DISPATCH_ERROR': '_ZTIN10chaiscript9exception14dispatch_errorE', 'TI_RETURN_VALUE': '_ZTIN10chaiscript4eval6detail12Return_ValueE', 'TI_EVAL_ERROR': '_ZTIN10chaiscript9exception10eval_errorE',
           'TI_BOXED_VALUE': '_ZTIN10chaiscript11Boxed_ValueE', 'TI_FUNCTION_OBJ': '_ZTIN10chaiscript8dispatch19Proxy_Function_BaseE'}
    d = {'ATTR_CALL': core.csym(ENG, rx), 'DISPATCH': opt(r'^_ZN10chaiscript8dispatch8dispatchISt6vector', 'unused_dispatch'), 'FUNC_CALL': opt(r'19Proxy_Function_BaseclE', 'unused_func_call'),
         'CAST_PFB': opt(r'^_ZN10chaiscript10boxed_castIPKNS_8dispatch19Proxy_Function_BaseE', 'unused_cast_pfb'), 'CAST_SHARED_PFB': opt(r'15Dispatch_Engine10boxed_castISt10shared_ptrIKNS_8dispatch19Proxy_Function_Base', 'unused_cast_shared'),
         'CAST_SHARED_PFB2': opt(r'^_ZN10chaiscript10boxed_castISt10shared_ptrIKNS_8dispatch19Proxy_Function_Base', 'unused_cast_shared2'),
         'NEW_SCOPE': opt(r'15Dispatch_Engine9new_scopeEv$', 'unused_new_scope'), 'POP_SCOPE': opt(r'15Dispatch_Engine9pop_scopeEv$', 'unused_pop_scope'), 'ADD_OBJECT': opt(r'15Dispatch_Engine10add_objectE', 'unused_add_object'),
         'CONV_SAVES': opt(r'_Map_baseImSt4pairIKmN10chaiscript16Type_Conversions16Conversion_Saves', 'unused_conv_saves'), 'VERIF_STRCMP_BY_IDENTITY': 1, 'VERIF_CALL_V1(f,a)': '__VERIF_v1_hook(f,a)'}
    for k, v in TIS.items(): d[k] = '((char*)&g_%s)' % v
    shapes = []
    for nump, npar in ((1, 1), (1, 2), (1, 3), (2, 2), (2, 3)):
        w = ('witness: getter throws', 'witness: not callable', 'witness: call returns', 'witness: cannot be entered', 'witness: callee exception passes') + (('witness: plain attribute',) if nump == npar else ())
        shapes.append(dict(d, NUMP=nump, NPAR=npar, _tag='getter takes %d of %d values' % (nump, npar), _witness=w))
    h = Harness('X7.attribute_held_function_call', ENG, [rx], 'c10_attribute_call.c', stubs=stubs, cuts=cuts, shapes=shapes, opts=['--unwind', '6'], timeout=300, mem_gb=8, string_model=True,
                inputs=['is_function', 'dispatch_throws', 'cast_fails', 'call_beh'], note='attribute getter (1 value) or method_missing (2 values) followed by 0-2 further values; getter, cast and held function abstract: return or throw (10 kinds)')
    h.need_globals = list(TIS.values())
    return h

def harnesses(tier):
    from props import C20, C09
    hs = [try_harness(tier)]
    w = C20.eval_wrapper_harness(); w.name = 'X2.eval_wrapper'; hs.append(w)          # every node evaluation: exceptions leave as the same object
    for k in (7, 8):                                                                   # For and Switch nodes: exceptions of any child leave unchanged
        h = C09.node_harness(k); h.name = 'X3.' + h.name[2:]; hs.append(h)
    rf = C09.ranged_for_harness(); rf.name = 'X3.Ranged_For'; hs.append(rf)
    ef = C09.eval_function_harness(tier, subset=True); ef.name = 'X3.eval_function'; hs.append(ef)
    for k in (1, 4, 5, 6):        # Return, File, Id, Var_Decl: what they catch and what passes
        c = C09.carrier_harness(k); c.name = 'X3.' + c.name[2:]; hs.append(c)
    hs += [funcall_harness(True), funcall_harness(False), funcall_harness(True, True), funcall_harness(False, True), array_call_harness(), dot_access_harness(tier), attribute_call_harness()]
    return hs

ASSUMPTIONS = ['children are abstract: eval() of a child returns a value or throws eval_error / runtime_error / out_of_range / std::exception / Boxed_Value / a foreign type',
               'Param_Types::match is an oracle; Scope push/pop are counters (their real code: C09)', 'exception objects are not destroyed by the model (no double-free claims)']
OUTSIDE = ['propagation through dispatch (Proxy_Function / Dynamic_Proxy_Function / std::function wrappers) and library callbacks beyond node level', 'dispatch() treating bad_boxed_cast / arity_error / guard_error that escape from the BODY of an entered overload as a mismatch (agent side note, not decided)', 'Exception_Handler_Impl (typed rethrow at the C++ boundary), the `throw` builtin']
