"""C19 — evaluating a file means evaluating its bytes; use() evaluates once."""
import re
from irbmc import core
from irbmc.core import Family, Harness, STRING_MODEL

NOINLINE = [r'ChaiScript_Basic::(load_file|skip_bom)', r'std::basic_ifstream<.*>::~basic_ifstream', r'std::basic_ifstream<.*>::basic_ifstream', r'file_not_found_error::', r'std::vector<char, std::allocator<char> >::vector\('] + STRING_MODEL
FAM = Family('files', 'files.cpp', noinline=NOINLINE)

def replay(inp, shape, failed):
    import re
    try:
        L = shape['L']; ex = int(re.sub(r'\D', '', inp['file_exists']['v'])) & 1
        hx = ''.join(inp['file_bytes[%dl]' % i]['hex'][-2:] for i in range(L))
    except Exception as e: return None, 'inputs missing from trace: %s (%s)' % (sorted(inp)[:8], e)
    cmd = [core.native_tool('c19_replay', ['-fno-access-control']), hx or '-'] + ([] if ex else ['missing'])
    r = core.run(cmd, timeout=60)
    return (True if r.returncode == 1 else False if r.returncode == 0 else None), ' '.join(cmd[1:]) + ' -> ' + r.stdout.strip()

def use_harness(tier):
    rx = r'chaiscript::ChaiScript_Basic::use\('
    stubs = [r'chaiscript::ChaiScript_Basic::eval_file', r'std::_Rb_tree<.*>::', r'file_not_found_error::'] + STRING_MODEL
    g, info = core.translate(FAM, [rx], stubs, tag='F2_probe', cuts=[r'Boxed_Value::~Boxed_Value'])
    ext = [e.split('|')[0].strip() for e in info['ext']]
    def one(pat):
        m = [e for e in ext if re.search(pat, e)]
        if len(m) != 1: raise core.BuildError('use(): expected exactly one external matching %s, found %d' % (pat, len(m)))
        return 'F_' + core.cname(m[0])
    mret = re.search(r'^(struct agg\d+) F_\w*24_M_get_insert_unique_posE', core.fread(g), re.M)
    TIF = '_ZTIN10chaiscript9exception20file_not_found_errorE'
    d = {'USE': core.csym(FAM, rx), 'EVAL_FILE': one(r'ChaiScript_Basic9eval_fileE'), 'SET_FIND': one(r'_Rb_tree\w*4findE'), 'SET_INSERT_POS': one(r'24_M_get_insert_unique_posE'), 'SET_INSERT': one(r'10_M_insert_I'),
         'SET_POS_RET': mret.group(1) if mret else 'struct agg1', 'FNF_CTOR': one(r'file_not_found_errorC[12]E'), 'FNF_DTOR': one(r'file_not_found_errorD[12]E'), 'TI_FNF': '((char*)&g_%s)' % TIF, 'STRING_LITERALS_OPAQUE': 1, 'VERIF_CALL_V1(f,a)': '__VERIF_v1_hook(f,a)'}
    wit = {1: ('witness: evaluated', 'witness: already used', 'witness: file fails', 'witness: not found'), 2: ('witness: evaluated', 'witness: already used', 'witness: file fails', 'witness: not found')}
    h = Harness('F2.use', FAM, [rx], 'c19_use.c', stubs=stubs, cuts=[r'Boxed_Value::~Boxed_Value'], shapes=[dict(d, P=p, _tag='search paths=%d' % p, _witness=wit[p]) for p in (1, 2)], opts=['--unwind', '6'], timeout=300, mem_gb=6, string_model=True,
                inputs=['used', 'beh'], note='per search path: already used or not, and what evaluating the file does (value / not found here / nested failure / other exception): symbolic')
    h.need_globals = [TIF]
    return h

def eval_file_harness(tier):
    """F3: script-level eval_file = ChaiScript_Basic::internal_eval_file"""
    rx = r'chaiscript::ChaiScript_Basic::internal_eval_file\('
    stubs = [r'chaiscript::ChaiScript_Basic::(load_file|do_eval)\(', r'file_not_found_error::', r'chaiscript::Boxed_Value::Boxed_Value<'] + STRING_MODEL
    cuts = [r'Boxed_Value::~Boxed_Value']
    g, info = core.translate(FAM, [rx], stubs, tag='F3_probe', cuts=cuts)
    ext = [e.split('|')[0].strip() for e in info['ext']]
    def one(pat):
        m = [e for e in ext if re.search(pat, e)]
        if len(m) != 1: raise core.BuildError('internal_eval_file(): expected exactly one external matching %s, found %d' % (pat, len(m)))
        return 'F_' + core.cname(m[0])
    TIF = '_ZTIN10chaiscript9exception20file_not_found_errorE'; TIE = '_ZTIN10chaiscript9exception10eval_errorE'; TIB = '_ZTIN10chaiscript11Boxed_ValueE'
    d = {'EVAL_FILE': core.csym(FAM, rx), 'LOAD_FILE': one(r'ChaiScript_Basic9load_fileE'), 'DO_EVAL': one(r'ChaiScript_Basic7do_evalE'), 'BV_FROM_EVAL_ERROR': one(r'11Boxed_ValueC[12]IRKNS_9exception10eval_errorE'),
         'FNF_CTOR': one(r'file_not_found_errorC[12]E'), 'FNF_DTOR': one(r'file_not_found_errorD[12]E'), 'TI_FNF': '((char*)&g_%s)' % TIF, 'TI_EVAL_ERROR': '((char*)&g_%s)' % TIE, 'TI_BOXED_VALUE': '((char*)&g_%s)' % TIB,
         'STRING_LITERALS_OPAQUE': 1, 'VERIF_CALL_V1(f,a)': '__VERIF_v1_hook(f,a)'}
    W = ('witness: not found', 'witness: evaluated', 'witness: nested include fails', 'witness: eval_error', 'witness: other error')
    h = Harness('F3.eval_file(script level)', FAM, [rx], 'c19_eval_file.c', stubs=stubs, cuts=cuts, shapes=[dict(d, P=p, _tag='search paths=%d' % p, _witness=W) for p in (1, 2)], opts=['--unwind', '6'], timeout=300, mem_gb=6, string_model=True,
                inputs=['beh'], note='per search path: the file does not exist there / evaluates to a value / a nested include inside it fails / eval_error / other exception: symbolic')
    h.need_globals = [TIF, TIE, TIB]
    return h

def harnesses(tier):
    rx = r'ChaiScript_Basic::load_file'
    g, info = core.translate(FAM, [rx], [r'file_not_found_error::', r'std::basic_ifstream<.*>::~basic_ifstream'] + STRING_MODEL, tag='F1_load_file')
    txt = core.fread(g)
    m = re.search(r'^(struct agg\d+) F__ZNSi5tellgEv\(char\*\);', txt, re.M)
    agg = m.group(1).split()[1] if m else 'agg0'
    sr = core.find_symbols(FAM, r'basic_string<__gnu_cxx::__normal_iterator<char\*, std::vector<char')
    d = {'LOAD_FILE': core.csym(FAM, rx), 'TELLG_AGG': agg, 'STR_FROM_RANGE': 'F__ZNSt7__cxx1112basic_stringIcSt11char_traitsIcESaIcEEC2IN9__gnu_cxx17__normal_iteratorIPcSt6vectorIcS3_EEEvEET_SC_RKS3_'}
    ls = [0, 1, 2, 3, 4, 5] if tier == 'quick' else [0, 1, 2, 3, 4, 5, 6, 7, 8, 10]
    shapes = [dict(d, L=l, _tag='length=%d' % l, _witness=('witness: missing file', 'witness: file loaded') + (('witness: byte order mark',) if l >= 3 else ())) for l in ls]
    return [Harness('F1.load_file', FAM, [rx], 'c19_load_file.c', stubs=[r'file_not_found_error::', r'std::basic_ifstream<.*>::~basic_ifstream'], shapes=shapes, opts=['--unwind', '18'], timeout=300, mem_gb=6, string_model=True,
                    defines={'STRING_LITERALS_OPAQUE': 1}, inputs=['file_bytes', 'file_exists'], note='every content of exactly L bytes; file present or missing', replay=replay), use_harness(tier), eval_file_harness(tier)]

ASSUMPTIONS = ['std::ifstream is a contract model written from the standard (short read => eofbit|failbit; failed stream ignores seekg/read; tellg == -1 when failed; clear() resets)',
               'std::string via the SSO-only model: file content <= 15 bytes']
OUTSIDE = ['eval_file itself (load_file + eval: F1 + the parser/evaluator properties); module loading', 'the parser seeing the loaded text (C01)']
