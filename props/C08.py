"""C08 — evaluating code does not change the code: re-evaluation is deterministic."""
from irbmc import core
from irbmc.core import Harness
from props.engine_family import FAM, DE

CUTS = [r'eval_error::', r'chaiscript::detail::Dispatch_State::\w+\(', r'Boxed_Value::~Boxed_Value', r'dispatch_error::']
NEED = ['_ZTIN10chaiscript9exception10eval_errorE', '_ZTIN10chaiscript11Boxed_ValueE']

def harnesses(tier):
    hs = []
    rx1 = r'^chaiscript::eval::detail::clone_if_necessary'
    h = Harness('R1.clone_if_necessary', FAM, [rx1], 'c08_reeval.c', stubs=[DE + r'call_function\(', r'chaiscript::Boxed_Number::clone', r'chaiscript::Boxed_Value::Boxed_Value<', r'chaiscript::Boxed_Value::reset_return_value'],
                cuts=CUTS, shapes=[dict(MODE=1, CLONE_IF=core.csym(FAM, rx1), _tag='all value kinds', _witness=('witness: return value', 'witness: copied'))], opts=['--unwind', '4'], timeout=120, mem_gb=4,
                string_model=True, defines={'STRING_LITERALS_OPAQUE': 1}, inputs=['ty', 'arith', 'retv'], note='bare type in {bool, string, other}, arithmetic flag, constness, return-value flag: symbolic')
    h.need_globals = NEED + ['_ZTIb', '_ZTINSt7__cxx1112basic_stringIcSt11char_traitsIcESaIcEEE']; hs.append(h)
    rx2 = r'Inline_Array_AST_Node<.*>::eval_internal\(chaiscript::detail::Dispatch_State const&\) const$'
    h = Harness('R2.Inline_Array', FAM, [rx2], 'c08_reeval.c', stubs=[r'AST_Node_Impl<.*>::eval\(', r'clone_if_necessary', r'chaiscript::const_var'], cuts=CUTS,
                shapes=[dict(MODE=2, KE=k, NODE_EVAL=core.csym(FAM, rx2), CLONE_IF=core.csym(FAM, rx1), CONST_VAR_VEC=core.csym(FAM, r'chaiscript::const_var<std::vector<chaiscript::Boxed_Value'),
                             _tag='elements=%d' % k, _witness=('witness: literal built',) + (('witness: element throws',) if k else ())) for k in (0, 1, 2, 3)],
                opts=['--unwind', '6', '--unwindset', 'log_count.0:26,main.0:8,memcmp.0:140'], timeout=300, mem_gb=6, string_model=True, defines={'STRING_LITERALS_OPAQUE': 1}, inputs=['behav'],
                note='K abstract element expressions (return or throw)')
    h.need_globals = NEED; hs.append(h)
    rx3 = r'Constant_AST_Node<.*>::eval_internal\('
    h = Harness('R3.Constant', FAM, [rx3], 'c08_reeval.c', cuts=CUTS, shapes=[dict(MODE=3, NODE_EVAL=core.csym(FAM, rx3), _tag='any constant', _witness=('witness: constant evaluated',))],
                opts=['--unwind', '4', '--unwindset', 'memcmp.0:140'], timeout=60, mem_gb=4, inputs=[], note='')
    h.need_globals = NEED; hs.append(h)
    CUTS2 = [r'eval_error::', r'Boxed_Value::~Boxed_Value', r'dispatch_error::']
    rx4 = r'Assign_Decl_AST_Node<.*>::eval_internal\(chaiscript::detail::Dispatch_State const&\) const$'
    st4 = [r'AST_Node_Impl<.*>::eval\(', r'clone_if_necessary', r'chaiscript::detail::Dispatch_State::add_object', r'chaiscript::Boxed_Value::reset_return_value']
    h = Harness('R4.Assign_Decl', FAM, [rx4], 'c08_reeval.c', stubs=st4, cuts=CUTS2,
                shapes=[dict(MODE=4, NODE_EVAL=core.csym(FAM, rx4), CLONE_IF=core.csym(FAM, rx1), ADD_OBJECT=core.csym(FAM, r'chaiscript::detail::Dispatch_State::add_object\('), _tag='var x = e', _witness=('witness: declared', 'witness: initializer throws'))],
                opts=['--unwind', '6', '--unwindset', 'log_count.0:26,main.0:8,memcmp.0:140'], timeout=300, mem_gb=6, string_model=True, defines={'STRING_LITERALS_OPAQUE': 1}, inputs=['behav'], note='initializer abstract (returns or throws)')
    h.need_globals = NEED; hs.append(h)
    rx5 = r'Inline_Map_AST_Node<.*>::eval_internal\(chaiscript::detail::Dispatch_State const&\) const$'
    CS = r'std::__detail::_Map_base<unsigned long, std::pair<unsigned long const, chaiscript::Type_Conversions::Conversion_Saves>.*::operator\[\]'
    st5 = [r'AST_Node_Impl<.*>::eval\(', r'clone_if_necessary', r'chaiscript::const_var', r'chaiscript::boxed_cast<', r'std::map<.*>::insert', CS, r'std::map<.*>::~map', r'std::_Rb_tree<.*>::_M_erase', r'std::unordered_map<unsigned long, chaiscript::Type_Conversions::Conversion_Saves.*::~unordered_map']
    g5, info5 = core.translate(FAM, [rx5], st5[:6], tag='R5_probe', cuts=CUTS2 + st5[6:])
    import re
    mret = re.search(r'^(struct agg\d+) F__ZNSt3map\w*6insertI', core.fread(g5), re.M)
    if not mret: raise core.BuildError('Inline_Map no longer inserts through std::map::insert(pair&&)')
    h = Harness('R5.Inline_Map', FAM, [rx5], 'c08_reeval.c', stubs=st5[:6], cuts=CUTS2 + st5[6:],
                shapes=[dict(MODE=5, KE=k, NNODES=8, NODE_EVAL=core.csym(FAM, rx5), CLONE_IF=core.csym(FAM, rx1), CAST_STRING=core.csym(FAM, r'chaiscript::boxed_cast<std::__cxx11::basic_string<char'),
                             MAP_INSERT=core.csym(FAM, r'std::map<std::__cxx11::basic_string<char.*chaiscript::Boxed_Value, std::less<.*>::insert<std::pair<'), CONST_VAR_MAP=core.csym(FAM, r'chaiscript::const_var<std::map<'), CONV_SAVES=core.csym(FAM, CS), MAP_INSERT_RET=mret.group(1),
                             _tag='pairs=%d' % k, _witness=('witness: literal built',) + (('witness: pair throws',) if k else ())) for k in (0, 1, 2)],
                opts=['--unwind', '6', '--unwindset', 'log_count.0:26,main.0:4,main.1:10,main.2:4,memcmp.0:140'], timeout=300, mem_gb=6, string_model=True, defines={'STRING_LITERALS_OPAQUE': 1}, inputs=['behav'],
                note='K abstract key/value expression pairs (return or throw); std::map::insert is a recorder')
    h.need_globals = NEED; hs.append(h)
    from props import C07
    e = C07.equation_harness(); e.name = 'R6.Equation(const target refused)'        # a literal handed out by a Constant node is const: every assignment form - =, compound, := - must refuse it, or the tree is edited
    hs.append(e)
    from props import C16
    b = C16.buildint_harness(); b.name = 'R7.integer_literals_are_built_const'        # the Constant node hands its value out by reference: it must be const, whatever its size
    hs.append(b)
    return hs

ASSUMPTIONS = ['literal values reach Constant nodes through const_var (recorded in the C16 harnesses); their constness protects them (C07)',
               'Boxed_Number::clone, the bool/string box constructors and the script-level clone function produce fresh storage (their own code is not checked here)']
OUTSIDE = ['Fun_Call argument passing, Fold_Right_Binary_Operator caching its right constant, Var_Decl / Reference / Global_Decl (bind no value from the tree)', 'functions whose bodies call stdlib mutators bound by raw member pointers (covered by const refusal, C07/C06)']
