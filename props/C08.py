"""C08 — evaluating code does not change the code: re-evaluation is deterministic."""
from irbmc import core
from irbmc.core import Harness
from props.engine_family import FAM, DE

CUTS = [r'eval_error::', r'chaiscript::detail::Dispatch_State::\w+\(', r'Boxed_Value::~Boxed_Value', r'dispatch_error::']
NEED = ['_ZTIN10chaiscript9exception10eval_errorE', '_ZTIN10chaiscript11Boxed_ValueE']

def harnesses(tier):
    hs = []
    rx1 = r'^chaiscript::eval::detail::clone_if_necessary'
    h = Harness('R1.clone_if_necessary', FAM, [rx1], 'c08_reeval.c', stubs=[DE + r'call_function\(', r'chaiscript::Boxed_Number::clone', r'chaiscript::Boxed_Value::Boxed_Value<', r'chaiscript::Boxed_Value::reset_return_value'],
                cuts=CUTS, shapes=[dict(MODE=1, CLONE_IF=core.csym(FAM, rx1), _tag='all value kinds', _witness=('witness: return value', 'witness: copied'))], opts=['--unwind', '4'], timeout=120, mem_gb=4,
                string_model=True, defines={'STRING_LITERALS_OPAQUE': 1}, inputs=['ty', 'arith', 'retv'], note='bare type in {bool, string, other}, arithmetic flag, constness, return-value flag: symbolic')
    h.need_globals = NEED + ['_ZTIb', '_ZTINSt7__cxx1112basic_stringIcSt11char_traitsIcESaIcEEE']; hs.append(h)
    rx2 = r'Inline_Array_AST_Node<.*>::eval_internal\(chaiscript::detail::Dispatch_State const&\) const$'
    h = Harness('R2.Inline_Array', FAM, [rx2], 'c08_reeval.c', stubs=[r'AST_Node_Impl<.*>::eval\(', r'clone_if_necessary', r'chaiscript::const_var'], cuts=CUTS,
                shapes=[dict(MODE=2, KE=k, NODE_EVAL=core.csym(FAM, rx2), CLONE_IF=core.csym(FAM, rx1), CONST_VAR_VEC=core.csym(FAM, r'chaiscript::const_var<std::vector<chaiscript::Boxed_Value'),
                             _tag='elements=%d' % k, _witness=('witness: literal built',) + (('witness: element throws',) if k else ())) for k in (0, 1, 2, 3)],
                opts=['--unwind', '6', '--unwindset', 'log_count.0:26,main.0:8,memcmp.0:140'], timeout=300, mem_gb=6, string_model=True, defines={'STRING_LITERALS_OPAQUE': 1}, inputs=['behav'],
                note='K abstract element expressions (return or throw)')
    h.need_globals = NEED; hs.append(h)
    rx3 = r'Constant_AST_Node<.*>::eval_internal\('
    h = Harness('R3.Constant', FAM, [rx3], 'c08_reeval.c', cuts=CUTS, shapes=[dict(MODE=3, NODE_EVAL=core.csym(FAM, rx3), _tag='any constant', _witness=('witness: constant evaluated',))],
                opts=['--unwind', '4', '--unwindset', 'memcmp.0:140'], timeout=60, mem_gb=4, inputs=[], note='')
    h.need_globals = NEED; hs.append(h)
    return hs

ASSUMPTIONS = ['literal values reach Constant nodes through const_var (recorded in the C16 harnesses); their constness protects them (C07)',
               'Boxed_Number::clone, the bool/string box constructors and the script-level clone function produce fresh storage (their own code is not checked here)']
OUTSIDE = ['Inline_Map and Assign_Decl nodes: to be added', 'functions whose bodies call stdlib mutators bound by raw member pointers (covered by const refusal, C07/C06)']
