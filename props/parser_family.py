"""The parser instantiation (inst/parser.cpp) shared by C01, C16, C20: boundaries pinned noinline before -O1."""
from irbmc.core import Family
P = r'ChaiScript_Parser<.*>::'
NOINLINE = [P + r'SkipComment\(', P + r'SkipWS\(', P + r'Eol\(\)', P + r'Eos\(', P + r'Symbol\(', P + r'Keyword\(', P + r'Char\(char',
            P + r'Symbol_\(', P + r'Keyword_\(', P + r'Char_\(', P + r'Eol_\(', P + r'Id_\(', P + r'Id\(bool', P + r'Num\(', P + r'Float_\(', P + r'Hex_\(',
            P + r'Binary_\(', P + r'IntSuffix_\(', P + r'read_exponent_and_suffix\(', P + r'Quoted_String_\(', P + r'Single_Quoted_String_\(',
            P + r'Quoted_String\(\)', P + r'Single_Quoted_String\(\)', P + r'Statements\(', P + r'build_match<', P + r'make_node<', P + r'buildInt\(',
            P + r'buildFloat\(', P + r'validate_object_name\(', P + r'parse_instr_eval\(', P + r'Depth_Counter::', P + r'Char_Parser<.*>::',
            P + r'parse_internal\(', P + r'is_operator\(',
            r'eval_error::eval_error\(', r'eval_error::~eval_error\(', r'^std::__cxx11::sto(i|l|ll|ul|ull)\(', r'chaiscript::const_var', r'chaiscript::parse_num<',
            r'basic_string<char, std::char_traits<char>, std::allocator<char> >::(basic_string|~basic_string|push_back|_M_append|_M_assign|_M_replace_aux|_M_replace|_M_erase|_M_mutate|_M_create|_M_construct|reserve|append|assign|operator\+=|operator=|clear|_M_dispose)',
            r'File_Position::File_Position', r'chaiscript::Boxed_Number::', r'std::vector<std::unique_ptr<chaiscript::eval::AST_Node_Impl<.*::(push_back|emplace_back)', r'chaiscript::Boxed_Value::Boxed_Value<', r'chaiscript::Boxed_Value::~Boxed_Value', r'std::operator\+<char, std::char_traits<char>, std::allocator<char> >']
FAM = Family('parser', 'parser.cpp', noinline=NOINLINE)
# same TU, Position's members kept as callable units (P1 / C20 E1)
FAM_POS = Family('parser_pos', 'parser.cpp', noinline=NOINLINE + [P + r'Position::'])
