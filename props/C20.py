"""C20 — run-time errors point at the construct that failed."""
from irbmc import core
from irbmc.core import Harness
from props import C01, C16

def harnesses(tier):
    hs = []
    ns = [1, 2, 3, 4] if tier == 'quick' else [1, 2, 3, 4, 5, 6]
    for k in ['Symbol_', 'Keyword_', 'Char_', 'Eol_', 'SkipComment', 'SkipWS', 'Float_', 'Hex_', 'Binary_', 'read_exponent_and_suffix', 'Quoted_String_', 'Single_Quoted_String_', 'Id_']:
        h = C01.lex_harness(k, ns); h.name = 'E1.coords.' + k
        for s in h.shapes: s['COORDS'] = 1
        hs.append(h)
    i = C16.id_harness(tier); i.name = 'E2.Id(start coordinates)'
    i.shapes = [s for s in i.shapes if 'symbolic' in s['_tag']]
    hs.append(i)
    return hs

ASSUMPTIONS = ['as C01 lexer harnesses; the start state satisfies the coordinate invariant, which each kernel must preserve (one inductive step covers any history)',
               'm_last_col holds the column of the newline just crossed (what operator++ records)']
OUTSIDE = ['trace plumbing in AST_Node_Impl::eval and error construction in Id/Fun_Call nodes (E3/E4): to be added', 'file names across eval() chunks', 'columns after a tab (bytes are counted)']
