"""C20 — run-time errors point at the construct that failed."""
from irbmc import core
from irbmc.core import Harness
from props import C01, C16

def harnesses(tier):
    hs = []
    ns = [1, 2, 3, 4] if tier == 'quick' else [1, 2, 3, 4, 5, 6]
    for k in ['Symbol_', 'Keyword_', 'Char_', 'Eol_', 'SkipComment', 'SkipWS', 'Float_', 'Hex_', 'Binary_', 'read_exponent_and_suffix', 'Quoted_String_', 'Single_Quoted_String_', 'Id_']:
        h = C01.lex_harness(k, ns); h.name = 'E1.coords.' + k
        for s in h.shapes: s['COORDS'] = 1
        hs.append(h)
    i = C16.id_harness(tier); i.name = 'E2.Id(start coordinates)'
    i.shapes = [s for s in i.shapes if 'symbolic' in s['_tag']]
    hs.append(i)
    hs.append(eval_wrapper_harness())
    from props import C02, C09
    for nm in ('Unused_Return', 'Block', 'Assign_Decl'):          # rewrites that rebuild a statement / call node: the new node keeps the replaced node's own text and location
        h = C02.pass_harness(nm, tier); h.name = 'E5.optimizer keeps locations.' + nm; hs.append(h)
    idn = C09.carrier_harness(5); idn.name = 'E4.Id(error raised by the identifier node)'; hs.append(idn)
    return hs

def eval_wrapper_harness():
    from props.engine_family import FAM as ENG
    from irbmc.core import Harness
    rx = r'AST_Node_Impl<.*>::eval\(chaiscript::detail::Dispatch_State const&\) const$'
    stubs = [r'chaiscript::AST_Node_Trace::AST_Node_Trace\(', r'std::vector<chaiscript::AST_Node_Trace.*>::(push_back|emplace_back)', r'chaiscript::AST_Node_Trace::~AST_Node_Trace']
    d = {'NODE_EVAL': core.csym(ENG, rx), 'TRACE_CTOR': core.csym(ENG, r'^chaiscript::AST_Node_Trace::AST_Node_Trace\(chaiscript::AST_Node const&\)$'), 'TRACE_DTOR': core.csym(ENG, r'^chaiscript::AST_Node_Trace::~AST_Node_Trace\(\)$'),
         'TRACE_PUSH': core.csym(ENG, r'^std::vector<chaiscript::AST_Node_Trace.*>::push_back\(chaiscript::AST_Node_Trace&&\)$')}
    h = Harness('E3.eval_wrapper(call stack)', ENG, [rx], 'c20_eval_wrapper.c', stubs=stubs, cuts=[r'Boxed_Value::~Boxed_Value'], keep_virtual=[r'.*'],
                shapes=[dict(d, _tag='any outcome of eval_internal', _witness=('witness: value', 'witness: eval_error traced', 'witness: other exception'))], opts=['--unwind', '6'], timeout=120, mem_gb=4,
                inputs=['behav'], note='eval_internal abstract: returns or throws one of 6 kinds; trace construction and push_back are recorders')
    h.need_globals = ['_ZTIN10chaiscript9exception10eval_errorE', '_ZTIN10chaiscript11Boxed_ValueE']
    return h

ASSUMPTIONS = ['as C01 lexer harnesses; the start state satisfies the coordinate invariant, which each kernel must preserve (one inductive step covers any history)',
               'm_last_col holds the column of the newline just crossed (what operator++ records)']
OUTSIDE = ['error construction in Fun_Call nodes (which location the eval_error is given) and the copy of text/location AST_Node_Trace makes', 'file names across eval() chunks', 'columns after a tab (bytes are counted)']
