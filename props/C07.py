"""C07 — const values cannot be modified from script."""
from irbmc import core
from irbmc.core import Harness
from props.engine_family import FAM, DE
from props import C05, C06

EQ_STUBS = [r'AST_Node_Impl<.*>::eval\(', DE + r'(new_function_call|pop_function_call|call_function)\(', r'chaiscript::Boxed_Number::do_oper', r'clone_if_necessary',
            r'chaiscript::Boxed_Value::(assign|type_match|reset_return_value)\(']
EQ_CUTS = [r'eval_error::', r'chaiscript::detail::Dispatch_State::\w+\(', r'Boxed_Value::~Boxed_Value', r'dispatch_error::']

def equation_harness():
    rx = r'Equation_AST_Node<.*>::eval_internal\(chaiscript::detail::Dispatch_State const&\) const$'
    wit = ('witness: rhs throws', 'witness: lhs throws', 'witness: const or temporary target', 'witness: arithmetic assignment', 'witness: function assignment',
           'witness: reference assignment', 'witness: compound function assignment')
    return Harness('E1.Equation', FAM, [rx], 'c07_equation.c', stubs=EQ_STUBS, cuts=EQ_CUTS, shapes=[dict(EQ_EVAL=core.csym(FAM, rx), _tag='all', _witness=wit)],
                   opts=['--unwind', '6', '--unwindset', 'log_count.0:26,main.0:6'], timeout=600, mem_gb=8, string_model=True, defines={'STRING_LITERALS_OPAQUE': 1, 'NO_BV_TI': 1},
                   inputs=['kind', 'behav', 'ldata', 'rdata', 'type_match_result'], note='operator kind (=, :=, compound), child behaviours, flags of both values: symbolic')

def data_harness():
    from props import C06
    rx = r'chaiscript::Boxed_Value::Data::Data\(chaiscript::Type_Info const&, chaiscript::detail::Any, bool, void const\*, bool\)'
    return Harness('D0.Data', C06.FAM, [rx], 'c07_data.c', shapes=[dict(DATA_CTOR=core.csym(C06.FAM, rx), _tag='all', _witness=('witness: constructed', 'witness: const type'))],
                   opts=['--unwind', '4'], timeout=120, mem_gb=4, inputs=['flags', 'is_ref', 'rv'], note='all Type_Info flag combinations, null or non-null object')

def untyped_assign_harness():
    import re
    roots = [r'chaiscript::bootstrap::ptr_assign<', r'Bootstrap::unknown_assign\(']
    stubs = [r'chaiscript::Boxed_Value::assign\(', r'chaiscript::Boxed_Value::Boxed_Value<', r'bad_boxed_cast::bad_boxed_cast', r'std::shared_ptr<.*>::~shared_ptr']
    cuts = [r'Boxed_Value::~Boxed_Value']
    g, info = core.translate(C06.FAM, roots, stubs, tag='N4_probe', cuts=cuts)
    ext = [e.split('|')[0].strip() for e in info['ext']]
    def one(pat):
        m = [e for e in ext if re.search(pat, e)]
        if len(m) != 1: raise core.BuildError('C07 N4: expected exactly one external matching %s, found %d' % (pat, len(m)))
        return 'F_' + core.cname(m[0])
    TIS = {'TI_FUNCTION_OBJ': '_ZTIN10chaiscript8dispatch19Proxy_Function_BaseE', 'TI_BAD_BOXED_CAST': '_ZTIN10chaiscript9exception14bad_boxed_castE'}
    d = {'ASSIGN': one(r'^_ZN10chaiscript11Boxed_Value6assignERKS0_$'), 'BV_FROM_SP': one(r'^_ZN10chaiscript11Boxed_ValueC2IRKSt10shared_ptrINS_8dispatch19Proxy_Function_BaseEEvEEOT_b$'),
         'BV_FROM_CSP': one(r'^_ZN10chaiscript11Boxed_ValueC2IRKSt10shared_ptrIKNS_8dispatch19Proxy_Function_BaseEEvEEOT_b$'), 'BBC_CTOR': one(r'bad_boxed_castC[12]ENS_7utility13Static_StringE$'),
         'PTR_ASSIGN': core.csym(C06.FAM, r'ptr_assign<chaiscript::dispatch::Proxy_Function_Base>\('), 'PTR_ASSIGN_C': core.csym(C06.FAM, r'ptr_assign<chaiscript::dispatch::Proxy_Function_Base const>\('),
         'UNKNOWN_ASSIGN': core.csym(C06.FAM, r'Bootstrap::unknown_assign\('), 'VERIF_STRCMP_BY_IDENTITY': 1}
    for k, v in TIS.items(): d[k] = '((char*)&g_%s)' % v
    N = {1: 'ptr_assign<Proxy_Function_Base>', 2: 'ptr_assign<const Proxy_Function_Base>', 3: 'unknown_assign'}
    h = Harness('N4.untyped_assign', C06.FAM, roots, 'c07_untyped_assign.c', stubs=stubs, cuts=cuts,
                shapes=[dict(d, ENTRY=e, _tag=N[e], _witness=('witness: refused', 'witness: assigned') + (('witness: const function object refused',) if e <= 2 else ())) for e in (1, 2, 3)],
                opts=['--unwind', '4'], timeout=300, mem_gb=6, inputs=['t', 'fl'], note='target type from {function object, other, undefined}, flags const/reference/pointer symbolic; Boxed_Value::assign is a recorder')
    h.need_globals = list(TIS.values())
    return h

def harnesses(tier):
    hs = [equation_harness(), data_harness(), untyped_assign_harness()]
    oh = C05.oper_harness(tier); oh.name = 'N1.oper_const_lhs'      # the in-place pointer is null for const / return-value operands (assert tagged C07)
    hs.append(oh)
    for l in (C05.ALL_TYPES if tier != 'quick' else ['int32', 'uint8', 'int64', 'double']):
        u = C05.unary_harness(l); u.name = 'N2.unary_const<%s>' % l; hs.append(u)      # ++/-- on a const number: refused, value unchanged
    from props import C03
    pn = C03.operator_node_harness(3); pn.name = 'N3.Prefix_node'; hs.append(pn)      # ++/-- on a const number refused by the node before anything is computed
    return hs

ASSUMPTIONS = ['children are abstract (return a value with symbolic const/return-value/undef/arithmetic flags, or throw)', 'do_oper/call_function/clone_if_necessary/assign are recorders',
               'eval_error construction is cut (empty bodies generated by the translator)']
OUTSIDE = ['mutating members of bound std containers: refused at dispatch (C06 casts), not composed end-to-end here', 'the Prefix_AST_Node route to the unary number operators and attribute access (the number operators themselves: N2)']
