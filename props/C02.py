"""C02 — the AST optimizer never changes what a program does (per-pass local soundness obligations)."""
from irbmc import core
from irbmc.core import Family, Harness, STRING_MODEL

NOINLINE = [r'chaiscript::make_unique<', r'std::unique_ptr<chaiscript::eval::AST_Node_Impl<.*>::~unique_ptr', r'chaiscript::optimizer::\w+::optimize<', r'chaiscript::boxed_cast<',
            r'chaiscript::optimizer::(child_at|child_count|contains_var_decl_in_scope|make_compiled_node)', r'chaiscript::Boxed_Value::~Boxed_Value', r'chaiscript::const_var',
            r'chaiscript::detail::Dispatch_Engine::(new_scope|pop_scope)\(', r'chaiscript::detail::Dispatch_State::add_object', r'chaiscript::Boxed_Value::Object_Data::get<',
            r'AST_Node_Impl<.*>::eval\(', r'chaiscript::Boxed_Value::Boxed_Value<', r'chaiscript::void_var'] + STRING_MODEL
FAM = Family('optimizer', 'optimizer.cpp', noinline=NOINLINE)

def dead_code_harness(tier):
    rx = r'^auto chaiscript::optimizer::Dead_Code::optimize<[^(]*>\(std::unique_ptr<[^)]*\)$'
    g, info = core.translate(FAM, [rx], [r'chaiscript::make_unique<', r'std::unique_ptr<chaiscript::eval::AST_Node_Impl<.*>::~unique_ptr'] + STRING_MODEL, tag='O1_probe')
    mk = [e.split('|')[0].strip() for e in info['ext'] if 'make_unique' in e and 'Block_AST_Node' in e]
    if len(mk) != 1: raise core.BuildError('Dead_Code no longer builds exactly one kind of Block node: %s' % mk)
    d = {'OPTIMIZE': core.csym(FAM, rx), 'MAKE_BLOCK': 'F_' + core.cname(mk[0]), 'UPTR_DTOR': core.csym(FAM, r'std::unique_ptr<chaiscript::eval::AST_Node_Impl<.*>::~unique_ptr')}
    shapes = [dict(d, KCH=k, _tag='children=%d' % k, _witness=('witness: unchanged',) + (('witness: statements dropped',) if k >= 2 else ())) for k in ((1, 2, 3) if tier == 'quick' else (1, 2, 3, 4))]
    return Harness('O1.Dead_Code', FAM, [rx], 'c02_dead_code.c', stubs=[r'chaiscript::make_unique<', r'std::unique_ptr<chaiscript::eval::AST_Node_Impl<.*>::~unique_ptr'], shapes=shapes,
                   opts=['--unwind', '7'], timeout=600, mem_gb=8, string_model=True, defines={'NO_BV_TI': 1, 'NO_EE_TI': 1}, inputs=['ck', 'root_is_block'],
                   note='root Block or not; each child Id / Constant / Noop / effectful: symbolic; children vector on the heap')

def lemma_harnesses():
    """statements the pass drops can neither fail nor have an effect: their real eval_internal calls nothing and does not throw"""
    from props.engine_family import FAM as EFAM
    from props import C08
    hs = []
    for h in C08.harnesses('quick'):
        if h.name.startswith('R3'): h.name = 'O1.lemma.Constant'; hs.append(h)
    return hs

def harnesses(tier):
    return [dead_code_harness(tier)] + lemma_harnesses()

ASSUMPTIONS = ['local soundness of each rewrite composes bottom-up through build_match (argued, not solved)', 'the new Block node construction is a recorder of (text, location, children)']
OUTSIDE = ['passes other than Dead_Code (Block, Return, If, Unused_Return, Assign_Decl, For_Loop, Constant_Fold, Partial_Fold): not covered yet in this session', 'AST reflection']
