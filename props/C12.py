"""C12 — built-in containers/strings are bounds-safe and match their C++ models."""
from irbmc import core
from irbmc.core import Family, Harness, STRING_MODEL

NOINLINE = [r'chaiscript::Boxed_Value::~Boxed_Value', r'chaiscript::Boxed_Value::Boxed_Value<', r'chaiscript::Boxed_Value::Object_Data::get', r'std::range_error::', r'std::out_of_range::',
            r'chaiscript::bootstrap::standard_library::detail::(insert_at|erase_at)<', r'Bidir_Range<.*>::', r"standard_library::\w+<.*>\(.*\)::'lambda\d*'\(.*\)::operator\(\)"] + STRING_MODEL
FAM = Family('stl', 'stl.cpp', noinline=NOINLINE)
VEC = r'std::vector<chaiscript::Boxed_Value, std::allocator<chaiscript::Boxed_Value> >'
SL = r'chaiscript::bootstrap::standard_library::'
LAM = lambda reg, which, sig: '^[^(]*' + SL + reg + '<' + VEC + r' >\(.*\)::\'' + which + r'\'\(' + sig + r'\)::operator\(\)'
OPS = {  # name -> (OP code, regex of the real callable, needs K>=?)
    'index':    (1, LAM('random_access_container_type', 'lambda', VEC + '&, int')),
    'cindex':   (2, LAM('random_access_container_type', 'lambda', VEC + ' const&, int')),
    'front':    (3, LAM('vector_type', 'lambda', VEC + '&')),
    'cfront':   (4, LAM('vector_type', 'lambda', VEC + ' const&')),
    'back':     (5, LAM('back_insertion_sequence_type', 'lambda', VEC + '&')),
    'cback':    (6, LAM('back_insertion_sequence_type', 'lambda', VEC + ' const&')),
    # the guarded lambda; if the binding goes straight to the std:: member (as before the fix) that member is what scripts call
    'pop_back': (7, LAM('back_insertion_sequence_type', 'lambda0', VEC + '&') + '|^' + VEC + r'::pop_back\(\)'),
    'insert_at': (8, '^void ' + SL + r'detail::insert_at<' + VEC + r' >\('),
    'erase_at': (9, '^void ' + SL + r'detail::erase_at<' + VEC + r' >\('),
    'push_back_ref': (10, r'^' + VEC + r'::push_back\(chaiscript::Boxed_Value const&\)'),
    'clear':    (11, LAM('container_type', 'lambda', VEC + r'\*')),
    'size':     (12, LAM('container_type', 'lambda', VEC + r' const\*')),
    'empty':    (13, LAM('container_type', 'lambda0', VEC + r' const\*')),
}

STR = r'std::__cxx11::basic_string<char, std::char_traits<char>, std::allocator<char> >'
SLAM = lambda reg, which, sig: SL + reg + '<' + STR + r' >\(.*\)::\'' + which + r'\'\(' + sig + r'\)::operator\(\)'
STRING_OPS = {'index': (1, SLAM('random_access_container_type', 'lambda', STR + '&, int'), True), 'cindex': (2, SLAM('random_access_container_type', 'lambda', STR + ' const&, int'), True),
              'substr': (3, SLAM('string_type', 'lambda', STR + r' const\*, unsigned long, unsigned long'), True), 'append_char': (4, SLAM('string_type', 'lambda', STR + r'\*, char'), False),
              'clear': (5, SLAM('string_type', 'lambda', STR + r'\*'), False), 'size': (6, SLAM('string_type', 'lambda0', STR + r' const\*'), False), 'empty': (7, SLAM('string_type', 'lambda', STR + r' const\*'), False)}

def string_harnesses(tier):
    hs = []
    ks = [0, 1, 2, 3] if tier == 'quick' else [0, 1, 2, 3, 5, 8]
    for name, (code, rx, can_fail) in STRING_OPS.items():
        syms = core.find_symbols(FAM, rx)
        if len(syms) != 1:
            hs.append(Harness('T.' + name, FAM, [rx], 'c12_string.c', shapes=[{'_tag': 'unit-missing'}])); continue
        fn = 'F_' + core.cname(syms[0][0])
        shapes = []
        for k in ks:
            wit = []
            if can_fail: wit.append('witness: precondition violated')
            if not (name in ('index', 'cindex') and k == 0): wit.append('witness: operation performed')
            shapes.append(dict(FN=fn, OP=code, K=k, _tag='K=%d' % k, _witness=tuple(wit)))
        hs.append(Harness('T.string.' + name, FAM, [rx], 'c12_string.c', stubs=[r'std::out_of_range::'], shapes=shapes, opts=['--unwind', '18'], timeout=300, mem_gb=6, string_model=True, inputs=['idx', 'pos', 'len', 'c'],
                          note='a string of exactly K bytes (every byte value), arbitrary int index / size_t position and length'))
    return hs

def harnesses(tier):
    hs = []
    ks = [0, 1, 2, 3] if tier == 'quick' else [0, 1, 2, 3, 4, 5]
    for name, (code, rx) in OPS.items():
        syms = core.find_symbols(FAM, rx)
        if len(syms) > 1 and '|' in rx: syms = core.find_symbols(FAM, rx.split('|')[0]); rx = rx.split('|')[0]
        if len(syms) != 1:
            hs.append(Harness('V.' + name, FAM, [rx], 'c12_vector.c', shapes=[{'_tag': 'unit-missing'}]))   # reported by the translator as 0 roots
            continue
        fn = 'F_' + core.cname(syms[0][0]); raw = 'lambda' not in syms[0][1] and name == 'pop_back'
        shapes = []
        for k in ks:
            for capx in (0, 1):
                wit = []
                can_fail = name in ('index', 'cindex', 'insert_at', 'erase_at') or (name in ('front', 'cfront', 'back', 'cback', 'pop_back') and k == 0)
                can_ok = not (name in ('front', 'cfront', 'back', 'cback', 'pop_back') and k == 0) and not (name in ('index', 'cindex', 'erase_at') and k == 0)
                if can_fail: wit.append('witness: precondition violated')
                if can_ok: wit.append('witness: operation performed')
                if name == 'insert_at' and capx == 0:
                    # reallocation path: a symbolic split point makes every element move a symbolic-offset copy (no verdict at 6 GB);
                    # the position is enumerated instead (all in-range values, out-of-range representatives)
                    for pos in list(range(k + 1)) + [-1, k + 1, 2147483647, -2147483648]:
                        ok = 0 <= pos <= k
                        shapes.append(dict(FN=fn, OP=code, K=k, CAPX=capx, FIXIDX=pos, _tag='K=%d,spare_capacity=0,pos=%d' % (k, pos), _witness=('witness: operation performed' if ok else 'witness: precondition violated',)))
                    continue
                shapes.append(dict(dict(RAW_MEMBER=1) if raw else {}, FN=fn, OP=code, K=k, CAPX=capx, _tag='K=%d,spare_capacity=%d' % (k, capx), _witness=tuple(wit)))
        hs.append(Harness('V.' + name, FAM, [rx], 'c12_vector.c', stubs=[r'chaiscript::Boxed_Value::~Boxed_Value', r'std::range_error::', r'std::out_of_range::'], shapes=shapes,
                          opts=['--unwind', str(max(ks) + 4)], timeout=300, mem_gb=6, string_model=True, defines={'STRING_LITERALS_OPAQUE': 1}, inputs=['idx'],
                          note='arbitrary int index/position; exactly K elements; with and without spare capacity (reallocation path of insert/push_back is real libstdc++ code)'))
    BR = r'^[^(]*' + SL + r'Bidir_Range<' + VEC + r', __gnu_cxx::__normal_iterator<chaiscript::Boxed_Value\*, [^(]*>::'
    for code, nm, tail, needs in ((1, 'empty', r'empty\(\) const$', 0), (2, 'pop_front', r'pop_front\(\)$', 1), (3, 'pop_back', r'pop_back\(\)$', 1), (4, 'front', r'front\(\) const$', 1), (5, 'back', r'back\(\) const$', 1), (6, 'ctor', r'Bidir_Range\(std::vector<[^(]*&\)$', 0)):
        rx = BR + tail
        shapes = [dict(OP=code, FN=core.csym(FAM, rx), K=k, _tag='K=%d' % k, _witness=(('witness: operation performed',) if (k or not needs) else ()) + (('witness: precondition violated',) if needs else ())) for k in ks]
        hs.append(Harness('R.' + nm, FAM, [rx], 'c12_range.c', stubs=[r'std::range_error::'], shapes=shapes, opts=['--unwind', '4'], timeout=120, mem_gb=4, inputs=['i0', 'i1'],
                          note='range [begin,end] anywhere inside a vector of exactly K elements, both ends symbolic'))
    # the same view over a const container (what range() of a const Vector yields): its own instantiation
    BRC = r'^[^(]*' + SL + r'Bidir_Range<' + VEC + r' const, __gnu_cxx::__normal_iterator<chaiscript::Boxed_Value const\*, [^(]*>::'
    for code, nm, tail, needs in ((1, 'empty', r'empty\(\) const$', 0), (2, 'pop_front', r'pop_front\(\)$', 1), (3, 'pop_back', r'pop_back\(\)$', 1), (4, 'front', r'front\(\) const$', 1), (5, 'back', r'back\(\) const$', 1), (6, 'ctor', r'Bidir_Range\(std::vector<[^(]* const&\)$', 0)):
        rx = BRC + tail
        shapes = [dict(OP=code, FN=core.csym(FAM, rx), K=k, _tag='K=%d' % k, _witness=(('witness: operation performed',) if (k or not needs) else ()) + (('witness: precondition violated',) if needs else ())) for k in ks]
        hs.append(Harness('CR.' + nm, FAM, [rx], 'c12_range.c', stubs=[r'std::range_error::'], shapes=shapes, opts=['--unwind', '4'], timeout=120, mem_gb=4, inputs=['i0', 'i1'],
                          note='const range view; range [begin,end] anywhere inside a vector of exactly K elements, both ends symbolic'))
    hs += string_harnesses(tier)
    return hs

ASSUMPTIONS = ['elements are Boxed_Values without control block (copy/destroy of an element is a pointer copy; ownership is C11)', 'operator new = malloc that does not fail',
               'std::range_error / std::out_of_range construction is cut']
OUTSIDE = ['Map (std::map internals are not modelled)', 'string find family, c_str/data (pure forwarding to libstdc++); strings longer than 15 bytes (SSO string model)', 'range views after structural modification of their container (documented exception of the property)',
           'resize/reserve with sizes above the harness bound']
