"""C16 — literals denote the values and types they denote in C++."""
from irbmc import core
from irbmc.core import Harness
from props.parser_family import FAM, P, NOINLINE

EE = [r'eval_error::eval_error\(', r'eval_error::~eval_error\(']
CPX = P + r'Char_Parser<std::__cxx11::basic_string<char, std::char_traits<char>, std::allocator<char> > >::'

def escape_harness(ns, alphabets):
    d = {'CP_CTOR': core.csym(FAM, CPX + r'Char_Parser\('), 'CP_PARSE': core.csym(FAM, CPX + r'parse\('), 'CP_FINISH': core.csym(FAM, CPX + r'finish\(')}
    shapes = []
    for n in ns:
        for interp in (0, 1):
            for an, ax in alphabets:
                sh = dict(d, N=n, INTERP=interp, _tag='N=%d,interp=%d,%s' % (n, interp, an), _opts=['--unwind', str(4 * n + 8)])
                if ax: sh['ALPHABET(c)'] = ax
                if n < 2: sh['_witness'] = ('witness: accepted',)
                shapes.append(sh)
    return Harness('I4.Char_Parser', FAM, [CPX + r'Char_Parser\(', CPX + r'parse\(', CPX + r'finish\('], 'c16_escape.c',
                   stubs=EE + [r'^std::__cxx11::sto(i|ll|ul)\('], shapes=shapes, opts=['--no-array-field-sensitivity'], timeout=900, mem_gb=10, string_model=True,
                   defines={'STRING_LITERALS_OPAQUE': 1}, inputs=['in'], required_witness=('witness: accepted', 'witness: rejected'),
                   note='every content byte sequence of length N; constructor, parse() per byte, destructor (also as run by unwinding)')

def escape_step_harness():
    d = {'CP_CTOR': core.csym(FAM, CPX + r'Char_Parser\('), 'CP_PARSE': core.csym(FAM, CPX + r'parse\('), 'CP_FINISH': core.csym(FAM, CPX + r'finish\('), 'STEP_MODE': 1, 'N': 1}
    shapes = [dict(d, INTERP=i, _tag='interp=%d' % i) for i in (0, 1)]
    return Harness('I4.Char_Parser.step', FAM, [CPX + r'parse\(', CPX + r'finish\('], 'c16_escape.c', stubs=EE + [r'^std::__cxx11::sto(i|ll|ul)\('], shapes=shapes,
                   opts=['--unwind', '18', '--no-array-field-sensitivity'], timeout=900, mem_gb=10, string_model=True, defines={'STRING_LITERALS_OPAQUE': 1},
                   inputs=['c', 'do_finish', 'cpm', 'match'], required_witness=('witness: accepted', 'witness: rejected', 'witness: inside a'),
                   note='inductive step: one parse() (+ optional finish()) from an arbitrary decoder state satisfying the representation invariant; covers literals of any length')

ANY = ('any', None)
ESC = ('esc', "((c)=='\\\\'||(c)=='x'||(c)=='u'||(c)=='U'||(c)=='0'||(c)=='7'||(c)=='8'||(c)=='F'||(c)=='f'||(c)=='D'||(c)=='d'||(c)=='1'||(c)=='n'||(c)=='q'||(c)=='$'||(c)=='{')")

def harnesses(tier):
    hs = []
    hs.append(escape_step_harness())
    if tier == 'quick': hs.append(escape_harness([1, 2], [ANY]))
    else: hs.append(escape_harness([1, 2, 3], [ANY])); hs.append(escape_harness_named('I4.Char_Parser.long', [4, 5], [ESC]))
    return hs

def escape_harness_named(name, ns, alph):
    h = escape_harness(ns, alph); h.name = name; return h

ASSUMPTIONS = ['std::stoll/std::stoi on the collected digit strings are an exact 12-line model (<= 9 digits), trusted',
               'std::string mutators are the SSO-only model (decoded literal <= 15 bytes)', 'eval_error constructors are cut']
OUTSIDE = ['content that ends in a lone backslash (the quote scanners never produce it)', 'interpolation markers ($) in double-quoted strings: handled by Quoted_String, not by Char_Parser']
