"""C16 — literals denote the values and types they denote in C++."""
import re
from irbmc import core
from irbmc.core import Harness
from props.parser_family import FAM, P, NOINLINE

EE = [r'eval_error::eval_error\(', r'eval_error::~eval_error\(']
CPX = P + r'Char_Parser<std::__cxx11::basic_string<char, std::char_traits<char>, std::allocator<char> > >::'

def escape_harness(ns, alphabets):
    d = {'CP_CTOR': core.csym(FAM, CPX + r'Char_Parser\('), 'CP_PARSE': core.csym(FAM, CPX + r'parse\('), 'CP_FINISH': core.csym(FAM, CPX + r'finish\(')}
    shapes = []
    for n in ns:
        for interp in (0, 1):
            for an, ax in alphabets:
                sh = dict(d, N=n, INTERP=interp, _tag='N=%d,interp=%d,%s' % (n, interp, an), _opts=['--unwind', str(4 * n + 8)])
                if ax: sh['ALPHABET(c)'] = ax
                if n < 2: sh['_witness'] = ('witness: accepted',)
                shapes.append(sh)
    return Harness('I4.Char_Parser', FAM, [CPX + r'Char_Parser\(', CPX + r'parse\(', CPX + r'finish\('], 'c16_escape.c',
                   stubs=EE + [r'^std::__cxx11::sto(i|ll|ul)\('], shapes=shapes, opts=['--no-array-field-sensitivity'], timeout=900, mem_gb=10, string_model=True,
                   defines={'STRING_LITERALS_OPAQUE': 1}, inputs=['in'], required_witness=('witness: accepted', 'witness: rejected'),
                   note='every content byte sequence of length N; constructor, parse() per byte, destructor (also as run by unwinding)')

def escape_step_harness():
    d = {'CP_CTOR': core.csym(FAM, CPX + r'Char_Parser\('), 'CP_PARSE': core.csym(FAM, CPX + r'parse\('), 'CP_FINISH': core.csym(FAM, CPX + r'finish\('), 'STEP_MODE': 1, 'N': 1}
    shapes = [dict(d, INTERP=i, _tag='interp=%d' % i) for i in (0, 1)]
    return Harness('I4.Char_Parser.step', FAM, [CPX + r'parse\(', CPX + r'finish\('], 'c16_escape.c', stubs=EE + [r'^std::__cxx11::sto(i|ll|ul)\('], shapes=shapes,
                   opts=['--unwind', '18', '--no-array-field-sensitivity'], timeout=900, mem_gb=10, string_model=True, defines={'STRING_LITERALS_OPAQUE': 1},
                   inputs=['c', 'do_finish', 'cpm', 'match'], required_witness=('witness: accepted', 'witness: rejected', 'witness: inside a'),
                   note='inductive step: one parse() (+ optional finish()) from an arbitrary decoder state satisfying the representation invariant; covers literals of any length')

def buildfloat_harness(tier):
    rx = P + r'buildFloat\('
    g, info = core.translate(FAM, [rx], [r'chaiscript::parse_num<', r'chaiscript::const_var'], tag='I3_probe')
    ext = [e.split('|')[0].strip() for e in info['ext']]
    def one(pat):
        m = [e for e in ext if re.search(pat, e)]
        if len(m) != 1: raise core.BuildError('buildFloat: expected exactly one external matching %s, found %d' % (pat, len(m)))
        return 'F_' + core.cname(m[0])
    d = {'BUILD_FLOAT': core.csym(FAM, rx), 'PARSE_F': one(r'9parse_numIfE'), 'PARSE_D': one(r'9parse_numIdE'), 'PARSE_E': one(r'9parse_numIeE'), 'CV_F': one(r'9const_varIfE'), 'CV_D': one(r'9const_varIdE'), 'CV_E': one(r'9const_varIeE')}
    ns = (1, 2, 3, 4) if tier == 'quick' else (1, 2, 3, 4, 5, 6)
    return Harness('I3.buildFloat(type selection)', FAM, [rx], 'c16_buildfloat.c', stubs=[r'chaiscript::parse_num<', r'chaiscript::const_var'],
                   shapes=[dict(d, N=n, _tag='N=%d' % n, _witness=('witness: double',) + (('witness: float', 'witness: long double') if n >= 2 else ())) for n in ns], opts=['--unwind', '9'], timeout=120, mem_gb=4, inputs=['text'],
                   note='every text of N bytes over digits / . / e E + - followed by at most one suffix character; the numeric conversion itself is a recorder')

def buildint_harness():
    rx = P + r'buildInt\('
    shapes = [dict(BUILDINT=core.csym(FAM, rx), BASE=b, SUF=s, _tag='base=%d,suffix_len=%d' % (b, s), _witness=('witness: literal built',) + (() if b == 10 and s == 0 else ('witness: value above',)))
              for b in (2, 8, 10, 16) for s in (0, 1, 2, 3)]
    def replay(inp, shape, failed):
        # the literal the counterexample stands for, evaluated by the REAL interpreter: type (by its registered name) and value against the C++ [lex.icon] table
        try:
            V = int(inp['V']['hex'], 16); base = shape['BASE']; suf = shape['SUF']
            npre = 2 if base in (16, 2) else 0
            sfx = ''.join(chr(int(inp['text[%dl]' % (npre + 2 + i)]['hex'], 16)) for i in range(suf))
        except Exception as e: return None, 'inputs missing from trace: %s (%s)' % (sorted(inp), e)
        lit = {10: str(V), 16: '0x%x' % V, 2: '0b' + bin(V)[2:], 8: '0%o' % V}[base] + sfx
        uns = 'u' in sfx.lower(); nl = sfx.lower().count('l'); dec = base == 10
        if 'exactly one constant' in failed['desc']: return None, 'no native oracle for HOW the constant is built (const_var or not); type and value may well be right'
        fits = {'int': V <= 0x7fffffff, 'uint32_t': V <= 0xffffffff, 'int64_t': V <= 0x7fffffffffffffff, 'size_t': True, 'long_long': V <= 0x7fffffffffffffff, 'unsigned_long_long': True}
        if not uns: seq = {0: ['int', 'int64_t', 'long_long'] if dec else ['int', 'uint32_t', 'int64_t', 'size_t', 'long_long', 'unsigned_long_long'], 1: ['int64_t', 'long_long'] if dec else ['int64_t', 'size_t', 'long_long', 'unsigned_long_long'],
                           2: ['long_long'] if dec else ['long_long', 'unsigned_long_long']}[nl]
        else: seq = {0: ['uint32_t', 'size_t', 'unsigned_long_long'], 1: ['size_t', 'unsigned_long_long'], 2: ['unsigned_long_long']}[nl]
        want = next((t for t in seq if fits[t]), None)
        from props import C17
        import tempfile, os
        with tempfile.NamedTemporaryFile('w', suffix='.chai', delete=False) as f: f.write('print(type_name(%s)); print(to_string(%s));\n' % (lit, lit))
        r = core.run([C17.interpreter(), f.name], timeout=60); os.unlink(f.name)
        out = r.stdout.split()
        ok = len(out) == 2 and out[0] == want and out[1] == str(V)
        return (False if ok else True), 'literal %s -> real interpreter: %s; C++: type %s value %d' % (lit, ' '.join(out) or r.stdout[:80], want, V)
    # a literal must be built by const_var<T> (const: C07 / C08).  Any other way of producing the value (Boxed_Number conversions ...) is kept out of the closure:
    # such callees get no body - their result is arbitrary - and the const_var obligation below then fails with a verdict instead of a time-out
    st = [r'^std::__cxx11::sto(ll|ull)\(', r'chaiscript::const_var', r'chaiscript::Boxed_Number::']
    g0, info0 = core.translate(FAM, [rx], st + core.STRING_MODEL, tag='I1_probe')
    other = ['F_' + core.cname(e.split('|')[0].strip()) for e in info0['ext'] if '12Boxed_Number' in e]
    return Harness('I1.buildInt', FAM, [rx], 'c16_buildint.c', stubs=st, shapes=shapes, allow_nobody=other,
                   opts=['--unwind', '10'], timeout=300, mem_gb=6, string_model=True, inputs=['V', 'text'], replay=replay,
                   note='all 64-bit values V, every valid suffix spelling (case variants), 4 bases')

WORDS = ['true', 'false', 'Infinity', 'NaN', '__LINE__', '__FILE__', '__FUNC__', '__CLASS__', '_']
RESERVED = ['def', 'fun', 'while', 'for', 'if', 'else', '&&', '||', ',', 'auto', 'return', 'break', 'true', 'false', 'class', 'attr', 'var', 'global', 'GLOBAL', '_',
            '__LINE__', '__FILE__', '__FUNC__', '__CLASS__']

def fnv_constants():
    """offset basis, prime and the case labels of Id()'s switch, read out of the IR of the current tree"""
    import re
    ll = core.fread(FAM.build())
    m = re.search(r'^define [^\n]*2IdEb\([^\n]*\{\n(.*?)^\}', ll, re.M | re.S)
    body = m.group(1) if m else ''
    cases = sorted({int(x) & 0xffffffff for x in re.findall(r'^\s+i32 (-?\d+), label', body, re.M)})
    prime = 16777619 if re.search(r'mul i32 [^\n]*, 16777619', body) else None
    basis = 0x811c9dc5 if (re.search(r'-2128831035', body) or re.search(r'2166136261', body)) else None
    return basis, prime, cases

def collisions(words):
    """smtq: z3 finds, per keyword, a different identifier with the same FNV-1a hash (cached per hash constants)"""
    import json, os, subprocess
    basis, prime, cases = fnv_constants()
    if basis is None or prime is None: raise core.BuildError('FNV-1a constants not found in the IR of Id(bool): the hash changed; smtq model does not apply')
    out = os.path.join(core.CACHE, 'smtq', 'fnv.%s.json' % core.sha(str(basis), str(prime), ' '.join(words), core.fread(os.path.join(core.VERIF, 'irbmc', 'smtq_fnv.py'))))
    with core.klock(out):
        if not os.path.exists(out):
            os.makedirs(os.path.dirname(out), exist_ok=True)
            r = core.run(['python3-vt', os.path.join(core.VERIF, 'irbmc', 'smtq_fnv.py'), hex(basis), hex(prime), out + '.tmp'] + words, timeout=1200)
            if r.returncode != 0: raise core.BuildError('smtq_fnv failed: ' + r.stderr[-800:])
            os.replace(out + '.tmp', out)
    return json.load(open(out)), cases

def id_harness(tier):
    rx = P + r'Id\(bool'
    d = {'ID': core.csym(FAM, rx), 'MK_CONST': core.csym(FAM, P + r'make_node<chaiscript::eval::Constant_AST_Node<.*>, chaiscript::Boxed_Value>\('),
         'MK_ID': core.csym(FAM, P + r'make_node<chaiscript::eval::Id_AST_Node<[^,]*> >\('),
         'PUSH_BACK': core.csym(FAM, r'std::vector<std::unique_ptr<chaiscript::eval::AST_Node_Impl<.*::push_back\(std::unique_ptr<.*&&\)'),
         'VALIDATE': core.csym(FAM, P + r'validate_object_name\('), 'SKIPWS': core.csym(FAM, P + r'SkipWS\(bool'), 'EOL': core.csym(FAM, P + r'Eol\(\)')}
    shapes = []
    for n in ([1, 2, 3, 4, 5] if tier == 'quick' else [1, 2, 3, 4, 5, 6, 8, 9]):
        wit = ['witness: ordinary identifier']
        if n >= 2: wit.append('witness: not an identifier')
        if n in (1, 3, 4, 5, 8, 9): wit.append('witness: word literal')
        shapes.append(dict(d, N=n, _tag='N=%d,symbolic' % n, _witness=tuple(wit)))
    col, cases = collisions(WORDS)
    for r in col['results']:
        if r['collision']:
            shapes.append(dict(d, N=len(r['collision']), TEXT='"%s"' % r['collision'], _tag='collides_with=%s:%s' % (r['keyword'], r['collision']), _witness=('witness: ordinary identifier',)))
    return Harness('I5.Id', FAM, [rx], 'c16_id.c', stubs=EE + [P + r'SkipWS\(', P + r'make_node<', r'chaiscript::const_var', P + r'validate_object_name', P + r'Eol\(\)',
                   r'std::vector<std::unique_ptr<chaiscript::eval::AST_Node_Impl<.*::(push_back|emplace_back)', r'chaiscript::Boxed_Value::Boxed_Value<'],
                   shapes=shapes, opts=['--unwind', '12'], timeout=600, mem_gb=8, string_model=True, defines={'STRING_LITERALS_OPAQUE': 1}, inputs=['buf', 'validate', 'line', 'col'],
                   note='every N-byte buffer (symbolic shapes) plus the identifiers z3 found to collide with each word literal under FNV-1a (concrete shapes)')

ANY = ('any', None)
ESC = ('esc', "((c)=='\\\\'||(c)=='x'||(c)=='u'||(c)=='U'||(c)=='0'||(c)=='7'||(c)=='8'||(c)=='F'||(c)=='f'||(c)=='D'||(c)=='d'||(c)=='1'||(c)=='n'||(c)=='q'||(c)=='$'||(c)=='{')")

def harnesses(tier):
    hs = []
    hs.append(buildint_harness())
    hs.append(buildfloat_harness(tier))
    hs.append(escape_step_harness())
    hs.append(id_harness(tier))
    if tier == 'quick': hs.append(escape_harness([1, 2], [ANY]))
    else: hs.append(escape_harness([1, 2, 3], [ANY])); hs.append(escape_harness_named('I4.Char_Parser.long', [4, 5], [ESC]))
    return hs

def escape_harness_named(name, ns, alph):
    h = escape_harness(ns, alph); h.name = name; return h

ASSUMPTIONS = ['std::stoll/std::stoi on the collected digit strings are an exact 12-line model (<= 9 digits), trusted',
               'std::string mutators are the SSO-only model (decoded literal <= 15 bytes)', 'eval_error constructors are cut']
OUTSIDE = ['the numeric value of floating literals (parse_num: digit loops in floating point, declined; only the type selection by suffix is decided: I3)', 'content that ends in a lone backslash (the quote scanners never produce it)', 'interpolation markers ($) in double-quoted strings: handled by Quoted_String, not by Char_Parser']
