"""C01 — parsing is total and safe."""
from irbmc import core
from irbmc.core import Harness
from props.parser_family import FAM, FAM_POS, P, NOINLINE

EE = [r'eval_error::eval_error\(', r'eval_error::~eval_error\(']
# kernel -> (regex tail, KIND, extra defines, stubs)
KERNELS = {
    'Symbol_':  (r'Symbol_\(', 2, {'RESTORES': 1, 'NO_BACKWARD': 1, 'EXACT_LEN': 1, 'NOTHROW': 1}, []),
    'Keyword_': (r'Keyword_\(', 2, {'RESTORES': 1, 'NO_BACKWARD': 1, 'EXACT_LEN': 1, 'NOTHROW': 1}, []),
    'Char_':    (r'Char_\(char', 1, {'RESTORES': 1, 'NO_BACKWARD': 1, 'NOTHROW': 1}, []),
    'Eol_':     (r'Eol_\(bool', 1, {'RESTORES': 1, 'NO_BACKWARD': 1, 'ADVANCES': 1, 'NOTHROW': 1}, []),
    'SkipComment': (r'SkipComment\(', 0, {'RESTORES': 1, 'NO_BACKWARD': 1, 'ADVANCES': 1, 'NOTHROW': 1}, []),
    'SkipWS':   (r'SkipWS\(bool', 1, {'RESTORES': 1, 'NO_BACKWARD': 1, 'ADVANCES': 1}, ['SkipComment']),
    'Float_':   (r'Float_\(', 0, {'NO_BACKWARD': 1, 'ADVANCES': 1, 'NOTHROW': 1}, []),
    'Hex_':     (r'Hex_\(', 0, {'RESTORES_OR_ZERO': 1, 'NO_BACKWARD': 1, 'ADVANCES': 1, 'NOTHROW': 1}, []),
    'Binary_':  (r'Binary_\(', 0, {'RESTORES_OR_ZERO': 1, 'NO_BACKWARD': 1, 'ADVANCES': 1, 'NOTHROW': 1}, []),
    'read_exponent_and_suffix': (r'read_exponent_and_suffix\(', 0, {'NO_BACKWARD': 1, 'NOTHROW': 1}, []),
    'Quoted_String_': (r'Quoted_String_\(', 0, {'RESTORES': 1, 'NO_BACKWARD': 1, 'ADVANCES': 1}, []),
    'Single_Quoted_String_': (r'Single_Quoted_String_\(', 0, {'RESTORES': 1, 'NO_BACKWARD': 1, 'ADVANCES': 1}, []),
    'Id_':      (r'Id_\(', 0, {'RESTORES': 1, 'NO_BACKWARD': 1, 'ADVANCES': 1}, ['SkipWS']),
    'Symbol':   (r'Symbol\(chaiscript::utility::Static_String const&, bool', None, {}, ['SkipWS']),
    'Keyword':  (r'Keyword\(chaiscript::utility::Static_String', 2, {'RESTORES_AFTER_WS': 1}, ['SkipWS']),
    'Char':     (r'Char\(char', 1, {}, ['SkipWS']),
    'Eol':      (r'Eol\(\)', 0, {}, ['SkipWS']),
    'Eos':      (r'Eos\(', 0, {}, ['SkipWS']),
}

def lex_harness(name, n_list):
    tail, kind, defs, stubs = KERNELS[name]
    rx = P + tail
    d = dict(defs); d['FN'] = core.csym(FAM, rx); d['KIND'] = kind; d['STRING_LITERALS_OPAQUE'] = 1
    st = list(EE)
    for s in stubs:
        srx = P + (r'SkipComment\(' if s == 'SkipComment' else r'SkipWS\(bool')
        d['STUB_' + s.upper()] = core.csym(FAM, srx); st.append(srx)
    shapes = [dict(d, N=n, _tag='N=%d' % n) for n in n_list]
    h = Harness('P.' + name, FAM, [rx], 'c01_lex.c', stubs=st, shapes=shapes, opts=['--unwind', str(max(n_list) + 3)], timeout=600, mem_gb=8,
                   inputs=['buf', 'off', 'line', 'col', 'flag', 'lit', 'sl'], required_witness=('witness: ',), string_model=True,
                   note='arbitrary cursor offset/line/col, every byte value, N = buffer length (exact array)')
    h.termination_claim = 'C01: scanning terminates: a loop of the lexer ran more often than the N+3 bound that the input length allows'
    return h

def harnesses(tier):
    ns = [0, 1, 2, 3, 4] if tier == 'quick' else [0, 1, 2, 3, 4, 5, 6]
    hs = []
    for k in ['Symbol_', 'Keyword_', 'Char_', 'Eol_', 'SkipComment', 'SkipWS', 'Float_', 'Hex_', 'Binary_', 'read_exponent_and_suffix',
              'Quoted_String_', 'Single_Quoted_String_', 'Id_']:
        hs.append(lex_harness(k, ns))
    return hs

ASSUMPTIONS = ['clang-14 -O1 lowering of chaiscript_parser.hpp', 'eval_error constructors/destructor are cut (pair)',
               'SkipComment/SkipWS inside their callers are contract stubs (any in-bounds forward move); the contracts are asserted on the real functions by their own harnesses']
OUTSIDE = ['inputs longer than N bytes beyond the cursor (claims are per kernel from an arbitrary cursor, not per whole file)']
