"""C01 — parsing is total and safe."""
import re
from irbmc import core
from irbmc.core import Harness
from props.parser_family import FAM, FAM_POS, P, NOINLINE

EE = [r'eval_error::eval_error\(', r'eval_error::~eval_error\(']
# kernel -> (regex tail, KIND, extra defines, stubs)
KERNELS = {
    'Symbol_':  (r'Symbol_\(', 2, {'RESTORES': 1, 'NO_BACKWARD': 1, 'EXACT_LEN': 1, 'NOTHROW': 1}, []),
    'Keyword_': (r'Keyword_\(', 2, {'RESTORES': 1, 'NO_BACKWARD': 1, 'EXACT_LEN': 1, 'NOTHROW': 1}, []),
    'Char_':    (r'Char_\(char', 1, {'RESTORES': 1, 'NO_BACKWARD': 1, 'NOTHROW': 1}, []),
    'Eol_':     (r'Eol_\(bool', 1, {'RESTORES': 1, 'NO_BACKWARD': 1, 'ADVANCES': 1, 'NOTHROW': 1}, []),
    'SkipComment': (r'SkipComment\(', 0, {'RESTORES': 1, 'NO_BACKWARD': 1, 'ADVANCES': 1, 'NOTHROW': 1}, []),
    'SkipWS':   (r'SkipWS\(bool', 1, {'RESTORES': 1, 'NO_BACKWARD': 1, 'ADVANCES': 1}, ['SkipComment']),
    'Float_':   (r'Float_\(', 0, {'NO_BACKWARD': 1, 'ADVANCES': 1, 'NOTHROW': 1}, []),
    'Hex_':     (r'Hex_\(', 0, {'RESTORES_OR_ZERO': 1, 'NO_BACKWARD': 1, 'ADVANCES': 1, 'NOTHROW': 1}, []),
    'Binary_':  (r'Binary_\(', 0, {'RESTORES_OR_ZERO': 1, 'NO_BACKWARD': 1, 'ADVANCES': 1, 'NOTHROW': 1}, []),
    'read_exponent_and_suffix': (r'read_exponent_and_suffix\(', 0, {'NO_BACKWARD': 1, 'NOTHROW': 1}, []),
    'Quoted_String_': (r'Quoted_String_\(', 0, {'RESTORES': 1, 'NO_BACKWARD': 1, 'ADVANCES': 1}, []),
    'Single_Quoted_String_': (r'Single_Quoted_String_\(', 0, {'RESTORES': 1, 'NO_BACKWARD': 1, 'ADVANCES': 1}, []),
    'Id_':      (r'Id_\(', 0, {'RESTORES': 1, 'NO_BACKWARD': 1, 'ADVANCES': 1}, ['SkipWS']),
    'Symbol':   (r'Symbol\(chaiscript::utility::Static_String const&, bool', None, {}, ['SkipWS']),
    'Keyword':  (r'Keyword\(chaiscript::utility::Static_String', 2, {'RESTORES_AFTER_WS': 1}, ['SkipWS']),
    'Char':     (r'Char\(char', 1, {}, ['SkipWS']),
    'Eol':      (r'Eol\(\)', 0, {}, ['SkipWS']),
    'Eos':      (r'Eos\(', 0, {}, ['SkipWS']),
}

def lex_harness(name, n_list):
    tail, kind, defs, stubs = KERNELS[name]
    rx = P + tail
    d = dict(defs); d['FN'] = core.csym(FAM, rx); d['KIND'] = kind; d['STRING_LITERALS_OPAQUE'] = 1
    st = list(EE)
    for s in stubs:
        srx = P + (r'SkipComment\(' if s == 'SkipComment' else r'SkipWS\(bool')
        d['STUB_' + s.upper()] = core.csym(FAM, srx); st.append(srx)
    shapes = [dict(d, N=n, _tag='N=%d' % n) for n in n_list]
    h = Harness('P.' + name, FAM, [rx], 'c01_lex.c', stubs=st, shapes=shapes, opts=['--unwind', str(max(n_list) + 3)], timeout=600, mem_gb=8,
                   inputs=['buf', 'off', 'line', 'col', 'flag', 'lit', 'sl'], required_witness=('witness: ',), string_model=True,
                   note='arbitrary cursor offset/line/col, every byte value, N = buffer length (exact array)')
    h.termination_claim = 'C01: scanning terminates: a loop of the lexer ran more often than the N+3 bound that the input length allows'
    return h

def parse_internal_harness(tier):
    rx = P + r'parse_internal\('
    VEC = r'std::vector<std::unique_ptr<chaiscript::eval::AST_Node_Impl<.*::(push_back|emplace_back)'
    stubs = [P + r'Statements\(', P + r'Eol\(\)', P + r'build_match<', r'eval_error::eval_error\(', VEC]
    cuts = [r'eval_error::~eval_error', r'std::unique_ptr<chaiscript::eval::AST_Node_Impl<.*::~unique_ptr', r'chaiscript::Boxed_Value::~Boxed_Value', r'chaiscript::Boxed_Value::Boxed_Value<', r'Noop_AST_Node<.*>::Noop_AST_Node\(\)']
    g, info = core.translate(FAM, [rx], stubs, tag='P7_probe', cuts=cuts)
    ext = [e.split('|')[0].strip() for e in info['ext']]
    def one(pat):
        m = [e for e in ext if re.search(pat, e)]
        if len(m) != 1: raise core.BuildError('parse_internal: expected exactly one external matching %s, found %s' % (pat, m))
        return 'F_' + core.cname(m[0])
    d = {'PARSE_INTERNAL': core.csym(FAM, rx), 'STATEMENTS': core.csym(FAM, P + r'Statements\(bool\)$'), 'EOL': core.csym(FAM, P + r'Eol\(\)$'),
         'BUILD_MATCH_FILE': one(r'build_matchINS\w*13File_AST_Node'), 'PUSH_BACK': one(r'^_ZNSt6vectorISt10unique_ptr.*(9push_back|12emplace_back)'), 'EE_CTOR3': one(r'eval_errorC[12]ERKNSt7__cxx1112basic_string.*File_Position')}
    ns = [0, 1, 2, 3] if tier == 'quick' else [0, 1, 2, 3, 4, 5, 6]
    h = Harness('P7.parse_internal', FAM, [rx], 'c01_parse_internal.c', stubs=stubs, cuts=cuts,
                shapes=[dict(d, N=n, _tag='N=%d' % n, _witness=('witness: empty program',) + (('witness: unparsed input reported', 'witness: parsed') if n else ())) for n in ns],
                opts=['--unwind', str(max(ns) + 3)], timeout=300, mem_gb=8, string_model=True, inputs=['input', 'st_ret'],
                note='every input of exactly N bytes; Statements()/Eol() are contract stubs (any in-bounds forward move, any result, or eval_error)')
    h.termination_claim = 'C01: the #! line skip terminates within the input length'
    def replay(inp, shape, failed):
        if 'accounts for the entire input' not in failed['desc']: return None, 'no script-level replay for this assertion'
        from props import C17
        import tempfile, os
        exe = C17.interpreter()
        outs = []
        for script in (') print("dropped")', '] 1', '@'):
            with tempfile.NamedTemporaryFile('w', suffix='.chai', delete=False) as f: f.write(script)
            r = core.run([exe, f.name], timeout=60); os.unlink(f.name)
            outs.append('%r -> exit %d %s' % (script, r.returncode, r.stdout.strip()[:60]))
            if r.returncode == 0: return True, 'the real interpreter accepts a text it cannot parse without any error: ' + '; '.join(outs)
        return False, '; '.join(outs)
    h.replay = replay
    return h

def depth_counter_harness():
    """P8: the real Depth_Counter constructor / destructor from an arbitrary depth"""
    import re
    roots = [P + r'Depth_Counter::Depth_Counter\(', P + r'Depth_Counter::~Depth_Counter\(']
    stubs = [r'eval_error::eval_error\(', r'File_Position::File_Position']
    cuts = [r'eval_error::~eval_error']
    g, info = core.translate(FAM, roots, stubs + core.STRING_MODEL, tag='P8_probe', cuts=cuts)
    ext = [e.split('|')[0].strip() for e in info['ext']]
    def opt(pat, dflt):
        m = [e for e in ext if re.search(pat, e)]
        return ('F_' + core.cname(m[0])) if m else dflt
    d = {'DC_CTOR': core.csym(FAM, roots[0]), 'DC_DTOR': core.csym(FAM, roots[1]), 'EE_CTOR3': opt(r'eval_errorC[12]ERKNSt7__cxx1112basic_string.*File_Position', 'unused_ee_ctor3'), 'FILE_POSITION': opt(r'13File_PositionC[12]Eii', 'unused_file_position'),
         'STRING_LITERALS_OPAQUE': 1}
    h = Harness('P8.Depth_Counter', FAM, roots, 'c01_depth.c', stubs=stubs, cuts=cuts, shapes=[dict(d, _tag='any depth', _witness=('witness: limit exceeded', 'witness: within the limit'))], opts=['--unwind', str(100)], timeout=120, mem_gb=4,
                string_model=True, inputs=['d0'], note='current depth symbolic (any value), every other byte of the parser object symbolic')
    h.need_globals = ['_ZTIN10chaiscript9exception10eval_errorE']
    return h

def obligations(tier):
    """P9 - a structural lemma read off the IR call graph of the current tree (NOT a solver verdict): every cycle of the parser's recursion passes a Depth_Counter"""
    from irbmc.prop import Obligation
    import time
    def fn(tier):
        from irbmc import callgraph
        t0 = time.time()
        r = callgraph.analyse(core.fread(FAM.build()), dict(core.symbols(FAM)))
        wall = time.time() - t0
        detail = 'call graph of %d parser members (%d reachable from parse_internal, %d edges); %d members start with a Depth_Counter: %s' % (r['members'], r['reachable_from_parse_internal'], r['edges'], r['counted'], ', '.join(r['counted_names']))
        if not r['ctor_found'] or not r['roots'] or r['counted'] == 0:
            return [dict(name='P9', harness='P9.recursion_is_depth_counted', shape='IR call graph', verdict='INCONCLUSIVE', why='Depth_Counter constructor / parse_internal not found in the IR (parser restructured)', wall=wall, detail=detail)]
        if r['cycle']:
            names = core.demangle(r['cycle'])
            short = ' -> '.join(n.split('>::')[-1].split('(')[0] for n in names)
            return [dict(name='P9', harness='P9.recursion_is_depth_counted', shape='IR call graph', verdict='CEX', wall=wall, detail=detail, witness_ok=True,
                         failed=[dict(id='P9', desc='C01: every cycle of the parser\'s recursion passes a Depth_Counter as the first thing a member does (structural lemma on the IR call graph): uncounted cycle ' + short, kind='violation')])]
        return [dict(name='P9', harness='P9.recursion_is_depth_counted', shape='IR call graph', verdict='HOLDS', wall=wall, detail=detail + ' - removing them leaves the graph acyclic. STRUCTURAL LEMMA (graph walk over the IR of the current tree), not a solver verdict; with P8 it bounds native recursion by limit x longest uncounted chain per parser object', witness_ok=True)]
    return [Obligation('P9.recursion_is_depth_counted', fn)]

def harnesses(tier):
    ns = [0, 1, 2, 3, 4] if tier == 'quick' else [0, 1, 2, 3, 4, 5, 6]
    hs = []
    for k in ['Symbol_', 'Keyword_', 'Char_', 'Eol_', 'SkipComment', 'SkipWS', 'Float_', 'Hex_', 'Binary_', 'read_exponent_and_suffix',
              'Quoted_String_', 'Single_Quoted_String_', 'Id_']:
        hs.append(lex_harness(k, ns))
    hs.append(parse_internal_harness(tier))
    hs.append(depth_counter_harness())
    return hs

ASSUMPTIONS = ['clang-14 -O1 lowering of chaiscript_parser.hpp', 'eval_error constructors/destructor are cut (pair)',
               'SkipComment/SkipWS inside their callers are contract stubs (any in-bounds forward move); the contracts are asserted on the real functions by their own harnesses']
OUTSIDE = ['inputs longer than N bytes beyond the cursor (claims are per kernel from an arbitrary cursor, not per whole file)', 'the depth counter is per parser object: string interpolation parses the embedded code with a fresh parser (and counter); that a quoted string inside ${} cannot nest a further interpolation is the lexer\'s behaviour (observed, not decided)', 'P9 is a structural lemma over the IR call graph, not a solver verdict; the amount of native stack one level needs']
