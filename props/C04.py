"""C04 — a name resolves to its innermost live binding; lookup caches are invisible."""
from irbmc import core
from irbmc.core import Harness
from props.engine_family import FAM, DE

QFM = r'chaiscript::utility::QuickFlatMap<std::__cxx11::basic_string<char, std::char_traits<char>, std::allocator<char> >, chaiscript::Boxed_Value, chaiscript::str_equal>::'

def qfm_harness(tier):
    d = {'COUNT': core.csym(FAM, '^unsigned long ' + QFM + r'count<std::basic_string_view'), 'FIND': core.csym(FAM, '^auto ' + QFM + r'find<std::basic_string_view<char, std::char_traits<char> > >\(std::basic_string_view<char, std::char_traits<char> > const&\) const$'),
         'FINDH': core.csym(FAM, '^auto ' + QFM + r'find<std::basic_string_view<char, std::char_traits<char> > >\(std::basic_string_view<char, std::char_traits<char> > const&, unsigned long\) const$')}
    shapes = []
    for k in ([0, 1, 2, 3] if tier == 'quick' else [0, 1, 2, 3, 4, 5]):
        for hint in sorted(set([0, 1, k - 1 if k else 0, k, k + 1, 0xFFFFFFFF])):
            shapes.append(dict(d, K=k, HINT=hint, _tag='K=%d,hint=%d' % (k, hint), _witness=('witness: key absent',) + (('witness: key present',) if k else ())))
    return Harness('L2.QuickFlatMap', FAM, ['^unsigned long ' + QFM + r'count<std::basic_string_view', '^auto ' + QFM + r'find<std::basic_string_view'], 'c04_qfm.c', shapes=shapes,
                   opts=['--unwind', '8', '--unwindset', 'F_memcmp.0:3'], timeout=600, mem_gb=8, inputs=['ents', 'q', 'qn'], note='K entries with 1..2-byte symbolic names, arbitrary query')

def harnesses(tier):
    rx = DE + r'get_object\('
    d = {'GET_OBJECT': core.csym(FAM, rx), 'GETFUNOBJ': core.csym(FAM, DE + r'get_function_object_int\('),
         'MAPFIND': core.csym(FAM, r'std::map<std::__cxx11::basic_string<.*chaiscript::Boxed_Value, chaiscript::str_less.*>::find<std::basic_string_view')}
    layouts = [(1, 1, 0, 0), (1, 2, 0, 0), (2, 1, 1, 0), (2, 0, 1, 0), (2, 1, 0, 0), (2, 2, 1, 0), (2, 1, 2, 0), (3, 1, 1, 0), (3, 1, 1, 1)] if tier == 'quick' else \
              [(1, 1, 0, 0), (1, 2, 0, 0), (1, 3, 0, 0), (2, 1, 1, 0), (2, 0, 1, 0), (2, 1, 0, 0), (2, 2, 1, 0), (2, 1, 2, 0), (2, 2, 2, 0), (3, 1, 1, 1), (3, 2, 0, 1), (3, 1, 2, 1), (3, 2, 2, 2)]
    QFM = r'chaiscript::utility::QuickFlatMap<std::__cxx11::basic_string<char, std::char_traits<char>, std::allocator<char> >, chaiscript::Boxed_Value, chaiscript::str_equal>::'
    cnt = core.find_symbols(FAM, '^unsigned long ' + QFM + r'count<std::basic_string_view')
    if len(cnt) == 1: d['COUNT'] = 'F_' + core.cname(cnt[0][0])      # contract stub only if get_object's closure uses count()
    go = d['GET_OBJECT']
    shapes = []
    for ns, e0, e1, e2 in layouts:
        wit = ['witness: no local binding', 'witness: global found'] + (['witness: local binding exists'] if e0 + e1 + e2 else [])
        base = dict(d, NS=ns, E0=e0, E1=e1, E2=e2)
        tag = 'scopes=%d,entries=%d+%d+%d' % (ns, e0, e1, e2)
        shapes.append(dict(base, HK=0, _tag=tag + ',hint=none', _witness=tuple(wit)))
        for low in (0, 5, 0x0FFFFFFF):
            shapes.append(dict(base, HK=1, HLOW=low, _tag=tag + ',hint=nonlocal(%#x)' % low, _witness=tuple(wit)))
        for low in (1, 7):         # a bare function-table slot (the function tail stores the slot without flag bits)
            shapes.append(dict(base, HK=3, HLOW=low, _tag=tag + ',hint=function slot(%d)' % low, _witness=tuple(wit)))
        for hd in list(range(ns)) + [ns, 0xFFF]:
            for hi in (0, 1, 2, 3, 0xFFFF):
                shapes.append(dict(base, HK=2, HD=hd, HI=hi, _tag=tag + ',hint=local(depth=%d,slot=%d)' % (hd, hi), _witness=tuple(wit)))
    hs = [Harness('L1.get_object', FAM, [rx], 'c04_get_object.c', stubs=[DE + r'get_function_object_int\(', r'std::map<.*>::find[<(]', r'QuickFlatMap<.*>::count<'], shapes=shapes,
                    opts=['--unwind', '5', '--unwindset', 'F_memcmp.0:3'], timeout=900, mem_gb=12, inputs=['loc', 'q', 'qn', 'ents'],
                    note='1 frame, NS scopes with the given entry counts, names of 1..2 symbolic bytes, hint: none / any non-local value / every local (depth, slot) incl. out-of-range ones')]
    hs.append(qfm_harness(tier))
    return hs

ASSUMPTIONS = ['the global/function tail of get_object (std::map + function tables) is a contract stub returning a marker', 'pthread rwlock calls are no-ops (single thread)',
               'names within one scope are distinct (QuickFlatMap::insert)']
OUTSIDE = ['equivalence caching-on == caching-off for whole programs is the induction over this step', 'Dynamic_Object attribute lookups', 'names longer than 2 bytes']
