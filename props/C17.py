"""C17 — prelude algorithms compute what their names say (presym: z3 over the prelude TEXT of the current tree)."""
import json, os, re, time
from irbmc import core
from irbmc.prop import Obligation

TECHNIQUE = 'symbolic execution of the prelude source text with z3 (presym): per-path queries against functional specifications; counterexamples replayed on the real interpreter'
PRELUDE = os.path.join(core.REPO, 'include', 'chaiscript', 'language', 'chaiscript_prelude.hpp')

def interpreter():
    """the real interpreter for replays: replay/chai_eval.cpp built against /repo's headers (cached per header hash)"""
    src = os.path.join(core.VERIF, 'replay', 'chai_eval.cpp')
    exe = os.path.join(core.CACHE, 'replay', 'chai_eval.' + core.sha(core.repo_hash(), core.fread(src)))
    with core.klock(exe):
        if not os.path.exists(exe):
            os.makedirs(os.path.dirname(exe), exist_ok=True)
            r = core.run(['g++', '-std=c++20', '-O0', '-w', '-I' + os.path.join(core.REPO, 'include'), src, '-o', exe + '.tmp', '-ldl', '-lpthread'])
            if r.returncode != 0: raise core.BuildError('chai_eval does not build: ' + r.stderr[-1500:])
            os.replace(exe + '.tmp', exe)
    return exe

def chai_value(v):
    """how the real interpreter prints a value with to_string"""
    if isinstance(v, bool): return 'true' if v else 'false'
    if isinstance(v, list): return '[' + ', '.join(chai_value(x) for x in v) + ']'
    if isinstance(v, float): return ('%g' % v) if v != int(v) else str(int(v))
    return str(v)

def run_script(text, tag):
    d = os.path.join(core.VERIF, 'out', 'C17'); os.makedirs(d, exist_ok=True)
    p = os.path.join(d, tag + '.chai'); open(p, 'w').write(text)
    r = core.run([interpreter(), p], timeout=120)
    return p, r.stdout.strip().split('\n')

def obligations(tier):
    K = 3 if tier == 'quick' else 5
    def fn(tier):
        out = os.path.join(core.CACHE, 'work', 'C17', 'presym.%s.json' % tier); os.makedirs(os.path.dirname(out), exist_ok=True)
        t0 = time.time()
        r = core.run(['python3-vt', os.path.join(core.VERIF, 'irbmc', 'presym.py'), PRELUDE, out, str(K)], timeout=3000)
        if r.returncode != 0: return [dict(harness='presym', verdict='INCONCLUSIVE', why='presym failed: ' + (r.stderr or r.stdout)[-800:], wall=time.time() - t0)]
        d = json.load(open(out)); res = []
        for x in d['results']:
            rr = dict(harness='P.' + x['function'], shape=x['case'], verdict={'UNIT-MISSING': 'INCONCLUSIVE'}.get(x['verdict'], x['verdict']), wall=x.get('wall', 0), steps=x.get('paths', 0), vars=x.get('queries', 0),
                      witness_ok=x['verdict'] in ('HOLDS', 'CEX') and x.get('paths', 0) >= 1, why=x.get('why') or ('function not found in the prelude text' if x['verdict'] == 'UNIT-MISSING' else None))
            if x['verdict'] == 'CEX':
                c = x['cex']; desc = 'C17: %s: %s (solver model %s: got %s, specification %s)' % (x['function'], x['case'].split(',')[0], c.get('model'), c.get('concrete_got', c.get('got')), c.get('concrete_expected', c.get('expected')))
                rr['failed'] = [dict(id=x['function'], desc=desc, kind='violation')]
                # replay on the real interpreter when the call has no uninterpreted callback
                args = c.get('concrete_args')
                if c.get('range_view'):
                    # the caller's range view was advanced: replay with a concrete view of the same length on the real interpreter
                    L = x.get('L') if x.get('L') is not None else int(re.search(r'length (\d+)', x['case']).group(1))
                    calls = {'for_each': 'for_each(r, fun(e) { })', 'sum': 'sum(r)', 'contains': 'contains(r, 0)', 'foldl': 'foldl(r, fun(a, b) { a + b }, 0)', 'any_of': 'any_of(r, fun(e) { false })'}
                    if L >= 1 and x['function'] in calls:
                        scr = 'var v = [%s]\nvar r = range(v)\n%s\nprint(to_string(r.empty()))\n' % (', '.join(str(i + 1) for i in range(L)), calls[x['function']])
                        p, lines = run_script(scr, 'cex_view_' + re.sub(r'\W', '_', x['function']))
                        rr['replay'] = dict(script=p, real_output=lines[:3], specification='false (the view still has its %d elements)' % L)
                        if lines and lines[0] == 'false': rr['verdict'] = 'UNCONFIRMED'; rr['why'] = 'real interpreter leaves the view unchanged: presym semantics wrong for %s' % calls[x['function']]
                        else: rr['cex'] = p
                elif args is not None and all(a is not None for a in args):
                    call = '%s(%s)' % (x['function'].split('::')[-1], ', '.join(chai_value(a) if not isinstance(a, list) else chai_value(a) for a in args))
                    p, lines = run_script('print(to_string(%s))\n' % call, 'cex_' + re.sub(r'\W', '_', x['function']))
                    want = chai_value(c.get('concrete_expected'))
                    rr['replay'] = dict(script=p, real_output=lines[:3], specification=want)
                    if lines and lines[0] == want: rr['verdict'] = 'UNCONFIRMED'; rr['why'] = 'real interpreter agrees with the specification on the solver model: presym semantics wrong for %s' % call
                    else: rr['cex'] = p
            res.append(rr)
        # differential self-test of presym's semantics against the real interpreter on fixed inputs
        script = ''.join('print(to_string(%s))\n' % c['expr'] for c in d['concrete'])
        p, lines = run_script(script, 'selftest')
        mism = [(c['expr'], chai_value(c['value']), lines[i] if i < len(lines) else None) for i, c in enumerate(d['concrete']) if i >= len(lines) or lines[i] != chai_value(c['value'])]
        res.append(dict(harness='presym.selftest', shape='%d fixed calls evaluated by presym (concrete mode) and by the real interpreter' % len(d['concrete']), verdict='HOLDS' if not mism else 'INCONCLUSIVE',
                        why=('presym and the real interpreter disagree: %s' % mism[:3]) if mism else None, wall=0, witness_ok=not mism))
        return res
    return [Obligation('presym', fn)]

ASSUMPTIONS = ['the semantics of the ChaiScript subset the prelude uses, as implemented in irbmc/presym.py (while/if/return, := vs =, method sugar, int % as C++ remainder, ranges as index pairs - C12/C03 are where the real interpreter is held to this)',
               'builtins range/new/clone/back_inserter/eq/push_back are modelled directly, not interpreted from the prelude', 'integers are mathematical (wrap-around is C05\'s business); vectors of length 0..K (quick K=3, thorough K=5)']
OUTSIDE = ['to_string of containers/pairs, join (runtime type dispatch)', 'retro views, find returning ranges, maps', 'callbacks with side effects other than being called']
