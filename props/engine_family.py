"""The engine/evaluator instantiation (inst/engine.cpp) shared by C04, C09, C10, C13, C15 ...: boundaries pinned noinline."""
from irbmc.core import Family, STRING_MODEL
DE = r'chaiscript::detail::Dispatch_Engine::'
NOINLINE = [DE + r'get_function_object_int\(', DE + r'get_object\(', DE + r'get_function\(', DE + r'get_boxed_functions_int', DE + r'get_function_objects_int', DE + r'get_functions_int',
            r'std::map<.*>::(find|insert|insert_or_assign|erase|operator\[\]|count|emplace|clear|at)[<(]', r'std::_Rb_tree<.*>::_M_(find_tr|lower_bound_tr|insert_|emplace|erase|get_insert)',
            r'std::set<.*>::(find|insert|count|erase)[<(]',
            r'chaiscript::utility::QuickFlatMap<.*>::(find|count|insert|insert_or_assign|operator\[\]|at|grow)[<(]',
            r'^std::vector<std::pair<std::__cxx11::basic_string<.*>::(vector|operator=)\(std::vector<.* const&\)', r'^std::map<.*>::(map|operator=)\(std::map<.* const&\)', r'^std::_Rb_tree<.*>::(_Rb_tree|operator=)\(std::_Rb_tree<.* const&\)',
            r'AST_Node_Impl<.*>::eval\(', r'chaiscript::AST_Node::get_bool_condition', r'AST_Node_Impl<.*>::get_scoped_bool_condition', r'chaiscript::void_var', r'chaiscript::const_var', DE + r'(new_scope|pop_scope|new_stack|pop_stack|new_function_call|pop_function_call|save_function_params|add_object|add_get_object|call_function|call_member|get_stack_data|function_exists|get_function_object)\(',
            r'chaiscript::detail::Dispatch_State::\w+\(', r'chaiscript::dispatch::Param_Types::', r'Arg_List_AST_Node<.*>::get_arg_', r'chaiscript::Boxed_Value::Boxed_Value<', r'chaiscript::Boxed_Value::Object_Data::get', r'chaiscript::Boxed_Value::~Boxed_Value',
            r'chaiscript::dispatch::dispatch\(', r'chaiscript::Boxed_Number::', r'chaiscript::boxed_cast<', r'chaiscript::detail::Stack_Holder::', r'chaiscript::Boxed_Value::(assign|type_match|get_attr|copy_attrs|clone_attrs|reset_return_value)\(', r'clone_if_necessary', r'Function_Push_Pop::', r'Scope_Push_Pop::', r'Stack_Push_Pop::',
            r'eval_error::eval_error\(', r'eval_error::~eval_error\(', r'name_conflict_error::name_conflict_error', r'global_non_const::global_non_const',
            r'File_Position::File_Position'] + STRING_MODEL
FAM = Family('engine', 'engine.cpp', noinline=NOINLINE)
# the same TU with std::vector<Boxed_Value> growth pinned as well: call nodes that collect their arguments in a vector (Fun_Call with arguments, Dot_Access)
# are decided with push_back / reserve / make_vector as recorder stubs over harness storage (the real growth code in a byte-addressed temporary: out of memory)
VBV = r'^std::vector<chaiscript::Boxed_Value, std::allocator<chaiscript::Boxed_Value> >::'
FAM_CALLS = Family('engine_calls', 'engine.cpp', noinline=NOINLINE + [VBV + r'(push_back|emplace_back<|reserve|_M_realloc_insert<|vector|~vector)\(', r'^auto chaiscript::make_vector<', r'chaiscript::make_vector<'])
