"""C03 — core language semantics match the documented (C++-like) model (per-construct obligations)."""
from irbmc import core
from irbmc.core import Harness
from props import C05, C09, C07, C08

def to_operator_harness():
    FAM = C05.FAM
    rx = r'^inst_to_operator'
    shapes = [dict(N=n, TO_OPERATOR='F_inst_to_operator', _tag='N=%d' % n, _witness=('witness: operator', 'witness: not an operator') if n <= 3 else ('witness: not an operator',)) for n in (1, 2, 3, 4)]
    return Harness('S1.to_operator', FAM, [rx], 'c03_to_operator.c', shapes=shapes, opts=['--unwind', '8'], timeout=300, mem_gb=6, inputs=['t', 'unary'],
                   note='every text of N bytes over the 16 operator characters, unary or not (FNV-1a dispatch executed symbolically)')

def precedence_harness():
    from props.parser_family import FAM as PF, P
    rx = r'^chaiscript::parser::' + P + r'Operator_Matches::is_match\(unsigned long, std::basic_string_view<char, std::char_traits<char> >\) const$'
    PRE = '_ZN10chaiscript6parser17ChaiScript_ParserINS_4eval6TracerIJNS2_18Noop_Tracer_DetailEEEENS_9optimizer9OptimizerIJNS6_12Partial_FoldENS6_13Unused_ReturnENS6_13Constant_FoldENS6_2IfENS6_6ReturnENS6_9Dead_CodeENS6_5BlockENS6_8For_LoopENS6_11Assign_DeclEEEELm512EE'
    gm, go = PRE + '18m_operator_matchesE', PRE + '11m_operatorsE'
    d = {'IS_MATCH': core.csym(PF, rx), 'MATCHES': '((char*)&g_%s)' % gm, 'OPERATORS': '((char*)&g_%s)' % go}
    h = Harness('S3.precedence_table', PF, [rx], 'c03_precedence.c', shapes=[dict(d, NLEN=n, _tag='text length=%d' % n, _witness=('witness: not an operator',) + (('witness: operator',) if n <= 2 else ())) for n in (1, 2, 3)],
                opts=['--unwind', '3', '--unwindset', 'F_memcmp.0:4,F_bcmp.0:4,eq.0:4,eq.1:4,main.0:4,main.1:13'], timeout=300, mem_gb=6, inputs=['s', 'g'], note='level 0..13 and text over the 16 operator characters symbolic; the table object is the real constant emitted from the IR')
    h.need_globals = [gm, go]
    return h

def harnesses(tier):
    hs = [to_operator_harness(), precedence_harness()]
    for k in C09.KINDS:
        h = C09.node_harness(k); h.name = 'S4.' + h.name[2:]; hs.append(h)
    e = C07.equation_harness(); e.name = 'S4.Equation'; hs.append(e)
    for h in C08.harnesses(tier):
        if h.name.startswith('R2'): h.name = 'S4.Inline_Array'; hs.append(h)
    return hs

ASSUMPTIONS = ['per-construct reference semantics are written in the harnesses (C); children are abstract', 'the whole-program statement is the induction over these steps (argued, not solved)']
OUTSIDE = ['the Operator(level) recursion that climbs the precedence table and its associativity (the table itself: S3), operator tokenisation (S2)', 'Ranged_For, Fun_Call, Lambda, Def/eval_function, classes/attributes, containers as values (C12)']
