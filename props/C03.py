"""C03 — core language semantics match the documented (C++-like) model (per-construct obligations)."""
from irbmc import core
from irbmc.core import Harness
from props import C05, C09, C07, C08

def to_operator_harness():
    FAM = C05.FAM
    rx = r'^inst_to_operator'
    shapes = [dict(N=n, TO_OPERATOR='F_inst_to_operator', _tag='N=%d' % n, _witness=('witness: operator', 'witness: not an operator') if n <= 3 else ('witness: not an operator',)) for n in (1, 2, 3, 4)]
    return Harness('S1.to_operator', FAM, [rx], 'c03_to_operator.c', shapes=shapes, opts=['--unwind', '8'], timeout=300, mem_gb=6, inputs=['t', 'unary'],
                   note='every text of N bytes over the 16 operator characters, unary or not (FNV-1a dispatch executed symbolically)')

def precedence_harness():
    from props.parser_family import FAM as PF, P
    rx = r'^chaiscript::parser::' + P + r'Operator_Matches::is_match\(unsigned long, std::basic_string_view<char, std::char_traits<char> >\) const$'
    PRE = '_ZN10chaiscript6parser17ChaiScript_ParserINS_4eval6TracerIJNS2_18Noop_Tracer_DetailEEEENS_9optimizer9OptimizerIJNS6_12Partial_FoldENS6_13Unused_ReturnENS6_13Constant_FoldENS6_2IfENS6_6ReturnENS6_9Dead_CodeENS6_5BlockENS6_8For_LoopENS6_11Assign_DeclEEEELm512EE'
    gm, go = PRE + '18m_operator_matchesE', PRE + '11m_operatorsE'
    d = {'IS_MATCH': core.csym(PF, rx), 'MATCHES': '((char*)&g_%s)' % gm, 'OPERATORS': '((char*)&g_%s)' % go}
    h = Harness('S3.precedence_table', PF, [rx], 'c03_precedence.c', shapes=[dict(d, NLEN=n, _tag='text length=%d' % n, _witness=('witness: not an operator',) + (('witness: operator',) if n <= 2 else ())) for n in (1, 2, 3)],
                opts=['--unwind', '3', '--unwindset', 'F_memcmp.0:4,F_bcmp.0:4,eq.0:4,eq.1:4,main.0:4,main.1:13'], timeout=300, mem_gb=6, inputs=['s', 'g'], note='level 0..13 and text over the 16 operator characters symbolic; the table object is the real constant emitted from the IR')
    h.need_globals = [gm, go]
    return h

def operator_node_harness(kind):
    from props.engine_family import FAM as ENG, DE
    nm, cls = {1: ('Binary', 'Binary_Operator_AST_Node'), 2: ('Fold_Right', 'Fold_Right_Binary_Operator_AST_Node'), 3: ('Prefix', 'Prefix_AST_Node')}[kind]
    rx = r'chaiscript::eval::' + cls + r'<.*>::eval_internal\(chaiscript::detail::Dispatch_State const&\) const$'
    stubs = [r'AST_Node_Impl<.*>::eval\(', r'chaiscript::Boxed_Number::do_oper', DE + r'call_function\(', r'Function_Push_Pop::', r'chaiscript::detail::Dispatch_State::conversions']
    cuts = [r'eval_error::', r'Boxed_Value::~Boxed_Value', r'dispatch_error::', r'std::operator\+<char', r'basic_string<char, std::char_traits<char>, std::allocator<char> >::(basic_string|~basic_string)']
    TIS = {'TI_ARITH_ERROR': '_ZTIN10chaiscript9exception16arithmetic_errorE', 'TI_DISPATCH_ERROR': '_ZTIN10chaiscript9exception14dispatch_errorE'}
    d = {'KIND': kind, 'NODE_EVAL': core.csym(ENG, rx), 'NODE_EVAL_CHILD': core.csym(ENG, r'AST_Node_Impl<.*>::eval\(chaiscript::detail::Dispatch_State const&\) const$'),
         'DO_OPER2': core.csym(ENG, r'^chaiscript::Boxed_Number::do_oper\(chaiscript::Operators::Opers, chaiscript::Boxed_Value const&, chaiscript::Boxed_Value const&\)$'),
         'DO_OPER1': core.csym(ENG, r'^chaiscript::Boxed_Number::do_oper\(chaiscript::Operators::Opers, chaiscript::Boxed_Value const&\)$'),
         'CALL_FUNCTION': core.csym(ENG, DE + r'call_function\(std::basic_string_view'), 'FPP_CTOR': core.csym(ENG, r'Function_Push_Pop::Function_Push_Pop\(chaiscript::detail::Dispatch_State const&\)$'),
         'FPP_DTOR': core.csym(ENG, r'Function_Push_Pop::~Function_Push_Pop\(\)$'), 'FPP_SAVE': core.csym(ENG, r'Function_Push_Pop::save_params\(chaiscript::Function_Params const&\)$'),
         'CONVERSIONS': core.csym(ENG, r'^chaiscript::detail::Dispatch_State::conversions\(\) const$'), 'VERIF_CALL_V1(f,a)': '__VERIF_v1_hook(f,a)'}
    for k, v in TIS.items(): d[k] = '((char*)&g_%s)' % v
    wit = ('witness: operand throws', 'witness: numeric', 'witness: arithmetic_error', 'witness: numeric failure', 'witness: dispatched', 'witness: dispatch failure', 'witness: callee exception') + (('witness: const refused',) if kind == 3 else ())
    h = Harness('S5.' + nm, ENG, [rx], 'c03_operator_nodes.c', stubs=stubs, cuts=cuts, shapes=[dict(d, _tag='all', _witness=wit)], opts=['--unwind', '6', '--unwindset', 'main.0:6'], timeout=600, mem_gb=8,
                inputs=['behav', 'arith', 'cst', 'oper', 'do_beh', 'call_beh'], note='operator code of the node, operand flags (arithmetic, const) and outcomes of operands / number operator / dispatched function: symbolic')
    h.need_globals = ['_ZTIN10chaiscript9exception10eval_errorE', '_ZTIN10chaiscript11Boxed_ValueE'] + list(TIS.values())
    return h

def harnesses(tier):
    hs = [to_operator_harness(), precedence_harness()] + [operator_node_harness(k) for k in (1, 2, 3)]
    for k in C09.KINDS:
        h = C09.node_harness(k); h.name = 'S4.' + h.name[2:]; hs.append(h)
    e = C07.equation_harness(); e.name = 'S4.Equation'; hs.append(e)
    for h in C08.harnesses(tier):
        if h.name.startswith('R2'): h.name = 'S4.Inline_Array'; hs.append(h)
    return hs

ASSUMPTIONS = ['per-construct reference semantics are written in the harnesses (C); children are abstract', 'the whole-program statement is the induction over these steps (argued, not solved)']
OUTSIDE = ['the Operator(level) recursion that climbs the precedence table and its associativity (the table itself: S3), operator tokenisation (S2)', 'Ranged_For, Fun_Call, Lambda, Def/eval_function, classes/attributes, containers as values (C12)']
