"""C03 — core language semantics match the documented (C++-like) model (per-construct obligations)."""
from irbmc import core
from irbmc.core import Harness
from props import C05, C09, C07, C08

def to_operator_harness():
    FAM = C05.FAM
    rx = r'^inst_to_operator'
    shapes = [dict(N=n, TO_OPERATOR='F_inst_to_operator', _tag='N=%d' % n, _witness=('witness: operator', 'witness: not an operator') if n <= 3 else ('witness: not an operator',)) for n in (1, 2, 3, 4)]
    return Harness('S1.to_operator', FAM, [rx], 'c03_to_operator.c', shapes=shapes, opts=['--unwind', '8'], timeout=300, mem_gb=6, inputs=['t', 'unary'],
                   note='every text of N bytes over the 16 operator characters, unary or not (FNV-1a dispatch executed symbolically)')

def precedence_harness():
    from props.parser_family import FAM as PF, P
    rx = r'^chaiscript::parser::' + P + r'Operator_Matches::is_match\(unsigned long, std::basic_string_view<char, std::char_traits<char> >\) const$'
    PRE = '_ZN10chaiscript6parser17ChaiScript_ParserINS_4eval6TracerIJNS2_18Noop_Tracer_DetailEEEENS_9optimizer9OptimizerIJNS6_12Partial_FoldENS6_13Unused_ReturnENS6_13Constant_FoldENS6_2IfENS6_6ReturnENS6_9Dead_CodeENS6_5BlockENS6_8For_LoopENS6_11Assign_DeclEEEELm512EE'
    gm, go = PRE + '18m_operator_matchesE', PRE + '11m_operatorsE'
    d = {'IS_MATCH': core.csym(PF, rx), 'MATCHES': '((char*)&g_%s)' % gm, 'OPERATORS': '((char*)&g_%s)' % go}
    h = Harness('S3.precedence_table', PF, [rx], 'c03_precedence.c', shapes=[dict(d, NLEN=n, _tag='text length=%d' % n, _witness=('witness: not an operator',) + (('witness: operator',) if n <= 2 else ())) for n in (1, 2, 3)],
                opts=['--unwind', '3', '--unwindset', 'F_memcmp.0:4,F_bcmp.0:4,eq.0:4,eq.1:4,main.0:4,main.1:13'], timeout=300, mem_gb=6, inputs=['s', 'g'], note='level 0..13 and text over the 16 operator characters symbolic; the table object is the real constant emitted from the IR')
    h.need_globals = [gm, go]
    return h

def operator_helper_harness():
    from props.parser_family import FAM as PF, P
    rx = P + r'Operator_Helper\(unsigned long, std::__cxx11::basic_string<char, std::char_traits<char>, std::allocator<char> >&\)$'
    stubs = [P + r'Symbol\('] + core.STRING_MODEL
    PRE = core.csym(PF, P + r'Operator\(unsigned long\)$')  # only to force the family to be built
    d = {'HELPER': core.csym(PF, rx), 'SYMBOL': core.csym(PF, P + r'Symbol\(chaiscript::utility::Static_String const&, bool\)$')}
    return Harness('S3c.Operator_Helper(spellings tried per level)', PF, [rx], 'c03_operator_helper.c', stubs=stubs,
                   shapes=[dict(d, LEVEL=l, _tag='level=%d' % l, _witness=('witness: no operator of this level',) + (('witness: matched',) if l < 12 else ())) for l in range(13)],
                   opts=['--unwind', '8'], timeout=300, mem_gb=6, string_model=True, inputs=['hit_at'], note='Symbol() is an oracle (which of the offered spellings matches, if any); the table rows and the switch of any_of are real')

def equation_harness():
    import re
    from props.parser_family import FAM as PF, P
    rx = P + r'Equation\(\)$'
    stubs = [P + r'Operator\(unsigned long\)$', P + r'Symbol\(', P + r'SkipWS\(', P + r'build_match<', r'eval_error::eval_error\(', P + r'Depth_Counter::'] + core.STRING_MODEL
    cuts = [r'eval_error::~eval_error']
    g, info = core.translate(PF, [rx], stubs, tag='S3d_probe', cuts=cuts)
    ext = [e.split('|')[0].strip() for e in info['ext']]
    def one(pat):
        m = [e for e in ext if re.search(pat, e)]
        if len(m) != 1: raise core.BuildError('Equation(): expected exactly one external matching %s, found %d' % (pat, len(m)))
        return 'F_' + core.cname(m[0])
    d = {'EQUATION': core.csym(PF, rx), 'OPERAND': one(r'EE8OperatorEm$'), 'SYMBOL': one(r'EE6SymbolE'), 'SKIPWS': one(r'EE6SkipWSEb$'), 'BUILD_EQUATION': one(r'11build_matchINS\w*?Equation_AST_Node'),
         'DC_CTOR': one(r'13Depth_CounterC[12]E'), 'DC_DTOR': one(r'13Depth_CounterD[12]E'), 'EE_CTOR3': one(r'eval_errorC[12]ERKNSt7__cxx1112basic_string.*File_Position'),
         'STRING_LITERALS_OPAQUE': 1, 'VERIF_SELF_CALL(f)': 'equation_rec', 'VERIF_SELF_CALL_PROTO': 'uint8_t equation_rec(char*);'}
    return Harness('S3d.Equation(assignment operators, right associativity)', PF, [rx], 'c03_equation.c', stubs=stubs, cuts=cuts,
                   shapes=[dict(d, _tag='-', _witness=('witness: no operand', 'witness: incomplete assignment', 'witness: one assignment', 'witness: plain operand'))],
                   opts=['--unwind', '14', '--unwindset', 'main.0:5,spelling_of.0:14,spelling_of.1:14,spelling_of.2:14,BUILD_EQUATION.0:6'], timeout=600, mem_gb=8, string_model=True, inputs=['value_ok', 'assign_after'],
                   note='token-stream model by position; Operator() (left side) and the recursive Equation() (right side) are induction hypotheses')

def operator_recursion_harness(tier):
    import os, re
    from props.parser_family import FAM as PF, P
    rx = P + r'Operator\(unsigned long\)$'
    stubs = [P + r'Operator_Helper\(', P + r'Value\(\)', P + r'Eol\(\)', P + r'Symbol\(', P + r'build_match<', r'eval_error::eval_error\(', P + r'Depth_Counter::'] + core.STRING_MODEL
    cuts = [r'eval_error::~eval_error']
    g, info = core.translate(PF, [rx], stubs, tag='S3b_probe', cuts=cuts)
    ext = [e.split('|')[0].strip() for e in info['ext']]
    def one(pat):
        m = [e for e in ext if re.search(pat, e)]
        if len(m) != 1: raise core.BuildError('Operator(): expected exactly one external matching %s, found %d' % (pat, len(m)))
        return 'F_' + core.cname(m[0])
    lines = ['/* generated by props/C03.py: one recorder per node kind Operator() builds */']
    for e in ext:
        m = re.search(r'11build_matchINS\w*?_(\d+)(Binary_Operator|Logical_And|Logical_Or|If)_AST_NodeI', e)
        if m: lines.append('void F_%s(char* self, uint64_t top, char* text) { record(self, %s, top, %s); }' % (core.cname(e), {'Binary_Operator': 'BK_BINARY', 'Logical_And': 'BK_AND', 'Logical_Or': 'BK_OR', 'If': 'BK_IF'}[m.group(2)], '0' if m.group(2) == 'If' else 'text'))
    def pre(workdir):
        os.makedirs(workdir, exist_ok=True); open(os.path.join(workdir, 'c03_oprec_stubs.h'), 'w').write('\n'.join(lines) + '\n')
    d = {'OPERATOR': core.csym(PF, rx), 'HELPER': one(r'15Operator_HelperE'), 'VALUE': one(r'EE5ValueEv$'), 'EOL': one(r'EE3EolEv$'), 'SYMBOL': one(r'EE6SymbolE'), 'DC_CTOR': one(r'13Depth_CounterC[12]E'), 'DC_DTOR': one(r'13Depth_CounterD[12]E'),
         'EE_CTOR3': one(r'eval_errorC[12]ERKNSt7__cxx1112basic_string.*File_Position'), 'STUBS_H': '"c03_oprec_stubs.h"', 'STRING_LITERALS_OPAQUE': 1, 'VERIF_SELF_CALL(f)': 'operator_rec', 'VERIF_SELF_CALL_PROTO': 'uint8_t operator_rec(char*, uint64_t);'}
    levels = (0, 1, 2, 6, 10, 11) if tier == 'quick' else tuple(range(12))
    h = Harness('S3b.Operator(associativity)', PF, [rx], 'c03_operator_rec.c', stubs=stubs, cuts=cuts,
                shapes=[dict(d, LEVEL=l, _tag='level=%d' % l, _witness=('witness: no operand', 'witness: plain operand') + (() if l == 11 else ('witness: incomplete expression', 'witness: one operator') + (('witness: conditional in the else branch', 'witness: conditional in the then branch') if l == 0 else ('witness: chain of two',)))) for l in levels],
                opts=['--unwind', '14', '--unwindset', 'main.0:7,ref_binary.0:3'], timeout=600, mem_gb=8, string_model=True, inputs=['value_ok', 'op_after', 'colon_after', 'op_text'],
                note='one level of the recursion at a time (self-call hook): the call for the next tighter level is the induction hypothesis, any other level is a violation; up to two operators in a row; operands and the ternary colon are oracles')
    h.pre = pre
    return h

def operator_node_harness(kind):
    from props.engine_family import FAM as ENG, DE
    nm, cls = {1: ('Binary', 'Binary_Operator_AST_Node'), 2: ('Fold_Right', 'Fold_Right_Binary_Operator_AST_Node'), 3: ('Prefix', 'Prefix_AST_Node')}[kind]
    rx = r'chaiscript::eval::' + cls + r'<.*>::eval_internal\(chaiscript::detail::Dispatch_State const&\) const$'
    stubs = [r'AST_Node_Impl<.*>::eval\(', r'chaiscript::Boxed_Number::do_oper', DE + r'call_function\(', r'Function_Push_Pop::', r'chaiscript::detail::Dispatch_State::conversions']
    cuts = [r'eval_error::', r'Boxed_Value::~Boxed_Value', r'dispatch_error::', r'std::operator\+<char', r'basic_string<char, std::char_traits<char>, std::allocator<char> >::(basic_string|~basic_string)']
    TIS = {'TI_ARITH_ERROR': '_ZTIN10chaiscript9exception16arithmetic_errorE', 'TI_DISPATCH_ERROR': '_ZTIN10chaiscript9exception14dispatch_errorE'}
    d = {'KIND': kind, 'NODE_EVAL': core.csym(ENG, rx), 'NODE_EVAL_CHILD': core.csym(ENG, r'AST_Node_Impl<.*>::eval\(chaiscript::detail::Dispatch_State const&\) const$'),
         'DO_OPER2': core.csym(ENG, r'^chaiscript::Boxed_Number::do_oper\(chaiscript::Operators::Opers, chaiscript::Boxed_Value const&, chaiscript::Boxed_Value const&\)$'),
         'DO_OPER1': core.csym(ENG, r'^chaiscript::Boxed_Number::do_oper\(chaiscript::Operators::Opers, chaiscript::Boxed_Value const&\)$'),
         'CALL_FUNCTION': core.csym(ENG, DE + r'call_function\(std::basic_string_view'), 'FPP_CTOR': core.csym(ENG, r'Function_Push_Pop::Function_Push_Pop\(chaiscript::detail::Dispatch_State const&\)$'),
         'FPP_DTOR': core.csym(ENG, r'Function_Push_Pop::~Function_Push_Pop\(\)$'), 'FPP_SAVE': core.csym(ENG, r'Function_Push_Pop::save_params\(chaiscript::Function_Params const&\)$'),
         'CONVERSIONS': core.csym(ENG, r'^chaiscript::detail::Dispatch_State::conversions\(\) const$'), 'VERIF_CALL_V1(f,a)': '__VERIF_v1_hook(f,a)'}
    for k, v in TIS.items(): d[k] = '((char*)&g_%s)' % v
    wit = ('witness: operand throws', 'witness: numeric', 'witness: arithmetic_error', 'witness: numeric failure', 'witness: dispatched', 'witness: dispatch failure', 'witness: callee exception') + (('witness: const refused',) if kind == 3 else ())
    h = Harness('S5.' + nm, ENG, [rx], 'c03_operator_nodes.c', stubs=stubs, cuts=cuts, shapes=[dict(d, _tag='all', _witness=wit)], opts=['--unwind', '6', '--unwindset', 'main.0:6'], timeout=600, mem_gb=8,
                inputs=['behav', 'arith', 'cst', 'oper', 'do_beh', 'call_beh'], note='operator code of the node, operand flags (arithmetic, const) and outcomes of operands / number operator / dispatched function: symbolic')
    h.need_globals = ['_ZTIN10chaiscript9exception10eval_errorE', '_ZTIN10chaiscript11Boxed_ValueE'] + list(TIS.values())
    return h

def harnesses(tier):
    hs = [to_operator_harness(), precedence_harness(), operator_helper_harness(), operator_recursion_harness(tier), equation_harness()] + [operator_node_harness(k) for k in (1, 2, 3)]
    for k in C09.KINDS:
        h = C09.node_harness(k); h.name = 'S4.' + h.name[2:]; hs.append(h)
    rf = C09.ranged_for_harness(); rf.name = 'S4.Ranged_For'; hs.append(rf)
    e = C07.equation_harness(); e.name = 'S4.Equation'; hs.append(e)
    ef = C09.eval_function_harness(tier, subset=True); ef.name = 'S4.eval_function'; hs.append(ef)
    from props import C10
    for h, nm in ((C10.funcall_harness(True, True), 'S4.Fun_Call with arguments'), (C10.array_call_harness(), 'S4.Array_Call'), (C10.dot_access_harness(tier), 'S4.Dot_Access')):
        h.name = nm; hs.append(h)
    from props import C02
    ob = C02.pass_harness('Block', tier); ob.name = 'S6.Block keeps its scope when a declaration can land in it'; hs.append(ob)       # block scoping survives the optimizer (var, auto, reference declarations)
    for k in C09.CARRIERS:
        c = C09.carrier_harness(k); c.name = 'S4.' + c.name[2:]; hs.append(c)
    for h in C08.harnesses(tier):
        if h.name.startswith('R2'): h.name = 'S4.Inline_Array'; hs.append(h)
    return hs

ASSUMPTIONS = ['per-construct reference semantics are written in the harnesses (C); children are abstract', 'the whole-program statement is the induction over these steps (argued, not solved)']
OUTSIDE = ['how levels nest when operators of DIFFERENT levels are mixed (argued from S3 + S3b: each level parses its operands at the next tighter level), right-associativity of assignment (Equation()), operator tokenisation', 'Lambda / Def / Method / Class / Attr_Decl node bodies (they build std::function-backed proxy functions; the frame those functions run in IS decided: S4.eval_function), guard ordering (function_less_than), containers as values (C12)']
