"""C03 — core language semantics match the documented (C++-like) model (per-construct obligations)."""
from irbmc import core
from irbmc.core import Harness
from props import C05, C09, C07, C08

def to_operator_harness():
    FAM = C05.FAM
    rx = r'^inst_to_operator'
    shapes = [dict(N=n, TO_OPERATOR='F_inst_to_operator', _tag='N=%d' % n, _witness=('witness: operator', 'witness: not an operator') if n <= 3 else ('witness: not an operator',)) for n in (1, 2, 3, 4)]
    return Harness('S1.to_operator', FAM, [rx], 'c03_to_operator.c', shapes=shapes, opts=['--unwind', '8'], timeout=300, mem_gb=6, inputs=['t', 'unary'],
                   note='every text of N bytes over the 16 operator characters, unary or not (FNV-1a dispatch executed symbolically)')

def harnesses(tier):
    hs = [to_operator_harness()]
    for k in C09.KINDS:
        h = C09.node_harness(k); h.name = 'S4.' + h.name[2:]; hs.append(h)
    e = C07.equation_harness(); e.name = 'S4.Equation'; hs.append(e)
    for h in C08.harnesses(tier):
        if h.name.startswith('R2'): h.name = 'S4.Inline_Array'; hs.append(h)
    return hs

ASSUMPTIONS = ['per-construct reference semantics are written in the harnesses (C); children are abstract', 'the whole-program statement is the induction over these steps (argued, not solved)']
OUTSIDE = ['precedence/associativity of the real Operator() recursion (S3), operator tokenisation (S2)', 'Ranged_For, Fun_Call, Lambda, Def/eval_function, classes/attributes, containers as values (C12)']
