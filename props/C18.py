"""C18 — JSON conversion round-trips and tolerates any input."""
from irbmc import core
from irbmc.core import Family, Harness, STRING_MODEL

J = r'chaiscript::json::'
NOINLINE = [J + r'JSON::json_escape', J + r'JSONParser::\w+\(', J + r'JSON::JSON', J + r'JSON::~JSON', J + r'JSON::operator', J + r'JSON::to_string', r'chaiscript::parse_num<',
            r'std::runtime_error::runtime_error', r'\bpow\b'] + STRING_MODEL
FAM = Family('json', 'json.cpp', noinline=NOINLINE)
CUT = [J + r'JSON::JSON', J + r'JSON::~JSON', J + r'JSON::operator', r'std::runtime_error::runtime_error', J + r'JSON::to_string']
SYM = lambda n: core.csym(FAM, '^' + J + r'JSONParser::' + n + r'\(')
JSTR = 'F__ZN10chaiscript4json4JSONC2INSt7__cxx1112basic_stringIcSt11char_traitsIcESaIcEEEEET_PNSt9enable_ifIXsr14is_convertibleIS9_S8_EE5valueEvE4typeE'

def replay_j1(inp, shape, failed):
    try: hx = ''.join(inp['in[%dl]' % i]['hex'][-2:] for i in range(shape['N']))
    except Exception as e: return None, 'inputs missing from trace: %s (%s)' % (sorted(inp)[:8], e)
    cmd = [core.native_tool('c18_replay'), hx or '-']
    r = core.run(cmd, timeout=60)
    return (True if r.returncode == 1 else False if r.returncode == 0 else None), ' '.join(cmd[1:]) + ' -> ' + r.stdout.strip()

def harnesses(tier):
    hs = []
    ns1 = [0, 1, 2, 3, 4] if tier == 'quick' else [0, 1, 2, 3, 4, 5, 6]
    hs.append(Harness('J1.string_roundtrip', FAM, [J + r'JSON::json_escape', J + r'JSONParser::parse_string'], 'c18_json.c', stubs=CUT,
                      shapes=[dict(MODE=1, N=n, ESCAPE=core.csym(FAM, J + r'JSON::json_escape'), PARSE_STRING=SYM('parse_string'), JSON_FROM_STRING=JSTR, _tag='N=%d' % n, _witness=('witness: round trip',)) for n in ns1],
                      opts=['--unwind', '8', '--unwindset', 'set_text.0:17,main.0:18,main.1:18,main.2:18,main.3:18,' + JSTR + '.0:18', '--no-array-field-sensitivity'], timeout=600, mem_gb=10, string_model=True, defines={'STRING_LITERALS_OPAQUE': 1}, inputs=['in'], replay=replay_j1,
                      note='every string of exactly N bytes (all 256 byte values)'))
    ns2 = [0, 1, 2, 3, 4] if tier == 'quick' else [0, 1, 2, 3, 4, 5, 6, 7]
    for which, (nm, fn) in {1: ('parse_string', 'parse_string'), 2: ('parse_bool', 'parse_bool'), 4: ('parse_null', 'parse_null'), 3: ('consume_ws', 'consume_ws')}.items():
        shapes = []
        for n in ns2:
            wit = ['witness: input rejected'] + (['witness: input accepted'] if (nm == 'parse_string' and n >= 2) or (nm == 'consume_ws' and n >= 1) or (nm in ('parse_bool', 'parse_null') and n >= 4) else [])
            shapes.append(dict(MODE=2, WHICH=which, N=n, KERNEL=SYM(fn) if which != 3 else 'unused_kernel', KERNEL_V=SYM(fn) if which == 3 else 'unused_kernel_v', JSON_FROM_STRING=JSTR, _tag='N=%d' % n, _witness=tuple(wit)))
        hs.append(Harness('J2.' + nm, FAM, ['^' + J + r'JSONParser::' + fn + r'\('], 'c18_json.c', stubs=CUT, shapes=shapes, opts=['--unwind', '8', '--unwindset', 'set_text.0:17,main.0:18,main.1:18,main.2:18,main.3:18,' + JSTR + '.0:18', '--no-array-field-sensitivity'], timeout=600, mem_gb=10,
                          string_model=True, defines={'STRING_LITERALS_OPAQUE': 1}, inputs=['in', 'off'], note='arbitrary text of N bytes, arbitrary start offset <= N'))
    d4 = dict(MODE=4, PARSE_NEXT=SYM('parse_next'), PARSE_ARRAY=SYM('parse_array'), PARSE_OBJECT=SYM('parse_object'), PARSE_STRING=SYM('parse_string'), PARSE_BOOL=SYM('parse_bool'),
              PARSE_NULL=SYM('parse_null'), PARSE_NUMBER=SYM('parse_number'), JSON_FROM_STRING=JSTR)
    hs.append(Harness('J4.parse_next', FAM, ['^' + J + r'JSONParser::parse_next\('], 'c18_json.c', stubs=CUT + [J + r'JSONParser::parse_(array|object|string|bool|null|number)\('],
                      shapes=[dict(d4, N=n, _tag='N=%d' % n, _witness=('witness: depth limit', 'witness: ran off the end') + (('witness: dispatched', 'witness: bad start') if n >= 1 else ())) for n in ([0, 1, 2, 3] if tier == 'quick' else [0, 1, 2, 3, 4, 5])],
                      opts=['--unwind', '8', '--unwindset', 'set_text.0:17,main.0:18,main.1:18,main.2:18,main.3:18,' + JSTR + '.0:18', '--no-array-field-sensitivity'], timeout=300, mem_gb=8, string_model=True, defines={'STRING_LITERALS_OPAQUE': 1}, inputs=['in', 'off', 'depth'],
                      note='all texts of N bytes, any start offset, ANY depth value'))
    d5 = dict(MODE=5, PARSE_NEXT=SYM('parse_next'), PARSE_ARRAY=SYM('parse_array'), JSON_FROM_STRING=JSTR)
    hs.append(Harness('J4.parse_array', FAM, ['^' + J + r'JSONParser::parse_array\('], 'c18_json.c', stubs=CUT + [J + r'JSONParser::parse_next\('],
                      shapes=[dict(d5, N=n, _tag='N=%d' % n, _witness=('witness: input rejected',) + (('witness: input accepted',) if n >= 2 else ())) for n in ([1, 2, 3, 4] if tier == 'quick' else [1, 2, 3, 4, 5, 6])],
                      opts=['--unwind', '8', '--unwindset', 'set_text.0:17,main.0:18,main.1:18,main.2:18,main.3:18,' + JSTR + '.0:18', '--no-array-field-sensitivity'], timeout=300, mem_gb=8, string_model=True, defines={'STRING_LITERALS_OPAQUE': 1}, inputs=['in', 'off', 'depth0'],
                      note='parse_next is a contract stub (consumes >= 1 byte, may throw)'))
    def jsym(rx):
        return core.csym(FAM, rx)
    d6 = dict(MODE=6, PARSE_NEXT=SYM('parse_next'), PARSE_OBJECT=SYM('parse_object'), JSON_FROM_STRING=JSTR, JSON_TO_STRING=jsym('^' + J + r'JSON::to_string\[abi:cxx11\]\(\) const$'),
              JSON_INDEX_STR=jsym('^' + J + r'JSON::operator\[\]\(std::__cxx11::basic_string'), JSON_ASSIGN_COPY=jsym('^' + J + r'JSON::operator=\(chaiscript::json::JSON const&\)'))
    hs.append(Harness('J4.parse_object', FAM, ['^' + J + r'JSONParser::parse_object\('], 'c18_json.c', stubs=CUT + [J + r'JSONParser::parse_next\('],
                      shapes=[dict(d6, N=n, _tag='N=%d' % n, _witness=('witness: input rejected',) + (('witness: input accepted',) if n >= 2 else ())) for n in ([1, 2, 3, 4] if tier == 'quick' else [1, 2, 3, 4, 5, 6])],
                      opts=['--unwind', '8', '--unwindset', 'set_text.0:17,main.0:18,main.1:18,main.2:18,main.3:18,' + JSTR + '.0:18', '--no-array-field-sensitivity'], timeout=300, mem_gb=8, string_model=True, defines={'STRING_LITERALS_OPAQUE': 1}, inputs=['in', 'off', 'depth0'],
                      note='parse_next is a contract stub (consumes >= 1 byte, may throw); JSON member insertion is a recorder'))
    return hs

ASSUMPTIONS = ['std::string via the SSO-only model (texts <= 15 bytes)', 'JSON value constructors are recorders; runtime_error construction cut; ::isspace is the C locale table',
               'J4: bounded native recursion follows by induction from: parse_next(depth) rejects depth > 512; containers parse elements at depth+1 (J4.parse_array, J4.parse_object)']
OUTSIDE = ['numbers: floating-point accuracy of parse_num<double>*pow', 'array/object round trip (std::variant of vector / QuickFlatMap of JSON: heap-recursive)', 'json_wrap type mapping']
