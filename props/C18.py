"""C18 — JSON conversion round-trips and tolerates any input."""
from irbmc import core
from irbmc.core import Family, Harness, STRING_MODEL

J = r'chaiscript::json::'
NOINLINE = [J + r'JSON::json_escape', J + r'JSONParser::\w+\(', J + r'JSON::JSON', J + r'JSON::~JSON', J + r'JSON::operator', J + r'JSON::to_string', r'chaiscript::parse_num<',
            r'std::runtime_error::runtime_error', r'\bpow\b',
            J + r'JSON::(JSONType|to_bool|to_int|to_float|object_range|array_range)\(', r'chaiscript::Boxed_Value::Boxed_Value<', r'chaiscript::Boxed_Value::Object_Data::get\(\)', r'chaiscript::Boxed_Value::~Boxed_Value'] + STRING_MODEL
FAM = Family('json', 'json.cpp', noinline=NOINLINE)
CUT = [J + r'JSON::JSON', J + r'JSON::~JSON', J + r'JSON::operator', r'std::runtime_error::runtime_error', J + r'JSON::to_string']
SYM = lambda n: core.csym(FAM, '^' + J + r'JSONParser::' + n + r'\(')
JSTR = 'F__ZN10chaiscript4json4JSONC2INSt7__cxx1112basic_stringIcSt11char_traitsIcESaIcEEEEET_PNSt9enable_ifIXsr14is_convertibleIS9_S8_EE5valueEvE4typeE'

def replay_j1(inp, shape, failed):
    try: hx = ''.join(inp['in[%dl]' % i]['hex'][-2:] for i in range(shape['N']))
    except Exception as e: return None, 'inputs missing from trace: %s (%s)' % (sorted(inp)[:8], e)
    cmd = [core.native_tool('c18_replay'), hx or '-']
    r = core.run(cmd, timeout=60)
    return (True if r.returncode == 1 else False if r.returncode == 0 else None), ' '.join(cmd[1:]) + ' -> ' + r.stdout.strip()

def number_harness(tier):
    """J3: parse_number - tolerance for every text, exact value for the integer form"""
    import re
    rx = '^' + J + r'JSONParser::parse_number\('
    stubs = [J + r'JSON::JSON', J + r'JSON::~JSON', r'std::runtime_error::runtime_error', r'chaiscript::parse_num<double>', r'\bpow\b', r'std::pow<']
    g, info = core.translate(FAM, [rx], stubs + STRING_MODEL, tag='J3_probe')
    ext = [e.split('|')[0].strip() for e in info['ext']]
    def opt(pat, dflt):
        m = [e for e in ext if re.search(pat, e)]
        return ('F_' + core.cname(m[0])) if m else dflt
    d = dict(PARSE_NUMBER=SYM('parse_number'), JSON_FROM_LONG=opt(r'^_ZN10chaiscript4json4JSONC[12]IlEE', 'unused_json_long'), JSON_FROM_DOUBLE=opt(r'^_ZN10chaiscript4json4JSONC[12]IdEE', 'unused_json_double'),
             PARSE_NUM_DOUBLE=opt(r'^_ZN10chaiscript9parse_numIdEE', 'unused_parse_num_double'), POW_IL=opt(r'^_ZSt3powIilE', 'unused_pow'))
    ns = [1, 2, 3, 4] if tier == 'quick' else [1, 2, 3, 4, 5, 6]
    shapes = [dict(d, N=n, _tag='N=%d' % n, _witness=('witness: integer',) + (('witness: floating',) if n >= 2 else ()) + (('witness: input rejected',) if n >= 3 else ())) for n in ns]        # a stray character is only looked at when something follows it
    return Harness('J3.parse_number', FAM, [rx], 'c18_number.c', stubs=stubs, shapes=shapes, opts=['--unwind', '18'], timeout=600, mem_gb=10, string_model=True, defines={'STRING_LITERALS_OPAQUE': 1}, inputs=['text', 'off0'],
                   note='every text of N bytes, every start offset holding a digit or -; integer conversion (parse_num<long>) real; floating conversion and pow are stubs (values declined)')

def from_json_harness():
    """J5: json_wrap::from_json for scalars - type mapping, and a fresh value per conversion"""
    import re
    rx = r'chaiscript::json_wrap::from_json\(chaiscript::json::JSON const&\)'
    stubs = [J + r'JSON::', r'chaiscript::Boxed_Value::Boxed_Value<', r'Object_Data::get\(\)', r'std::runtime_error::runtime_error', r'std::vector<chaiscript::Boxed_Value.*>::', r'std::map<.*>::', r'std::_Rb_tree<.*>::']
    cuts = [r'Boxed_Value::~Boxed_Value']
    g, info = core.translate(FAM, [rx], stubs + STRING_MODEL, tag='J5_probe', cuts=cuts)
    ext = [e.split('|')[0].strip() for e in info['ext']]
    def opt(pat, dflt):
        m = [e for e in ext if re.search(pat, e)]
        return ('F_' + core.cname(m[0])) if m else dflt
    d = dict(FROM_JSON=core.csym(FAM, rx), JSON_TYPE=opt(r'4JSON8JSONTypeEv$', 'unused_json_type'), TO_BOOL=opt(r'4JSON7to_boolEv$', 'unused_to_bool'), TO_INT=opt(r'4JSON6to_intEv$', 'unused_to_int'), TO_FLOAT=opt(r'4JSON8to_floatEv$', 'unused_to_float'),
             TO_STRING=opt(r'4JSON9to_stringB5cxx11Ev$', 'unused_to_string'), BV_UNDEF=opt(r'11Object_Data3getEv$', 'unused_bv_undef'), BV_BOOL=opt(r'11Boxed_ValueC[12]IbvEEOT_b$', 'unused_bv_bool'), BV_LONG=opt(r'11Boxed_ValueC[12]IlvEEOT_b$', 'unused_bv_long'),
             BV_DOUBLE=opt(r'11Boxed_ValueC[12]IdvEEOT_b$', 'unused_bv_double'), BV_STRING=opt(r'11Boxed_ValueC[12]INSt7__cxx1112basic_stringIcSt11char_traitsIcESaIcEEEvEEOT_b$', 'unused_bv_string'), STRING_LITERALS_OPAQUE=1)
    NM = {0: 'null', 3: 'string', 4: 'floating', 5: 'integral', 6: 'boolean'}
    # containers (Object / Array) recurse through from_json and std::map / std::vector growth: not reached by the scalar classes; their callees get no body on purpose
    allow = [e for e in ext if re.search(r'JSONConstWrapper|11array_rangeEv|12object_rangeEv|Boxed_ValueC[12]IRSt(3map|6vector)|_M_realloc_insert|_M_emplace|St3mapI|St8_Rb_tree|St6vectorIN10chaiscript11Boxed_Value', e)]
    h = Harness('J5.from_json(scalars: type mapping, a fresh value per conversion)', FAM, [rx], 'c18_from_json.c', stubs=stubs, cuts=cuts, shapes=[dict(d, CLS0=a, CLS1=b, _tag='%s then %s' % (NM[a], NM[b]), _witness=('witness: two conversions',) + (('witness: the same boolean twice',) if (a, b) == (6, 6) else ())) for a, b in ((0, 0), (6, 6), (5, 4), (3, 6), (6, 0), (4, 3), (5, 5), (3, 3))],
                opts=['--unwind', '6'], timeout=300, mem_gb=6, string_model=True, inputs=['cls', 'bval', 'ival'], note='two conversions of symbolic scalar JSON values (null / boolean / integral / floating / string); JSON accessors are oracles, Boxed_Value constructors recorders',
                allow_nobody=['F_' + core.cname(e) for e in allow])
    return h

def harnesses(tier):
    hs = []
    ns1 = [0, 1, 2, 3, 4] if tier == 'quick' else [0, 1, 2, 3, 4, 5, 6]
    hs.append(Harness('J1.string_roundtrip', FAM, [J + r'JSON::json_escape', J + r'JSONParser::parse_string'], 'c18_json.c', stubs=CUT,
                      shapes=[dict(MODE=1, N=n, ESCAPE=core.csym(FAM, J + r'JSON::json_escape'), PARSE_STRING=SYM('parse_string'), JSON_FROM_STRING=JSTR, _tag='N=%d' % n, _witness=('witness: round trip',)) for n in ns1],
                      opts=['--unwind', '8', '--unwindset', 'set_text.0:17,main.0:18,main.1:18,main.2:18,main.3:18,' + JSTR + '.0:18', '--no-array-field-sensitivity'], timeout=600, mem_gb=10, string_model=True, defines={'STRING_LITERALS_OPAQUE': 1}, inputs=['in'], replay=replay_j1,
                      note='every string of exactly N bytes (all 256 byte values)'))
    ns2 = [0, 1, 2, 3, 4] if tier == 'quick' else [0, 1, 2, 3, 4, 5, 6, 7]
    for which, (nm, fn) in {1: ('parse_string', 'parse_string'), 2: ('parse_bool', 'parse_bool'), 4: ('parse_null', 'parse_null'), 3: ('consume_ws', 'consume_ws')}.items():
        shapes = []
        for n in ns2:
            wit = ['witness: input rejected'] + (['witness: input accepted'] if (nm == 'parse_string' and n >= 2) or (nm == 'consume_ws' and n >= 1) or (nm in ('parse_bool', 'parse_null') and n >= 4) else [])
            shapes.append(dict(MODE=2, WHICH=which, N=n, KERNEL=SYM(fn) if which != 3 else 'unused_kernel', KERNEL_V=SYM(fn) if which == 3 else 'unused_kernel_v', JSON_FROM_STRING=JSTR, _tag='N=%d' % n, _witness=tuple(wit)))
        hs.append(Harness('J2.' + nm, FAM, ['^' + J + r'JSONParser::' + fn + r'\('], 'c18_json.c', stubs=CUT, shapes=shapes, opts=['--unwind', '8', '--unwindset', 'set_text.0:17,main.0:18,main.1:18,main.2:18,main.3:18,' + JSTR + '.0:18', '--no-array-field-sensitivity'], timeout=600, mem_gb=10,
                          string_model=True, defines={'STRING_LITERALS_OPAQUE': 1}, inputs=['in', 'off'], note='arbitrary text of N bytes, arbitrary start offset <= N'))
    d4 = dict(MODE=4, PARSE_NEXT=SYM('parse_next'), PARSE_ARRAY=SYM('parse_array'), PARSE_OBJECT=SYM('parse_object'), PARSE_STRING=SYM('parse_string'), PARSE_BOOL=SYM('parse_bool'),
              PARSE_NULL=SYM('parse_null'), PARSE_NUMBER=SYM('parse_number'), JSON_FROM_STRING=JSTR)
    hs.append(Harness('J4.parse_next', FAM, ['^' + J + r'JSONParser::parse_next\('], 'c18_json.c', stubs=CUT + [J + r'JSONParser::parse_(array|object|string|bool|null|number)\('],
                      shapes=[dict(d4, N=n, _tag='N=%d' % n, _witness=('witness: depth limit', 'witness: ran off the end') + (('witness: dispatched', 'witness: bad start') if n >= 1 else ())) for n in ([0, 1, 2, 3] if tier == 'quick' else [0, 1, 2, 3, 4, 5])],
                      opts=['--unwind', '8', '--unwindset', 'set_text.0:17,main.0:18,main.1:18,main.2:18,main.3:18,' + JSTR + '.0:18', '--no-array-field-sensitivity'], timeout=300, mem_gb=8, string_model=True, defines={'STRING_LITERALS_OPAQUE': 1}, inputs=['in', 'off', 'depth'],
                      note='all texts of N bytes, any start offset, ANY depth value'))
    d5 = dict(MODE=5, PARSE_NEXT=SYM('parse_next'), PARSE_ARRAY=SYM('parse_array'), JSON_FROM_STRING=JSTR)
    hs.append(Harness('J4.parse_array', FAM, ['^' + J + r'JSONParser::parse_array\('], 'c18_json.c', stubs=CUT + [J + r'JSONParser::parse_next\('],
                      shapes=[dict(d5, N=n, _tag='N=%d' % n, _witness=('witness: input rejected',) + (('witness: input accepted',) if n >= 2 else ())) for n in ([1, 2, 3, 4] if tier == 'quick' else [1, 2, 3, 4, 5, 6])],
                      opts=['--unwind', '8', '--unwindset', 'set_text.0:17,main.0:18,main.1:18,main.2:18,main.3:18,' + JSTR + '.0:18', '--no-array-field-sensitivity'], timeout=300, mem_gb=8, string_model=True, defines={'STRING_LITERALS_OPAQUE': 1}, inputs=['in', 'off', 'depth0'],
                      note='parse_next is a contract stub (consumes >= 1 byte, may throw)'))
    def jsym(rx):
        return core.csym(FAM, rx)
    d6 = dict(MODE=6, PARSE_NEXT=SYM('parse_next'), PARSE_OBJECT=SYM('parse_object'), JSON_FROM_STRING=JSTR, JSON_TO_STRING=jsym('^' + J + r'JSON::to_string\[abi:cxx11\]\(\) const$'),
              JSON_INDEX_STR=jsym('^' + J + r'JSON::operator\[\]\(std::__cxx11::basic_string'), JSON_ASSIGN_COPY=jsym('^' + J + r'JSON::operator=\(chaiscript::json::JSON const&\)'))
    hs.append(Harness('J4.parse_object', FAM, ['^' + J + r'JSONParser::parse_object\('], 'c18_json.c', stubs=CUT + [J + r'JSONParser::parse_next\('],
                      shapes=[dict(d6, N=n, _tag='N=%d' % n, _witness=('witness: input rejected',) + (('witness: input accepted',) if n >= 2 else ())) for n in ([1, 2, 3, 4] if tier == 'quick' else [1, 2, 3, 4, 5, 6])],
                      opts=['--unwind', '8', '--unwindset', 'set_text.0:17,main.0:18,main.1:18,main.2:18,main.3:18,' + JSTR + '.0:18', '--no-array-field-sensitivity'], timeout=300, mem_gb=8, string_model=True, defines={'STRING_LITERALS_OPAQUE': 1}, inputs=['in', 'off', 'depth0'],
                      note='parse_next is a contract stub (consumes >= 1 byte, may throw); JSON member insertion is a recorder'))
    hs.append(number_harness(tier))
    hs.append(from_json_harness())
    return hs

ASSUMPTIONS = ['std::string via the SSO-only model (texts <= 15 bytes)', 'JSON value constructors are recorders; runtime_error construction cut; ::isspace is the C locale table',
               'J4: bounded native recursion follows by induction from: parse_next(depth) rejects depth > 512; containers parse elements at depth+1 (J4.parse_array, J4.parse_object)']
OUTSIDE = ['numbers: the VALUE of floating literals and of integers with an exponent (parse_num<double>, pow: floating point, declined); integer overflow beyond 64 bits', 'array/object round trip (std::variant of vector / QuickFlatMap of JSON: heap-recursive)', 'json_wrap: containers (from_json of arrays / objects recurses through std::map / std::vector growth) and to_json_object']
