"""C06 — C++ functions are only ever entered with correctly typed arguments."""
from irbmc import core
from irbmc.core import Family, Harness, STRING_MODEL

NOINLINE = [r'chaiscript::detail::Cast_Helper_Inner<.*>::cast', r'bad_any_cast::bad_any_cast', r'std::runtime_error::runtime_error', r'chaiscript::Boxed_Value::Object_Data::get',
            r'chaiscript::Boxed_Value::Data::Data', r'std::make_shared<', r'chaiscript::detail::Any::Any<', r'chaiscript::detail::Any::~Any', r'std::shared_ptr<.*>::~shared_ptr', r'std::shared_ptr<.*>::shared_ptr\('] + STRING_MODEL
FAM = Family('boxed', 'boxed.cpp', noinline=NOINLINE)
FORMS = {1: ('int', r'Cast_Helper_Inner<int>::cast'), 2: ('const int&', r'Cast_Helper_Inner<int const&>::cast'), 3: ('int&', r'Cast_Helper_Inner<int&>::cast'),
         4: ('int*', r'Cast_Helper_Inner<int\*>::cast'), 5: ('const int*', r'Cast_Helper_Inner<int const\*>::cast')}

def harnesses(tier):
    hs = []
    shapes = []
    for f, (nm, rx) in FORMS.items():
        wit = ['witness: cast refused', 'witness: cast accepted'] + (['witness: null object'] if f in (1, 2, 3) else [])
        hs.append(Harness('D3.cast<%s>' % nm, FAM, [rx], 'c06_cast.c', stubs=[r'bad_any_cast::bad_any_cast', r'std::runtime_error::runtime_error'],
                          shapes=[dict(FORM=f, CAST=core.csym(FAM, rx), _tag='form=' + nm, _witness=tuple(wit))], opts=['--unwind', '4'], timeout=120, mem_gb=4,
                          inputs=['a', 'b', 'flags', 'isnull', 'stored'], note='static/bare type in {int,double,other,int*}, all flag combinations, null or non-null object'))
    return hs

ASSUMPTIONS = ['the Data object satisfies its constructor invariant (m_data_ptr == nullptr iff const)', 'typeinfo objects are compared by address (one object per type, as after linking)']
OUTSIDE = ['conversion fallback of boxed_cast (Type_Conversions search)', 'dispatch over overload sets (D4) and function ordering (D5): to be added', 'shared_ptr / reference_wrapper / std::function forms']
