"""C06 — C++ functions are only ever entered with correctly typed arguments."""
import os, re
from irbmc import core
from irbmc.core import Family, Harness, STRING_MODEL

NOINLINE = [r'chaiscript::detail::Cast_Helper_Inner<.*>::cast', r'bad_any_cast::bad_any_cast', r'std::runtime_error::runtime_error', r'chaiscript::Boxed_Value::Object_Data::get',
            r'chaiscript::Boxed_Value::Data::Data', r'std::make_shared<', r'chaiscript::detail::Any::Any<', r'chaiscript::detail::Any::~Any', r'std::shared_ptr<.*>::~shared_ptr', r'std::shared_ptr<.*>::shared_ptr\(', r'chaiscript::Boxed_Value::assign\(', r'chaiscript::Boxed_Value::Boxed_Value<', r'bad_boxed_cast::bad_boxed_cast', r'pointer_sentinel<.*>\(.*\) const::Sentinel::'] + STRING_MODEL
FAM = Family('boxed', 'boxed.cpp', noinline=NOINLINE)
FORMS = {1: ('int', r'Cast_Helper_Inner<int>::cast'), 2: ('const int&', r'Cast_Helper_Inner<int const&>::cast'), 3: ('int&', r'Cast_Helper_Inner<int&>::cast'),
         4: ('int*', r'Cast_Helper_Inner<int\*>::cast'), 5: ('const int*', r'Cast_Helper_Inner<int const\*>::cast')}

def dispatch_harness(tier):
    from props.engine_family import FAM as ENG
    rx = r'^chaiscript::Boxed_Value chaiscript::dispatch::dispatch<std::vector<std::shared_ptr<chaiscript::dispatch::Proxy_Function_Base>'
    rc = r'Proxy_Function_Base::compare_type_to_param\('
    stubs = [r'Proxy_Function_Base::operator\(\)', r'dispatch_with_conversions', r'Type_Conversions::converts']
    g, info = core.translate(ENG, [rx, rc], stubs, tag='D4_probe', cuts=[r'Boxed_Value::~Boxed_Value'])
    fb = [e.split('|')[0].strip() for e in info['ext'] if 'dispatch_with_conversions' in e]
    if len(fb) != 1: raise core.BuildError('dispatch(): expected exactly one dispatch_with_conversions callee, found %s' % fb)
    TIS = {'TI_BOXED_VALUE_OBJ': '_ZTIN10chaiscript11Boxed_ValueE', 'TI_BOXED_NUMBER_OBJ': '_ZTIN10chaiscript12Boxed_NumberE', 'TI_FUNCTION_OBJ': '_ZTIN10chaiscript8dispatch19Proxy_Function_BaseE',
           'TI_BAD_BOXED_CAST': '_ZTIN10chaiscript9exception14bad_boxed_castE', 'TI_ARITY_ERROR': '_ZTIN10chaiscript9exception11arity_errorE', 'TI_GUARD_ERROR': '_ZTIN10chaiscript9exception11guard_errorE'}
    d = {'DISPATCH': core.csym(ENG, rx), 'FUNC_CALL': core.csym(ENG, r'^chaiscript::dispatch::Proxy_Function_Base::operator\(\)\('), 'CONVERTS': core.csym(ENG, r'^chaiscript::Type_Conversions::converts\('), 'FALLBACK': 'F_' + core.cname(fb[0])}
    for k, v in TIS.items(): d[k] = '((char*)&g_%s)' % v
    d['VERIF_STRCMP_BY_IDENTITY'] = 1
    shapes = []
    import itertools
    for nf in ((1, 2) if tier == 'quick' else (1, 2, 3)):
        for na in (1, 2):
            for ars in itertools.product((-1, 1, 2), repeat=nf):
                ncand = sum(1 for a in ars if a in (-1, na))
                wit = (('witness: overload chosen', 'witness: callee throws') if ncand else ()) + (('witness: fallback',) if ncand < 2 else ()) + (('witness: exact match preferred', 'witness: exact match through a pointer/shared_ptr parameter preferred') if ncand >= 2 and any(a == na for a in ars[1:]) else ())
                sh = dict(d, NF=nf, NA=na, _tag='args=%d,arities=%s' % (na, '/'.join(str(a) for a in ars)), _witness=wit)
                # with two or more candidates CBMC does not converge on dispatch()'s try/catch loop (the catch blocks jump back into the loop body: the
                # unwinding assertion fails at every bound tried up to 24 although every concrete trace has <= 3 iterations); those shapes are
                # decided for candidates that accept or throw a foreign exception - the ORDER of trial is what they are for
                if ncand >= 2: sh['NO_REFUSALS'] = 1
                for i, a in enumerate(ars): sh['AR%d' % i] = '(%d)' % a
                shapes.append(sh)
    h = Harness('D4.dispatch', ENG, [rx, rc], 'c06_dispatch.c', stubs=stubs, cuts=[r'Boxed_Value::~Boxed_Value'], shapes=shapes, opts=['--unwind', '12', '--unwindset', 'main.0:9,main.1:9,type_index.0:9'], timeout=600, mem_gb=10,
                inputs=['farity', 'fptype', 'fbeh', 'atype', 'conv_bit'], note='arity in {-1,1,2}, declared/argument types over an 8-type universe, conversion table and per-overload outcome symbolic')
    h.need_globals = list(TIS.values())
    return h

def dyncast_harness():
    """D6: Dynamic_Caster<Base, Derived>::cast - the down-cast half of a registered polymorphic base-class conversion"""
    rx = r'Dynamic_Caster<verif_types::Base, verif_types::Derived>::cast\(chaiscript::Boxed_Value const&\)$'
    stubs = [r'Cast_Helper_Inner<', r'chaiscript::Boxed_Value::Boxed_Value<', r'bad_boxed_dynamic_cast::', r'Object_Data::get']
    cuts = [r'std::shared_ptr<.*>::~shared_ptr', r'std::__shared_ptr<.*>::~__shared_ptr']
    g, info = core.translate(FAM, [rx], stubs, tag='D6_probe', cuts=cuts)
    ext = [e.split('|')[0].strip() for e in info['ext']]
    def opt(pat, dflt):
        m = [e for e in ext if re.search(pat, e)]
        if len(m) > 1: raise core.BuildError('C06 D6: %d externals match %s' % (len(m), pat))
        return ('F_' + core.cname(m[0])) if m else dflt
    d = {'DYN_CAST': core.csym(FAM, rx), 'CAST_CREF': opt(r'17Cast_Helper_InnerIRKN11verif_types4BaseEE4castE', 'unused_cast_cref'), 'CAST_REF': opt(r'17Cast_Helper_InnerIRN11verif_types4BaseEE4castE', 'unused_cast_ref'),
         'CAST_SP_CONST': opt(r'17Cast_Helper_InnerISt10shared_ptrIKN11verif_types4BaseEEE4castE', 'unused_cast_spc'), 'CAST_SP': opt(r'17Cast_Helper_InnerISt10shared_ptrIN11verif_types4BaseEEE4castE', 'unused_cast_sp'),
         'MK_SP_CONST': opt(r'11Boxed_ValueC[12]ISt10shared_ptrIKN11verif_types7DerivedEEvEEOT_b', 'unused_mk_spc'), 'MK_SP': opt(r'11Boxed_ValueC[12]ISt10shared_ptrIN11verif_types7DerivedEEvEEOT_b', 'unused_mk_sp'),
         'MK_CREF': opt(r'11Boxed_ValueC[12]ISt17reference_wrapperIKN11verif_types7DerivedEEvEEOT_b', 'unused_mk_cref'), 'MK_REF': opt(r'11Boxed_ValueC[12]ISt17reference_wrapperIN11verif_types7DerivedEEvEEOT_b', 'unused_mk_ref'),
         'BAD_DYN_CAST_CTOR': opt(r'22bad_boxed_dynamic_castC[12]E', 'unused_bad_dyn_ctor'), 'TI_BAD_BOXED_DYNAMIC_CAST': '((char*)&g__ZTIN10chaiscript9exception22bad_boxed_dynamic_castE)', 'VERIF_STRCMP_BY_IDENTITY': 1, 'VERIF_CALL_V1(f,a)': '__VERIF_v1_hook(f,a)'}
    h = Harness('D6.base_class_down_cast', FAM, [rx], 'c06_dyncast.c', stubs=stubs, cuts=cuts, shapes=[dict(d, _tag='all forms', _witness=('witness: other static type', 'witness: wrong dynamic type refused', 'witness: down-cast succeeds'))],
                opts=['--unwind', '4'], timeout=120, mem_gb=4, inputs=['dyn', 'is_ptr', 'is_const', 'static_is_base'], note='dynamic type of the object (Base / Derived / another subclass), storage form (shared_ptr / reference), constness and static type of the box: symbolic')
    h.need_globals = ['_ZTIN10chaiscript9exception22bad_boxed_dynamic_castE', '_ZTIN11verif_types4BaseE', '_ZTIN11verif_types7DerivedE']
    return h

def arity_harness():
    """D1: Proxy_Function_Base::operator() - the arity gate in front of do_call"""
    from props.engine_family import FAM as ENG
    rx = r'^chaiscript::dispatch::Proxy_Function_Base::operator\(\)\('
    g, info = core.translate(ENG, [rx], [], tag='D1_probe', cuts=[r'arity_error::'])
    # the vtable slot operator() calls through: read off the generated code (vptr + constant offset)
    m = re.search(r'v_\d+ = \(v_\d+ \+ \((\d+)\)\);\n\s*v_\d+ = \*\(char\*\*\)v_\d+;\n\s*\(\(void \(\*\)\(char\*, char\*, char\*, char\*\)\)v_\d+\)', core.fread(g))
    if not m: raise core.BuildError('C06 D1: the virtual call of do_call was not found in the translation of Proxy_Function_Base::operator()')
    slot = int(m.group(1)) // 8
    shapes = [dict(FUNC_CALL=core.csym(ENG, rx), DO_CALL_SLOT=slot, NV=n, _tag='values=%d' % n, _witness=('witness: entered', 'witness: arity mismatch')) for n in (0, 1, 2, 3)]
    h = Harness('D1.arity_gate', ENG, [rx], 'c06_arity.c', cuts=[r'arity_error::'], shapes=shapes, opts=['--unwind', '14'], timeout=120, mem_gb=4, inputs=['ar', 'do_call_throws'],
                note='arity of the function symbolic (-1 .. 10^6), 0-3 argument values; do_call is a recorder behind a model vtable (slot read off the translated code)')
    h.need_globals = ['_ZTIN10chaiscript9exception11arity_errorE']
    return h

def harnesses(tier):
    hs = [dispatch_harness(tier), dyncast_harness(), arity_harness()]
    shapes = []
    def mk_replay(form):
        def replay(inp, shape, failed):
            if 'never handed to C++' not in failed['desc']: return None, 'no native replay for this assertion'
            try:
                a = int(re.sub(r'\D', '', inp['a']['v'])) & 3; fl = int(re.sub(r'\D', '', inp['flags']['v']))
            except Exception as e: return None, 'inputs missing from trace: %s' % sorted(inp)
            import subprocess
            tifc = int(subprocess.run(['grep', '-h', 'define TIF_const', os.path.join(core.layout_dir(), 'layout.h')], capture_output=True, text=True).stdout.split()[-1])
            cmd = [core.native_tool('c06_replay'), str(form), ['int', 'double', 'other', 'intptr'][a], '1' if fl & tifc else '0']
            r = core.run(cmd, timeout=60)
            return (True if r.returncode == 1 else False if r.returncode == 0 else None), ' '.join(cmd[1:]) + ' -> ' + r.stdout.strip()
        return replay
    for f, (nm, rx) in FORMS.items():
        wit = ['witness: cast refused', 'witness: cast accepted'] + (['witness: null object'] if f in (1, 2, 3) else [])
        hs.append(Harness('D3.cast<%s>' % nm, FAM, [rx], 'c06_cast.c', stubs=[r'bad_any_cast::bad_any_cast', r'std::runtime_error::runtime_error'],
                          shapes=[dict(FORM=f, CAST=core.csym(FAM, rx), _tag='form=' + nm, _witness=tuple(wit))], opts=['--unwind', '4'], timeout=120, mem_gb=4,
                          inputs=['a', 'b', 'flags', 'isnull', 'stored'], note='static/bare type in {int,double,other,int*}, all flag combinations, null or non-null object', replay=mk_replay(f)))
    return hs

ASSUMPTIONS = ['the Data object satisfies its constructor invariant (m_data_ptr == nullptr iff const)', 'typeinfo objects are compared by address (one object per type, as after linking)']
OUTSIDE = ['conversion fallback of boxed_cast (Type_Conversions search)', 'function ordering on registration (function_less_than) and dispatch_with_conversions', 'up-casts (Static_Caster) and user conversions; shared_ptr / reference_wrapper / std::function parameter forms']
