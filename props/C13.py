"""C13 — one engine may be used from many threads at once (lock discipline obligations; no interleaving exploration)."""
import re
from irbmc import core
from irbmc.core import Harness
from props.engine_family import FAM, DE

MAPBV = r'std::map<std::__cxx11::basic_string<char, std::char_traits<char>, std::allocator<char> >, chaiscript::Boxed_Value, chaiscript::str_less'
MAPTI = r'std::map<std::__cxx11::basic_string<char, std::char_traits<char>, std::allocator<char> >, chaiscript::Type_Info, chaiscript::str_less'
ENTRIES = {1: ('add_global_const', DE + r'add_global_const\('), 2: ('add_global', DE + r'add_global\('), 3: ('add_global_no_throw', DE + r'add_global_no_throw\('),
           4: ('set_global', DE + r'set_global\('), 5: ('add(Type_Info)', DE + r'add\(chaiscript::Type_Info const&'), 6: ('get_type', DE + r'get_type\(std::basic_string_view'),
           7: ('get_function', DE + r'get_function\(std::basic_string_view'), 8: ('function_exists', DE + r'function_exists\('), 9: ('get_function_object', DE + r'get_function_object\(std::__cxx11')}
STUBS = [r'std::map<.*>::(find|insert|insert_or_assign|erase|operator\[\]|count|emplace|clear|at)[<(]', r'std::_Rb_tree<.*>::_M_', r'name_conflict_error::', r'global_non_const::',
         r'chaiscript::Boxed_Value::~Boxed_Value', r'chaiscript::Boxed_Value::Boxed_Value<', r'std::range_error::', r'chaiscript::utility::QuickFlatMap<.*>::(find|count)<']

def msym(rx):
    ms = [m for m, d in core.find_symbols(FAM, r'QuickFlatMap') if re.search(rx, m)]
    if len(ms) != 1: raise core.BuildError('C13: %d symbols match %s' % (len(ms), rx))
    return 'F_' + core.cname(ms[0])

TC = r'^chaiscript::Type_Conversions::'
K3_ROOTS = [TC + r'add_conversion\(', TC + r'has_conversion\(', TC + r'get_conversion\(', TC + r'thread_cache\(\)', TC + r'converts\(chaiscript::Type_Info const&']
K3_STUBS = [r'std::set<.*>::(insert|count)[<(]', r'std::_Rb_tree<.*>::(_M_|operator=|find)', r'std::out_of_range::', r'std::__detail::_Map_base<.*>::operator\[\]']

def conversions_harness():
    g, info = core.translate(FAM, K3_ROOTS, K3_STUBS + core.STRING_MODEL, tag='K3_probe')
    txt = core.fread(g)
    m = re.search(r'^(struct agg\d+) F__ZNSt3setISt10shared_ptrIN10chaiscript6detail20Type_Conversion_BaseEE\w+6insertERKS4_\(', txt, re.M)
    if not m: raise core.BuildError('C13 K3: set<shared_ptr<Type_Conversion_Base>>::insert is not called by add_conversion any more')
    ext = [e.split('|')[0].strip() for e in info['ext']]
    def one(pat):
        ms = [e for e in ext if re.search(pat, e)]
        if len(ms) != 1: raise core.BuildError('C13 K3: expected exactly one external matching %s, found %d' % (pat, len(ms)))
        return 'F_' + core.cname(ms[0])
    d = {'INS_AGG': m.group(1), 'SET_INSERT': one(r'^_ZNSt3setISt10shared_ptrIN10chaiscript6detail20Type_Conversion_BaseEE\w+6insertERKS4_$'), 'TYPES_INSERT': one(r'^_ZNSt3setIPKSt9type_info\w+6insertESt16initializer_list'),
         'CACHE_SLOT': ([('F_' + core.cname(e)) for e in ext if re.search(r'_Map_baseImSt4pairIKmSt3setIPKSt9type_info', e)] + ['unused_cache_slot'])[0], 'TREE_ASSIGN': one(r'^_ZNSt8_Rb_treeIPKSt9type_info\w+aSERKS9_$'), 'SET_COUNT_FN': one(r'^_ZNKSt3setIPKSt9type_info\w+5countERKS2_$'),
         'E_ADD': core.csym(FAM, K3_ROOTS[0]), 'E_HAS': core.csym(FAM, K3_ROOTS[1]), 'E_GET': core.csym(FAM, K3_ROOTS[2]), 'E_CACHE': core.csym(FAM, K3_ROOTS[3]), 'E_CONVERTS': core.csym(FAM, K3_ROOTS[4]),
         'VERIF_STRCMP_BY_IDENTITY': 1, 'STRING_LITERALS_OPAQUE': 1}
    W = {1: ('witness: duplicate rejected', 'witness: registered with new types', 'witness: registered, types known'), 2: ('witness: found', 'witness: not found'), 3: ('witness: found', 'witness: not found'),
         4: ('witness: refreshed', 'witness: up to date'), 5: ('witness: converts', 'witness: does not convert')}
    N = {1: 'add_conversion', 2: 'has_conversion', 3: 'get_conversion', 4: 'thread_cache', 5: 'converts'}
    return Harness('K3.conversions(lock discipline, publication, lookup)', FAM, K3_ROOTS, 'c13_conversions.c', stubs=K3_STUBS, shapes=[dict(d, ENTRY=e, _tag='entry=' + N[e], _witness=W[e]) for e in sorted(N)],
                   opts=['--unwind', '5'], timeout=600, mem_gb=8, string_model=True, inputs=['nconv', 'ntypes', 'c_to', 'c_from', 'to', 'from'],
                   note='0-2 registered conversions over 3 types; the shared tables show a poison state while the mutex is not held, so unlocked reads assert; set insert/copy/count are recorders; thread-local slot lookup is a stub (C14)')

def add_function_harness():
    rx = DE + r'add_function\(std::shared_ptr<chaiscript::dispatch::Proxy_Function_Base> const&, std::__cxx11::basic_string<char, std::char_traits<char>, std::allocator<char> > const&\)$'
    stubs = [DE + r"add_function\(.*\)::'lambda'\(\)::operator\(\)", r'chaiscript::utility::QuickFlatMap<.*>::insert_or_assign', r'chaiscript::const_var<', r'std::shared_ptr<.*>::~shared_ptr']
    cuts = [r'Boxed_Value::~Boxed_Value']
    g, info = core.translate(FAM, [rx], stubs, tag='K5_probe', cuts=cuts)
    txt = core.fread(g); ext = [e.split('|')[0].strip() for e in info['ext']]
    def one(pat):
        m = [e for e in ext if re.search(pat, e)]
        if len(m) != 1: raise core.BuildError('C13 K5: expected exactly one external matching %s, found %d' % (pat, len(m)))
        return 'F_' + core.cname(m[0])
    ib = one(r'QuickFlatMapINSt7__cxx1112basic_stringIcSt11char_traitsIcESaIcEEENS_11Boxed_ValueE\w*16insert_or_assign'); io = one(r'QuickFlatMapINSt7__cxx1112basic_stringIcSt11char_traitsIcESaIcEEESt10shared_ptrINS_8dispatch19Proxy_Function_BaseEE\w*16insert_or_assign')
    m = re.search(r'^(struct agg\d+) ' + re.escape(ib) + r'\(', txt, re.M)
    if not m: raise core.BuildError('C13 K5: prototype of insert_or_assign not found')
    d = {'ADD_FUNCTION': core.csym(FAM, rx), 'LAMBDA': one(r'12add_functionE.*ENKUlvE_clEv$'), 'CONST_VAR': one(r'^_ZN10chaiscript9const_varISt10shared_ptrINS_8dispatch19Proxy_Function_BaseE'), 'INS_BOXED': ib, 'INS_OBJS': io, 'INS_AGG': m.group(1)}
    return Harness('K5.add_function(one unique hold)', FAM, [rx], 'c13_add_function.c', stubs=stubs, cuts=cuts, shapes=[dict(d, _tag='-', _witness=('witness: refused', 'witness: registered'))],
                   opts=['--unwind', '4'], timeout=300, mem_gb=6, inputs=['lambda_throws'], note='the overload computation (K4) and the table updates are stubs asserting the lock state')

def harnesses(tier):
    roots = [rx for _, rx in ENTRIES.values()]
    g, info = core.translate(FAM, roots, STUBS + core.STRING_MODEL, tag='K1_locks')
    txt = core.fread(g)
    m = re.search(r'^(struct agg\d+) F__ZNSt3mapI\w+6insertI', txt, re.M)
    d = {'INS_AGG': m.group(1) if m else 'struct agg1',
         'MAP_FIND': core.csym(FAM, '^' + MAPBV + r'.*>::find\(std::__cxx11::basic_string<char, std::char_traits<char>, std::allocator<char> > const&\)$'),
         'TYPES_FIND': core.csym(FAM, MAPTI + r'.*>::find<std::basic_string_view'),
         'MAP_INSERT': core.csym(FAM, MAPBV + r'.*>::insert<'), 'TYPES_INSERT': core.csym(FAM, MAPTI + r'.*>::insert<'),
         'MAP_INSERT_OR_ASSIGN': core.csym(FAM, MAPBV + r'.*>::insert_or_assign<'),
         'E_ADD_GLOBAL_CONST': core.csym(FAM, ENTRIES[1][1]), 'E_ADD_GLOBAL': core.csym(FAM, ENTRIES[2][1]), 'E_ADD_GLOBAL_NO_THROW': core.csym(FAM, ENTRIES[3][1]),
         'E_SET_GLOBAL': core.csym(FAM, ENTRIES[4][1]), 'E_ADD_TYPE': core.csym(FAM, ENTRIES[5][1]), 'E_GET_TYPE': core.csym(FAM, ENTRIES[6][1]),
         'E_GET_FUNCTION': core.csym(FAM, ENTRIES[7][1]), 'E_FUNCTION_EXISTS': core.csym(FAM, ENTRIES[8][1]), 'E_GET_FUNCTION_OBJECT': core.csym(FAM, ENTRIES[9][1]),
         'QFM_FIND_FUNS': msym(r'QuickFlatMap\w*St10shared_ptrISt6vector\w*9str_equalEE4findISt17basic_string_viewIcS5_EEEDaRKT_m$'),
         'QFM_COUNT_FUNS': msym(r'QuickFlatMap\w*St10shared_ptrISt6vector\w*9str_equalEE5countISt17basic_string_viewIcS5_EEEmRKT_$'),
         'QFM_FIND_BOXED': msym(r'QuickFlatMapINSt7__cxx1112basic_stringIcSt11char_traitsIcESaIcEEENS_11Boxed_ValueENS_9str_equalEE4findISt17basic_string_viewIcS5_EEEDaRKT_m$')}
    shapes = []
    for e, (nm, rx) in ENTRIES.items():
        wit = ['witness: entry returned', 'witness: a shared table was accessed'] + (['witness: entry left by exception'] if e in (1, 2, 5, 6, 9) else [])
        shapes.append(dict(d, ENTRY=e, _tag='entry=' + nm, _witness=tuple(wit)))
    from props import C19
    u = C19.use_harness(tier); u.name = 'K2.use(lock discipline and evaluate-once)'
    from props import C15
    k4 = C15.cow_harness(tier); k4.name = 'K4.add_function(published overload vectors are never written)'
    k4.note = 'get_function hands the shared_ptr<vector> of a name to its callers under the shared lock and they dispatch over it AFTER releasing it: the vector must be immutable once published (C15 U2 harness; same obligations)'
    from props import C15
    k6 = C15.basic_state_harness(); k6.name = 'K6.get_state/set_state(copies under the owning locks)'
    return [u, conversions_harness(), k4, add_function_harness(), k6, Harness('K1.lock_discipline', FAM, roots, 'c13_lock.c', stubs=STUBS, shapes=shapes, opts=['--unwind', '4'], timeout=300, mem_gb=6, string_model=True,
                    defines={'STRING_LITERALS_OPAQUE': 1}, inputs=['name', 'objd'], note='table operations are stubs asserting the lock state; outcome of find/insert is symbolic (found / not found, inserted / conflict)')]

ASSUMPTIONS = ['pthread_rwlock_* are a lock-state model; std::map member functions on engine tables are stubs that assert the lock mode and return arbitrary outcomes',
               'single-threaded symbolic execution: this shows a lock discipline (sufficient condition the code relies on), not absence of races by exploration']
OUTSIDE = ['schedule exploration (no engine here can run libstdc++ shared_mutex under a scheduler)', 'races on element payloads reached through pointers read under the lock',
           'entries not listed (get_functions, get_function_objects, ChaiScript_Basic::eval; add_function: C15 U2); more than two registered conversions']
