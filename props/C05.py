"""C05 — script arithmetic is C++ arithmetic; trapping operations raise arithmetic_error."""
import re
from irbmc import core
from irbmc.core import Family, Harness

# kind id (harness enum), C type, Itanium code, bits, signed, float
TYPES = {
    'int8':   (1, 'int8_t', 'a', 8, True, False),   'uint8':  (2, 'uint8_t', 'h', 8, False, False),
    'int16':  (3, 'int16_t', 's', 16, True, False), 'uint16': (4, 'uint16_t', 't', 16, False, False),
    'int32':  (5, 'int32_t', 'i', 32, True, False), 'uint32': (6, 'uint32_t', 'j', 32, False, False),
    'int64':  (7, 'int64_t', 'l', 64, True, False), 'uint64': (8, 'uint64_t', 'm', 64, False, False),
    'float':  (9, 'float', 'f', 32, True, True),    'double': (10, 'double', 'd', 64, True, True),
    'ldouble': (11, 'long double', 'e', 80, True, True),
}
DEM = {'int8': 'signed char', 'uint8': 'unsigned char', 'int16': 'short', 'uint16': 'unsigned short', 'int32': 'int', 'uint32': 'unsigned int',
       'int64': 'long', 'uint64': 'unsigned long', 'float': 'float', 'double': 'double', 'ldouble': 'long double'}

def promote(t):
    k, c, m, bits, sg, fl = TYPES[t]
    if fl: return t
    return 'int32' if bits < 32 else t

def common(l, r):
    """the usual arithmetic conversions of [expr.arith.conv] on an LP64 target — written independently of ChaiScript"""
    for f in ('ldouble', 'double', 'float'):
        if l == f or r == f: return f
    a, b = promote(l), promote(r)
    if a == b: return a
    (_, _, _, ba, sa, _), (_, _, _, bb, sb, _) = TYPES[a], TYPES[b]
    if sa == sb: return a if ba >= bb else b
    u, s = (a, b) if not sa else (b, a)
    bu, bs = TYPES[u][3], TYPES[s][3]
    if bu >= bs: return u
    return s   # signed type is wider, so it represents every value of the unsigned one

FK = {'float': 'float', 'double': 'double', 'ldouble': 'x86_fp80'}

def cvt(src, dst, x='x'):
    """C expression converting (x) of type src to type dst the way C++ does, using the leaf symbols of rt/verif_arith.h"""
    ks, cs, _, bs, ss, fs = TYPES[src]; kd, cd, _, bd, sd, fd = TYPES[dst]
    if src == dst: return '(%s)' % x
    if not fs and not fd: return '((%s)(%s))' % (cd, x)
    if not fs and fd: return '__VERIF_%s_%s((%s)(%s))' % ('SITOFP' if ss else 'UITOFP', FK[dst], 'int64_t' if ss else 'uint64_t', x)
    if fs and fd: return '__VERIF_FPCVT_%s_%s(%s)' % (FK[src], FK[dst], x)
    return '((%s)__VERIF_%s_%s_i%d(%s))' % (cd, 'FPTOSI' if sd else 'FPTOUI', FK[src], bd, x)

def conv_bounds(dst):
    """float -> integer dst is defined only when the truncated value fits; conservative closed/open bounds"""
    _, _, _, b, s, _ = TYPES[dst]
    lo = -(2 ** (b - 1)) if s else 0; hi = 2 ** (b - 1) if s else 2 ** b
    return ('%d.0L' % lo if s else '-1.0L'), '%d.0L' % hi, int(s)

def shape(l, r):
    kl, cl, ml, bl, sl, fl = TYPES[l]; kr, cr, mr, br, sr, fr = TYPES[r]
    art = common(l, r); ka, ca, _, ba, sa, fa = TYPES[art]
    sh = promote(l); ks, cs, _, bs, ss, _ = TYPES[sh]
    d = {'LT': cl, 'RT': cr, 'EXPK_ARITH': ka, 'EXPK_SHIFT': ks, 'ART': ca, 'SHT': cs, 'USHT': cs if not ss else 'u' + cs,
         'ARITH_SIGNED': int(sa and not fa), 'ARITH_FLOAT': int(fa), 'L_FLOAT': int(fl), 'R_FLOAT': int(fr), 'VERIF_UF_ARITH': 1,
         'CVT_L(x)': cvt(l, art), 'CVT_R(x)': cvt(r, art), 'CVT_RL(x)': cvt(r, l), 'BACK(x)': cvt(art, l)}
    if fa:
        k = FK[art]
        for n, o in (('ADD', 'FADD'), ('SUB', 'FSUB'), ('MUL', 'FMUL'), ('DIV', 'FDIV')): d['%s(x,y)' % n] = '__VERIF_%s_%s((x),(y))' % (o, k)
    else:
        u = ca if not sa else 'u' + ca
        d['ADD(x,y)'] = '((%s)((%s)(x) + (%s)(y)))' % (ca, u, u); d['SUB(x,y)'] = '((%s)((%s)(x) - (%s)(y)))' % (ca, u, u)
        d['MUL(x,y)'] = '((%s)__VERIF_MUL_i%d((%s)(x), (%s)(y)))' % (ca, ba, u, u)
        d['DIV(x,y)'] = '((%s)__VERIF_%sDIV_i%d((%s)(x), (%s)(y)))' % (ca, 'S' if sa else 'U', ba, u, u)
        d['REM(x,y)'] = '((%s)__VERIF_%sREM_i%d((%s)(x), (%s)(y)))' % (ca, 'S' if sa else 'U', ba, u, u)
        if sa: d['ART_MIN'] = 'INT32_MIN' if ba == 32 else 'INT64_MIN'
        if not sl and not sr and bl < 32 and br < 32:
            # both operands are zero-extended narrow unsigned values: LLVM turns the signed 32-bit division of two non-negative values into an
            # unsigned one and narrows it to the operand width; the three uninterpreted symbols denote the same quotient / remainder
            w = max(bl, br)
            d['DIVREM_NARROW_LEMMA(x,y)'] = ('((y) == 0 || (__VERIF_SDIV_i32((uint32_t)(x),(uint32_t)(y)) == __VERIF_UDIV_i32((uint32_t)(x),(uint32_t)(y)) && __VERIF_UDIV_i32((uint32_t)(x),(uint32_t)(y)) == (uint32_t)__VERIF_UDIV_i%d((uint%d_t)(x),(uint%d_t)(y))'
                                             ' && __VERIF_SREM_i32((uint32_t)(x),(uint32_t)(y)) == __VERIF_UREM_i32((uint32_t)(x),(uint32_t)(y)) && __VERIF_UREM_i32((uint32_t)(x),(uint32_t)(y)) == (uint32_t)__VERIF_UREM_i%d((uint%d_t)(x),(uint%d_t)(y))))') % (w, w, w, w, w, w)
        if bl < ba:
            # axiom instance of two's complement multiplication (LLVM narrows trunc(mul wide) to mul narrow):
            ul = cl if not sl else 'u' + cl
            d['MUL_NARROW_LEMMA(x,y)'] = '((%s)MUL((x),(y)) == (%s)__VERIF_MUL_i%d((%s)(%s)(x), (%s)(%s)(y)))' % (cl, cl, bl, ul, cl, ul, cl)
    if fa and not fl:
        d['CONV_LO'], d['CONV_HI'], d['CONV_LO_INCL'] = conv_bounds(l); d['CONV_CHECK'] = 1
    if fr and not fl:
        d['CONVR_LO'], d['CONVR_HI'], _ = conv_bounds(l); d['CONVR_CHECK'] = 1
        if not sl: d['CONVR_LO'] = '0.0L'
    return d

_replayer = None
def replayer():
    """native g++ build of replay/c05_replay.cpp against /repo's headers (cached per header hash)"""
    import os
    src = os.path.join(core.VERIF, 'replay', 'c05_replay.cpp')
    exe = os.path.join(core.CACHE, 'replay', 'c05_replay.' + core.sha(core.repo_hash(), core.fread(src)))
    with core.klock(exe):
        if not os.path.exists(exe):
            os.makedirs(os.path.dirname(exe), exist_ok=True)
            r = core.run(['g++', '-std=c++20', '-O0', '-fwrapv', '-w', '-I' + os.path.join(core.REPO, 'include'), src, '-o', exe + '.tmp'])
            if r.returncode != 0: raise core.BuildError('c05_replay does not build: ' + r.stderr[-1500:])
            os.replace(exe + '.tmp', exe)
    return exe

def make_replay(l, r):
    def replay(inp, shape, failed):
        need = ('a', 'b', 'op', 'lhs_mutable')
        if any(n not in inp for n in need): return None, 'inputs missing from trace: %s' % sorted(inp)
        a = inp['a'].get('hex'); b = inp['b'].get('hex')
        if a is None or b is None: return None, 'no bit pattern in trace'
        op = int(re.sub(r'\D', '', inp['op']['v'])); mut = int(re.sub(r'\D', '', inp['lhs_mutable']['v'])) & 1
        cmd = [replayer(), l, r, str(op), a, b, str(mut)]
        res = core.run(cmd, timeout=60)
        return (True if res.returncode == 1 else False if res.returncode == 0 else None), ' '.join(cmd[1:]) + ' -> ' + res.stdout.replace('\n', ' | ')
    return replay

def go_regex(l, r):
    return r'^auto chaiscript::Boxed_Number::go<%s, %s>\(' % (DEM[l], DEM[r])

NOINLINE = [r'chaiscript::Boxed_Number::go<', r'chaiscript::Boxed_Number::oper\(', r'chaiscript::Boxed_Number::Boxed_Number\(', r'chaiscript::boxed_cast<bool>', r'chaiscript::Boxed_Value::~Boxed_Value', r'chaiscript::const_var', r'arithmetic_error::arithmetic_error', r'bad_any_cast::bad_any_cast',
            r'basic_string<.*>::basic_string<std::allocator<char> >\(char const\*']
FAM = Family('number', 'number.cpp', noinline=NOINLINE)

HARD_OPS = ['product', 'quotient', 'remainder', 'assign_product', 'assign_quotient', 'assign_remainder']
QUICK_TYPES = ['int32', 'uint32', 'int64', 'uint64', 'int8', 'double']
ALL_TYPES = list(TYPES)

# C++ static types the engine registers as arithmetic: Itanium typeinfo code -> common type (independent table; 0 = not arithmetic for Boxed_Number)
CXX_TYPES = [('i', 'int32'), ('d', 'double'), ('e', 'ldouble'), ('f', 'float'), ('c', 'int8'), ('h', 'uint8'), ('j', 'uint32'), ('l', 'int64'), ('x', 'int64'), ('m', 'uint64'),
             ('y', 'uint64'), ('a', 'int8'), ('s', 'int16'), ('t', 'uint16'), ('w', 'int32'), ('Ds', 'uint16'), ('Di', 'uint32'), ('b', None), ('NSt7__cxx1112basic_stringIcSt11char_traitsIcESaIcEEE', None)]

def oper_harness(tier='quick'):
    import os
    syms = core.find_symbols(FAM, r'^auto chaiscript::Boxed_Number::go<')
    rev = {v: k for k, v in DEM.items()}
    lines = ['/* generated by props/C05.py from the IR of the current tree */', 'static int go_calls, go_l, go_r; static uint32_t go_op; static char *go_bv, *go_tlhs, *go_clhs, *go_crhs;']
    import re
    for m, d in syms:
        mm = re.match(r'^auto chaiscript::Boxed_Number::go<([^,]+), ([^>]+)>', d)
        l, r = rev[mm.group(1)], rev[mm.group(2)]
        lines.append('void F_%s(char* sret, uint32_t op, char* bv, char* tl, char* cl, char* cr) { go_calls++; go_l = %d; go_r = %d; go_op = op; go_bv = bv; go_tlhs = tl; go_clhs = cl; go_crhs = cr; ((struct BV*)sret)->p = 0; ((struct BV*)sret)->pn = 0; }'
                     % (core.cname(m), TYPES[l][0], TYPES[r][0]))
    lines.append('#define NTYPES %d' % len(CXX_TYPES))
    # arithmetic types: the very typeinfo objects the translated code compares against (one object per type, as after linking);
    # the two non-arithmetic ones are harness objects (leading '*': compared by address, like every typeinfo in this model)
    for code, k in CXX_TYPES:
        if not k: lines.append('struct verif_ti tobj_%s = {0, "*%s"};' % (core.cname(code), code[:12]))
    lines.append('static char* type_objs[NTYPES] = { %s };' % ', '.join(('(char*)&g__ZTI%s' % core.cname(c)) if k else ('(char*)&tobj_%s' % core.cname(c)) for c, k in CXX_TYPES))
    lines.append('static const int type_common[NTYPES] = { %s };' % ', '.join(str(TYPES[k][0]) if k else '0' for _, k in CXX_TYPES))
    def pre(workdir):
        os.makedirs(workdir, exist_ok=True); open(os.path.join(workdir, 'c05_go_stubs.h'), 'w').write('\n'.join(lines) + '\n')
    rx = r'^chaiscript::Boxed_Number::oper\(chaiscript::Operators::Opers, chaiscript::Boxed_Value const&, chaiscript::Boxed_Value const&\)'
    h = Harness('A2.oper', FAM, [rx], 'c05_oper.c', stubs=[r'chaiscript::Boxed_Number::go<', r'bad_any_cast::bad_any_cast', r'chaiscript::Boxed_Value::~Boxed_Value'],
                shapes=[dict(OPER2=core.csym(FAM, rx), LT_FIX=i, RT_FIX=j, _tag='lhs=%s,rhs=%s' % (c[:6], c2[:6]),
                             _witness=(('witness: dispatched', 'witness: const left operand') if (k and k2) else ('witness: non-arithmetic operand',)))
                        for i, (c, k) in enumerate(CXX_TYPES) for j, (c2, k2) in enumerate(CXX_TYPES) if tier != 'quick' or (i % 3 == j % 3) or not k or not k2],
                opts=['--unwind', '12'], timeout=600, mem_gb=8, inputs=['lt', 'rt', 'lconst', 'lret', 'op'], note='static types of both operands symbolic over %d registered types; constness and return-value flag symbolic' % len(CXX_TYPES))
    h.pre = pre
    return h

def unary_harness(l):
    idx, ct, code, bits, signed, isf = TYPES[l]
    rx = r"Boxed_Number::oper\(chaiscript::Operators::Opers, chaiscript::Boxed_Value const&\)::'lambda'\(auto const&\)::operator\(\)<%s>\(auto const&\) const$" % DEM[l]
    prom = l if (isf or bits >= 32) else 'int32'
    pidx, pct, pcode, pbits, psigned, pisf = TYPES[prom]
    field = {'int32': 'i32', 'uint32': 'u32', 'int64': 'i64', 'uint64': 'u64', 'float': 'f', 'double': 'd', 'ldouble': 'ld'}[prom]
    irk = {'float': 'float', 'double': 'double', 'ldouble': 'x86_fp80'}
    d = {'UNARY': core.csym(FAM, rx), 'LT': ct if not isf else {'float': 'float', 'double': 'double', 'ldouble': 'long double'}[l], 'PT': pct if not pisf else {'float': 'float', 'double': 'double', 'ldouble': 'long double'}[prom],
         'K_P': 'K_' + prom, 'P_FIELD': field, 'IS_FLOAT': int(isf), 'P_SIGNED': int(psigned and not pisf), 'L_SIGNED': int(signed and not isf and bits >= 32), 'VERIF_UF_ARITH': 1}
    if isf:
        d['NEG(x)'] = '__VERIF_FNEG_%s(x)' % irk[l]; d['INC(x)'] = '__VERIF_FADD_%s((x), 1.0)' % irk[l]; d['DEC(x)'] = '__VERIF_FADD_%s((x), -1.0)' % irk[l]; d['E_NOT'] = 'e_plus'
    else:
        u = 'uint%d_t' % pbits; ul = 'uint%d_t' % bits
        d['NEG(x)'] = '((%s)(0 - (%s)(x)))' % (pct, u); d['INC(x)'] = '((%s)((%s)(x) + 1))' % (ct, ul); d['DEC(x)'] = '((%s)((%s)(x) - 1))' % (ct, ul); d['E_NOT'] = 'e_not'
        d['P_MIN'] = '((%s)((%s)1 << %d))' % (pct, u, pbits - 1)
        if signed and bits >= 32: d['L_MAX'] = '((%s)(((%s)1 << %d) - 1))' % (ct, ul, bits - 1); d['L_MIN'] = '((%s)((%s)1 << %d))' % (ct, ul, bits - 1)
    wit = ('witness: in place', 'witness: value', 'witness: const refused', 'witness: refused')
    h = Harness('A5.unary<%s>' % l, FAM, [rx], 'c05_unary.c', stubs=[r'chaiscript::const_var', r'bad_any_cast::bad_any_cast', r'chaiscript::Boxed_Value::~Boxed_Value'], shapes=[dict(d, _tag='all-ops', _witness=wit)], opts=['--unwind', '4'], timeout=240, mem_gb=6,
                inputs=['a', 'op', 'is_const'], note='every value of the operand type, all 33 operator codes, const or mutable operand')
    return h

W2 = ['equals','less_than','greater_than','greater_than_equal','less_than_equal','not_equal','sum','difference','assign_bitwise_and','assign','assign_bitwise_or','assign_bitwise_xor','assign_remainder','assign_shift_left','assign_shift_right','bitwise_and','bitwise_xor','bitwise_or','assign_product','assign_quotient','assign_sum','assign_difference','quotient','shift_left','product','remainder','shift_right']
W1 = ['pre_decrement','pre_increment','unary_plus','unary_minus','bitwise_complement']
def wrapper_harness():
    BN = r'^chaiscript::Boxed_Number::'
    stubs = [r'chaiscript::Boxed_Number::oper\(', r'chaiscript::Boxed_Number::Boxed_Number\(', r'chaiscript::boxed_cast<']
    roots = [BN + r'(%s)\(' % '|'.join(W2 + W1)]
    d = {'OPER2': core.csym(FAM, BN + r'oper\(chaiscript::Operators::Opers, chaiscript::Boxed_Value const&, chaiscript::Boxed_Value const&\)$'), 'OPER1': core.csym(FAM, BN + r'oper\(chaiscript::Operators::Opers, chaiscript::Boxed_Value const&\)$'),
         'BN_CTOR': core.csym(FAM, BN + r'Boxed_Number\(chaiscript::Boxed_Value\)$'), 'BOXED_CAST_BOOL': core.csym(FAM, r'chaiscript::boxed_cast<bool>\(')}
    shapes = []
    for n in W2 + W1:
        kind = 1 if n in W2[:6] else 2 if n in W2 else 3
        shapes.append(dict(d, KIND=kind, NAME='OP_' + n, WRAPPER=core.csym(FAM, BN + n + r'\('), _tag=n, _witness=('witness: wrapper ran',)))
    return Harness('A4.named_operator_functions', FAM, roots, 'c05_wrappers.c', stubs=stubs, cuts=[r'chaiscript::Boxed_Value::~Boxed_Value'], shapes=shapes, opts=['--unwind', '4'], timeout=60, mem_gb=4, inputs=[], note='Boxed_Number::oper is a recorder of (operator code, operands)')

def harnesses(tier):
    hs = [oper_harness(tier), wrapper_harness()] + [unary_harness(l) for l in ALL_TYPES]
    from props import C03
    for k in (1, 2, 3):
        h = C03.operator_node_harness(k); h.name = 'A6.route.' + h.name[3:]; hs.append(h)      # the runtime operator nodes compute do_oper(code, operands in order): route agreement
    types = QUICK_TYPES if tier == 'quick' else ALL_TYPES
    for l in types:
        for r in types:
            sym = core.csym(FAM, go_regex(l, r))
            sh = shape(l, r); sh['GO'] = sym
            shapes = [dict(sh, _tag='all-ops')]
            hs.append(Harness('A3.go<%s,%s>' % (l, r), FAM, [go_regex(l, r)], 'c05_go.c', stubs=NOINLINE, shapes=shapes, timeout=240, mem_gb=6,
                              inputs=['a', 'b', 'op', 'lhs_mutable'], replay=make_replay(l, r),
                              required_witness=('witness: ',),
                              note='all values of both operand types, all 33 operator codes, lhs mutable or not'))
    return hs

ASSUMPTIONS = [
    'clang-14 -O1 lowering of boxed_number.hpp (libstdc++-12 headers) is the code checked; users compile with g++',
    'const_var<T>/const_var(bool) are recorder stubs (their own boxing is covered under C07); exception constructors and message strings are cut',
    'inputs excluded as the property says: signed overflow of + - *, shift counts outside [0, width), float->integer conversions whose truncated value does not fit',
    'float/double/long double results are compared with the same C operation on the same operands (CBMC IEEE model; long double as CBMC models x86 extended)',
]
OUTSIDE = ['char/wchar_t/char16_t/char32_t/long long and the intN_t aliases map onto the 11 common types by get_common_type (A1)',
           'value formatting (to_string) of numbers']
