"""C09 — every evaluation leaves the engine's scope/call stack as it found it."""
import re
from irbmc import core
from irbmc.core import Harness
from props.engine_family import FAM, DE

NODE_STUBS = [r'AST_Node_Impl<.*>::eval\(', r'chaiscript::AST_Node::get_bool_condition', DE + r'(new_scope|pop_scope)\(', r'chaiscript::const_var', r'chaiscript::void_var']
NODE_CUTS = [r'eval_error::', r'chaiscript::detail::Dispatch_State::\w+\(', r'Boxed_Value::~Boxed_Value', r'chaiscript::Boxed_Value::Object_Data::get\(\)']
KINDS = {7: ('For', 'For_AST_Node'), 8: ('Switch', 'Switch_AST_Node'), 9: ('Case', 'Case_AST_Node'), 10: ('Default', 'Default_AST_Node'), 1: ('Block', 'Block_AST_Node'), 6: ('Scopeless_Block', 'Scopeless_Block_AST_Node'), 2: ('If', 'If_AST_Node'), 3: ('While', 'While_AST_Node'), 4: ('Logical_And', 'Logical_And_AST_Node'), 5: ('Logical_Or', 'Logical_Or_AST_Node')}
WIT = {1: ('witness: statement throws', 'witness: block completes'), 6: ('witness: statement throws', 'witness: block completes'),
       2: ('witness: condition throws', 'witness: condition not bool', 'witness: branch selected'), 3: ('witness: loop left by exception', 'witness: loop ends', 'witness: break', 'witness: second iteration'),
       4: ('witness: lhs fails', 'witness: short circuit', 'witness: rhs evaluated'), 5: ('witness: lhs fails', 'witness: short circuit', 'witness: rhs evaluated'),
       7: ('witness: loop left by exception', 'witness: loop ends', 'witness: break', 'witness: second iteration', 'witness: continue runs the step'),
       9: ('witness: body completes', 'witness: body throws'), 10: ('witness: body completes', 'witness: body throws')}

def node_harness(kind):
    nm, cls = KINDS[kind]
    rx = r'chaiscript::eval::' + cls + r'<.*>::eval_internal\(chaiscript::detail::Dispatch_State const&\) const$'
    d = {'KIND': kind, 'NODE_EVAL': core.csym(FAM, rx), 'NEW_SCOPE': core.csym(FAM, DE + r'new_scope\(chaiscript::detail::Stack_Holder&\)'), 'POP_SCOPE': core.csym(FAM, DE + r'pop_scope\(chaiscript::detail::Stack_Holder&\)'),
         'GET_BOOL': core.csym(FAM, r'chaiscript::AST_Node::get_bool_condition\('), 'STRING_LITERALS_OPAQUE': 1}
    vv = core.find_symbols(FAM, r'^chaiscript::void_var\(\)')
    if vv: d['VOID_VAR'] = 'F_' + core.cname(vv[0][0])
    if kind == 3:
        br = core.find_symbols(FAM, r'^typeinfo for chaiscript::eval::detail::Break_Loop'); 
        d['TI_BREAK'] = '((char*)&g__ZTIN10chaiscript4eval6detail10Break_LoopE)'; d['TI_CONTINUE'] = '((char*)&g__ZTIN10chaiscript4eval6detail13Continue_LoopE)'
    stubs = list(NODE_STUBS); opts = ['--unwind', '7', '--unwindset', 'log_count.0:26,main.0:8,main.1:9']
    if kind in (7, 8):
        d['TI_BREAK'] = '((char*)&g__ZTIN10chaiscript4eval6detail10Break_LoopE)'
        if kind == 7: d['TI_CONTINUE'] = '((char*)&g__ZTIN10chaiscript4eval6detail13Continue_LoopE)'
    if kind == 8:
        stubs += [r'chaiscript::boxed_cast<', DE + r'call_function\(']
        d['CALL_FUNCTION'] = core.csym(FAM, DE + r'call_function\(std::basic_string_view'); d['BOXED_CAST_BOOL'] = core.csym(FAM, r'chaiscript::boxed_cast<bool>\('); d['NNODES'] = 8
        opts = ['--unwind', '7', '--unwindset', 'log_count.0:26,main.0:10,main.1:9,main.2:10,main.3:10']
    if kind == 8:
        shapes = [dict(d, NCASE=n, _tag='cases=%d' % n, _witness=('witness: switch left by exception', 'witness: break', 'witness: matched', 'witness: nothing matched') + (('witness: fall through into default',) if n >= 2 else ())) for n in (1, 2, 3)]
    elif kind in (1, 6): shapes = [dict(d, NCH=n, _tag='children=%d' % n, _witness=WIT[kind]) for n in (1, 2, 3)]
    else: shapes = [dict(d, _tag='all', _witness=WIT[kind])]
    h = Harness('N.' + nm, FAM, [rx], 'c09_node.c', stubs=stubs, cuts=NODE_CUTS, shapes=shapes, opts=opts, timeout=600, mem_gb=8,
                   string_model=True, inputs=['behav', 'cond_vals', 'cond_throw_at'], note='children abstract (return / throw 7-9 kinds); conditions from an oracle; loops bounded to 3 iterations')
    h.need_globals = ['_ZTIN10chaiscript9exception10eval_errorE', '_ZTIN10chaiscript11Boxed_ValueE']
    return h

def ranged_for_harness():
    import re
    rx = r'chaiscript::eval::Ranged_For_AST_Node<.*>::eval_internal\(chaiscript::detail::Dispatch_State const&\) const$'
    stubs = list(NODE_STUBS) + [r'chaiscript::boxed_cast<', DE + r'get_function\(', r'chaiscript::dispatch::dispatch<', r'std::_Rb_tree_increment', r'chaiscript::Boxed_Value::Boxed_Value<std::reference_wrapper']
    g, info = core.translate(FAM, [rx], stubs, tag='RF_probe', cuts=NODE_CUTS)
    ext = [e.split('|')[0].strip() for e in info['ext']]
    def one(pat):
        m = [e for e in ext if re.search(pat, e)]
        if len(m) != 1: raise core.BuildError('C09 Ranged_For: expected exactly one external matching %s, found %d' % (pat, len(m)))
        return 'F_' + core.cname(m[0])
    d = {'NODE_EVAL': core.csym(FAM, rx), 'NEW_SCOPE': core.csym(FAM, DE + r'new_scope\(chaiscript::detail::Stack_Holder&\)'), 'POP_SCOPE': core.csym(FAM, DE + r'pop_scope\(chaiscript::detail::Stack_Holder&\)'),
         'VOID_VAR': one(r'^_ZN10chaiscript8void_varEv$'), 'GET_FUNCTION': one(r'15Dispatch_Engine12get_functionE'), 'DISPATCH': one(r'^_ZN10chaiscript8dispatch8dispatchISt6vector'),
         'CAST_BOOL': one(r'^_ZN10chaiscript10boxed_castIbEE'), 'CAST_VECTOR': one(r'^_ZN10chaiscript10boxed_castIRKSt6vector'), 'CAST_MAP': one(r'^_ZN10chaiscript10boxed_castIRKSt3map'),
         'BV_FROM_PAIR_REF': one(r'^_ZN10chaiscript11Boxed_ValueC2ISt17reference_wrapperIKSt4pair'),
         'TI_BREAK': '((char*)&g__ZTIN10chaiscript4eval6detail10Break_LoopE)', 'TI_CONTINUE': '((char*)&g__ZTIN10chaiscript4eval6detail13Continue_LoopE)',
         'TI_VECTOR': '((char*)&g__ZTISt6vectorIN10chaiscript11Boxed_ValueESaIS1_EE)', 'TI_MAP': '((char*)&g__ZTISt3mapINSt7__cxx1112basic_stringIcSt11char_traitsIcESaIcEEEN10chaiscript11Boxed_ValueESt4lessIS5_ESaISt4pairIKS5_S7_EEE)',
         'VERIF_STRCMP_BY_IDENTITY': 1}
    W = ('witness: left by exception', 'witness: break', 'witness: continue then next element', 'witness: empty range', 'witness: ran to the end')
    h = Harness('N.Ranged_For', FAM, [rx], 'c09_ranged_for.c', stubs=stubs, cuts=NODE_CUTS, shapes=[dict(d, ROUTE=r, _tag='route=' + nm, _witness=W) for r, nm in ((0, 'generic range'), (1, 'Vector'), (2, 'Map'))],
                opts=['--unwind', '6', '--unwindset', 'log_count.0:26,main.0:6,main.1:6,main.2:6,main.3:6,main.4:6,streq.0:10,streq.1:11'], timeout=900, mem_gb=10, string_model=True,
                inputs=['body_beh', 'range_beh', 'empty_beh', 'empty_val', 'front_beh', 'pop_beh', 'cast_throw_at', 'n_elems'],
                note='up to 3 iterations (generic route) / 0-2 elements (Vector, Map); every range function call and the body return or throw per call; add_get_object (binding the loop variable) is cut with the other Dispatch_State members')
    h.need_globals = ['_ZTIN10chaiscript9exception10eval_errorE', '_ZTIN10chaiscript11Boxed_ValueE', '_ZTISt6vectorIN10chaiscript11Boxed_ValueESaIS1_EE', '_ZTISt3mapINSt7__cxx1112basic_stringIcSt11char_traitsIcESaIcEEEN10chaiscript11Boxed_ValueESt4lessIS5_ESaISt4pairIKS5_S7_EEE']
    return h

def eval_function_harness(tier='quick', subset=False):
    """the frame of every script function / lambda / method / guard: real eval::detail::eval_function"""
    rx = r'chaiscript::eval::detail::eval_function<'
    stubs = [r'AST_Node_Impl<.*>::eval\(', r'Stack_Push_Pop::', r'chaiscript::detail::Dispatch_State::(add_object|stack_holder|Dispatch_State)\(', r'std::_Rb_tree_increment']
    g, info = core.translate(FAM, [rx], stubs + core.STRING_MODEL, tag='EF_probe', cuts=[r'Boxed_Value::~Boxed_Value'])
    ext = [e.split('|')[0].strip() for e in info['ext']]
    def one(pat):
        m = [e for e in ext if re.search(pat, e)]
        if len(m) != 1: raise core.BuildError('C09 eval_function: expected exactly one external matching %s, found %d' % (pat, len(m)))
        return 'F_' + core.cname(m[0])
    d = {'EVAL_FUNCTION': core.csym(FAM, rx), 'DS_CTOR': one(r'14Dispatch_StateC[12]E'), 'STACK_HOLDER': one(r'14Dispatch_State12stack_holderEv'), 'SPP_CTOR': one(r'14Stack_Push_PopC[12]E'), 'SPP_DTOR': one(r'14Stack_Push_PopD[12]E'),
         'ADD_OBJECT': one(r'14Dispatch_State10add_objectE'), 'RB_INCREMENT': one(r'_Rb_tree_increment'), 'NODE_EVAL_CHILD': one(r'13AST_Node_Impl.*4evalERKNS_6detail14Dispatch_StateE$')}
    W = ('witness: binding throws', 'witness: body returns', 'witness: return statement', 'witness: body throws')
    shapes = []
    for np_ in (0, 1, 2):
        for nl in (-1, 0, 1, 2):
            for top in (0, 1):
                if tier == 'quick' and ((nl == 2 and np_ == 2) or (nl == 0 and top == 0)): continue
                if subset and tier == 'quick' and (np_, nl, top) not in ((2, 1, 1), (1, -1, 1), (2, -1, 0), (0, 2, 1), (0, -1, 0)): continue      # the full shape list runs under C09
                w = W + (('witness: attribute-held this',) if top else ()) + (('witness: two bindings',) if np_ + max(nl, 0) >= 2 else ())
                if np_ + max(nl, 0) == 0 and top == 0: w = tuple(x for x in w if x != 'witness: binding throws')
                shapes.append(dict(d, NP=np_, NL=nl, TOP=top, _tag='params=%d,captures=%s,caller scope entries=%d' % (np_, 'none' if nl < 0 else nl, top), _witness=w))
    h = Harness('N.eval_function', FAM, [rx], 'c03_eval_function.c', stubs=stubs, cuts=[r'Boxed_Value::~Boxed_Value'], shapes=shapes,
                opts=['--unwind', '10', '--unwindset', 'F_memcmp.0:8'], timeout=600, mem_gb=8, string_model=True,
                inputs=['body_beh', 'add_throw_at', 'has_this_capture', 'names', 'top_entry'],
                note='0-2 parameters (names symbolic, 1-5 bytes, possibly "this"), captures map absent / 0-2 entries, caller scope empty or ending in one entry with a symbolic name (possibly "__this"); body returns / return statement / 6 exception kinds; a binding may throw at any position')
    h.need_globals = ['_ZTIN10chaiscript9exception10eval_errorE', '_ZTIN10chaiscript11Boxed_ValueE', '_ZTIN10chaiscript4eval6detail12Return_ValueE']
    return h

CARRIERS = {1: ('Return', 'Return_AST_Node'), 2: ('Break', 'Break_AST_Node'), 3: ('Continue', 'Continue_AST_Node'), 4: ('File', 'File_AST_Node'), 5: ('Id', 'Id_AST_Node'), 6: ('Var_Decl', 'Var_Decl_AST_Node'),
            7: ('Reference', 'Reference_AST_Node'), 8: ('Global_Decl', 'Global_Decl_AST_Node')}
def carrier_harness(kind):
    """the small statement nodes: Return / Break / Continue / File / Id / Var_Decl / Reference / Global_Decl"""
    nm, cls = CARRIERS[kind]
    rx = r'chaiscript::eval::' + cls + r'<.*>::eval_internal\(chaiscript::detail::Dispatch_State const&\) const$'
    stubs = [r'AST_Node_Impl<.*>::eval\(', r'chaiscript::detail::Dispatch_State::\w+\(', r'chaiscript::void_var', r'chaiscript::Boxed_Value::Object_Data::get\(\)', DE + r'add_global_no_throw']
    cuts = [r'eval_error::', r'Boxed_Value::~Boxed_Value', r'name_conflict_error::']
    g, info = core.translate(FAM, [rx], stubs + core.STRING_MODEL, tag='CR_probe', cuts=cuts)
    ext = [e.split('|')[0].strip() for e in info['ext']]
    def opt(pat):
        m = [e for e in ext if re.search(pat, e)]
        if len(m) > 1: raise core.BuildError('C09 carriers: %d externals match %s' % (len(m), pat))
        return ('F_' + core.cname(m[0])) if m else None
    TI = {'TI_BREAK': '_ZTIN10chaiscript4eval6detail10Break_LoopE', 'TI_CONTINUE': '_ZTIN10chaiscript4eval6detail13Continue_LoopE', 'TI_RETURN_VALUE': '_ZTIN10chaiscript4eval6detail12Return_ValueE',
          'TI_NAME_CONFLICT': '_ZTIN10chaiscript9exception19name_conflict_errorE'}
    d = {'KIND': kind, 'NODE_EVAL': core.csym(FAM, rx), 'STRING_LITERALS_OPAQUE': 1}
    for k, pat in (('NODE_EVAL_CHILD', r'13AST_Node_Impl.*4evalERKNS_6detail14Dispatch_StateE$'), ('VOID_VAR', r'^_ZN10chaiscript8void_varEv$'), ('OD_GET_UNDEF', r'11Object_Data3getEv$'), ('GET_OBJECT', r'14Dispatch_State10get_objectE'),
                   ('ADD_OBJECT', r'14Dispatch_State10add_objectE'), ('ADD_GLOBAL_NO_THROW', r'19add_global_no_throwE')):
        v = opt(pat); d[k] = v if v else 'unused_' + k.lower()
    for k, v in TI.items(): d[k] = '((char*)&g_%s)' % v
    W = {1: {0: ('witness: return',), 1: ('witness: return', 'witness: expression throws')}, 2: {0: ('witness: signal',)}, 3: {0: ('witness: signal',)},
         4: {0: ('witness: completes',), 1: ('witness: completes', 'witness: stray loop control', 'witness: statement throws'), 2: ('witness: completes', 'witness: stray loop control', 'witness: statement throws'), 3: ('witness: completes', 'witness: stray loop control', 'witness: statement throws')},
         5: {0: ('witness: found', 'witness: foreign exception', 'witness: not found')}, 6: {1: ('witness: declared', 'witness: redefinition', 'witness: other exception')}, 7: {1: ('witness: declared', 'witness: other exception')},
         8: {1: ('witness: reference form', 'witness: plain form')}}
    shapes = [dict(d, NCH=n, _tag='children=%d' % n, _witness=w) for n, w in W[kind].items()]
    h = Harness('N.' + nm, FAM, [rx], 'c03_carriers.c', stubs=stubs, cuts=cuts, shapes=shapes, opts=['--unwind', '8'], timeout=300, mem_gb=6, string_model=True, inputs=['behav', 'lookup_beh', 'add_beh'],
                note='children abstract (value / eval_error / runtime_error / out_of_range / std::exception / Boxed_Value / foreign / Break_Loop / Continue_Loop / Return_Value); engine calls (get_object, add_object, add_global_no_throw) are recorders that return or throw')
    h.need_globals = ['_ZTIN10chaiscript9exception10eval_errorE', '_ZTIN10chaiscript11Boxed_ValueE'] + list(TI.values())
    return h

def guards_harness():
    """S1: the real RAII guards Scope_Push_Pop / Function_Push_Pop / Stack_Push_Pop over counter stubs of the primitives"""
    G = r'chaiscript::eval::detail::'
    DSt = r'chaiscript::detail::Dispatch_State const&'
    stubs = [r'chaiscript::detail::Dispatch_State::\w+\(', DE + r'(new_scope|pop_scope|new_stack|pop_stack|new_function_call|pop_function_call|save_function_params)\(']
    names = {1: 'Scope_Push_Pop', 2: 'Function_Push_Pop', 3: 'Stack_Push_Pop'}
    roots = []
    for n in names.values(): roots += [G + n + r'::' + n + r'\(' + DSt + r'\)$', G + n + r'::~' + n + r'\(\)$']
    roots.append(G + r'Function_Push_Pop::save_params\(')
    g, info = core.translate(FAM, roots, stubs + core.STRING_MODEL, tag='S1_probe', cuts=[r'eval_error::'])
    ext = [e.split('|')[0].strip() for e in info['ext']]
    def one(pat):
        m = [e for e in ext if re.search(pat, e)]
        if len(m) != 1: raise core.BuildError('C09 S1: expected exactly one external matching %s, found %d' % (pat, len(m)))
        return 'F_' + core.cname(m[0])
    d = {'DS_STACK_HOLDER': one(r'14Dispatch_State12stack_holderEv'), 'DS_CONV_SAVES': one(r'14Dispatch_State16conversion_savesEv'), 'NEW_SCOPE': one(r'15Dispatch_Engine9new_scopeE'), 'POP_SCOPE': one(r'15Dispatch_Engine9pop_scopeE'),
         'NEW_STACK': one(r'15Dispatch_Engine9new_stackE'), 'POP_STACK': one(r'15Dispatch_Engine9pop_stackE'), 'NEW_CALL': one(r'15Dispatch_Engine17new_function_callE'), 'POP_CALL': one(r'15Dispatch_Engine17pop_function_callE'),
         'SAVE_PARAMS': one(r'15Dispatch_Engine20save_function_paramsERKNS_15Function_ParamsE')}
    shapes = []
    for k, n in names.items():
        shapes.append(dict(d, GUARD=k, G_CTOR=core.csym(FAM, G + n + r'::' + n + r'\(' + DSt + r'\)$'), G_DTOR=core.csym(FAM, G + n + r'::~' + n + r'\(\)$'), G_SAVE=core.csym(FAM, G + r'Function_Push_Pop::save_params\('),
                           _tag=n, _witness=('witness: constructed and destroyed',)))
    for sh in shapes: sh['STRING_LITERALS_OPAQUE'] = 1
    return Harness('S1.guards(push in the constructor, pop in the destructor)', FAM, roots, 'c09_guards.c', stubs=stubs, cuts=[r'eval_error::'], string_model=True, shapes=shapes, opts=['--unwind', '4'], timeout=120, mem_gb=4, inputs=['d0'],
                   note='call depth symbolic; the six primitives are counters that move the holder (their real code: S0)')

def stack_harness(tier):
    SH = r'chaiscript::detail::Stack_Holder&'
    names = {1: 'new_scope', 2: 'pop_scope', 3: 'new_stack', 4: 'pop_stack', 5: 'new_function_call', 6: 'pop_function_call', 7: 'new_scope+pop_scope'}
    roots = [DE + r'new_scope\(' + SH + r'\)$', DE + r'pop_scope\(' + SH + r'\)$', DE + r'new_stack\(' + SH + r'\)$', DE + r'pop_stack\(' + SH + r'\)$', DE + r'new_function_call\(' + SH, DE + r'pop_function_call\(' + SH]
    stubs = [DE + r'save_function_params\(std::vector']
    d = {'F_NEW_SCOPE': core.csym(FAM, roots[0]), 'F_POP_SCOPE': core.csym(FAM, roots[1]), 'F_NEW_STACK': core.csym(FAM, roots[2]), 'F_POP_STACK': core.csym(FAM, roots[3]), 'F_NEW_CALL': core.csym(FAM, roots[4]), 'F_POP_CALL': core.csym(FAM, roots[5]),
         'SAVE_PARAMS_VEC': core.csym(FAM, DE + r'save_function_params\(std::vector')}
    shapes = []
    for op, nm in names.items():
        for ns in (1, 2):
            for sc in ((1, 2) if op in (1, 2, 7) else (1,)):
                for spare in (0, 1):
                    if op == 4 and ns == 1: continue       # the outermost stack is never popped
                    wit = ('witness: outermost', 'witness: nested') if op in (5, 6) else ('witness: done',)
                    for nsv in ((0, 2) if op in (5, 6) else (1,)):       # conversion temporaries waiting in Conversion_Saves (call frames only)
                        shapes.append(dict(d, OP=op, NS=ns, S=sc, C=sc, SPARE=spare, NSV=nsv, _tag='%s,stacks=%d,scopes=%d,spare=%d' % (nm, ns, sc, spare) + (',waiting conversion temporaries=%d' % nsv if op in (5, 6) else ''), _witness=wit))
    return Harness('S0.stack_primitives', FAM, roots, 'c09_stack.c', stubs=stubs, cuts=[r'Boxed_Value::~Boxed_Value'], shapes=shapes, opts=['--unwind', '5'], timeout=300, mem_gb=6, inputs=['d0'],
                   note='Stack_Holder image with 1-2 stacks, 1-2 scopes / saved-parameter lists, with and without spare vector capacity; call depth symbolic')

def harnesses(tier):
    from props import C10, C07
    hs = [node_harness(k) for k in KINDS] + [ranged_for_harness(), eval_function_harness(tier), stack_harness(tier), guards_harness()] + [carrier_harness(k) for k in CARRIERS]
    t = C10.try_harness(tier); t.name = 'N.Try(scope balance)'; hs.append(t)
    e = C07.equation_harness(); e.name = 'N.Equation(call balance)'; hs.append(e)
    for h, nm in ((C10.funcall_harness(True, True), 'N.Fun_Call<saving> with arguments'), (C10.funcall_harness(False), 'N.Fun_Call<no-copy>'), (C10.array_call_harness(), 'N.Array_Call'), (C10.dot_access_harness(tier), 'N.Dot_Access'), (C10.attribute_call_harness(), 'N.This_Foist(attribute-held function call)')):
        h.name = nm; hs.append(h)        # one call frame pushed and popped on every exit
    return hs

ASSUMPTIONS = ['children and get_bool_condition are abstract; in the node harnesses new_scope/pop_scope are counters - their real code on a Stack_Holder image is harness S0',
               'the induction over the tree (each node restores the depth if its children do) is an argument, not something the solver sees']
OUTSIDE = ['nodes not listed (Lambda, Def, Method, Class, Attr_Decl: they build function objects through make_dynamic_proxy_function / std::function)', 'Thread_Storage lookup of the holder (C14)']
