"""C09 — every evaluation leaves the engine's scope/call stack as it found it."""
from irbmc import core
from irbmc.core import Harness
from props.engine_family import FAM, DE

NODE_STUBS = [r'AST_Node_Impl<.*>::eval\(', r'chaiscript::AST_Node::get_bool_condition', DE + r'(new_scope|pop_scope)\(', r'chaiscript::const_var', r'chaiscript::void_var']
NODE_CUTS = [r'eval_error::', r'chaiscript::detail::Dispatch_State::\w+\(', r'Boxed_Value::~Boxed_Value', r'chaiscript::Boxed_Value::Object_Data::get\(\)']
KINDS = {7: ('For', 'For_AST_Node'), 8: ('Switch', 'Switch_AST_Node'), 9: ('Case', 'Case_AST_Node'), 10: ('Default', 'Default_AST_Node'), 1: ('Block', 'Block_AST_Node'), 6: ('Scopeless_Block', 'Scopeless_Block_AST_Node'), 2: ('If', 'If_AST_Node'), 3: ('While', 'While_AST_Node'), 4: ('Logical_And', 'Logical_And_AST_Node'), 5: ('Logical_Or', 'Logical_Or_AST_Node')}
WIT = {1: ('witness: statement throws', 'witness: block completes'), 6: ('witness: statement throws', 'witness: block completes'),
       2: ('witness: condition throws', 'witness: condition not bool', 'witness: branch selected'), 3: ('witness: loop left by exception', 'witness: loop ends', 'witness: break', 'witness: second iteration'),
       4: ('witness: lhs fails', 'witness: short circuit', 'witness: rhs evaluated'), 5: ('witness: lhs fails', 'witness: short circuit', 'witness: rhs evaluated'),
       7: ('witness: loop left by exception', 'witness: loop ends', 'witness: break', 'witness: second iteration', 'witness: continue runs the step'),
       9: ('witness: body completes', 'witness: body throws'), 10: ('witness: body completes', 'witness: body throws')}

def node_harness(kind):
    nm, cls = KINDS[kind]
    rx = r'chaiscript::eval::' + cls + r'<.*>::eval_internal\(chaiscript::detail::Dispatch_State const&\) const$'
    d = {'KIND': kind, 'NODE_EVAL': core.csym(FAM, rx), 'NEW_SCOPE': core.csym(FAM, DE + r'new_scope\(chaiscript::detail::Stack_Holder&\)'), 'POP_SCOPE': core.csym(FAM, DE + r'pop_scope\(chaiscript::detail::Stack_Holder&\)'),
         'GET_BOOL': core.csym(FAM, r'chaiscript::AST_Node::get_bool_condition\('), 'STRING_LITERALS_OPAQUE': 1}
    vv = core.find_symbols(FAM, r'^chaiscript::void_var\(\)')
    if vv: d['VOID_VAR'] = 'F_' + core.cname(vv[0][0])
    if kind == 3:
        br = core.find_symbols(FAM, r'^typeinfo for chaiscript::eval::detail::Break_Loop'); 
        d['TI_BREAK'] = '((char*)&g__ZTIN10chaiscript4eval6detail10Break_LoopE)'; d['TI_CONTINUE'] = '((char*)&g__ZTIN10chaiscript4eval6detail13Continue_LoopE)'
    stubs = list(NODE_STUBS); opts = ['--unwind', '7', '--unwindset', 'log_count.0:26,main.0:8,main.1:9']
    if kind in (7, 8):
        d['TI_BREAK'] = '((char*)&g__ZTIN10chaiscript4eval6detail10Break_LoopE)'
        if kind == 7: d['TI_CONTINUE'] = '((char*)&g__ZTIN10chaiscript4eval6detail13Continue_LoopE)'
    if kind == 8:
        stubs += [r'chaiscript::boxed_cast<', DE + r'call_function\(']
        d['CALL_FUNCTION'] = core.csym(FAM, DE + r'call_function\(std::basic_string_view'); d['BOXED_CAST_BOOL'] = core.csym(FAM, r'chaiscript::boxed_cast<bool>\('); d['NNODES'] = 8
        opts = ['--unwind', '7', '--unwindset', 'log_count.0:26,main.0:10,main.1:9,main.2:10,main.3:10']
    if kind == 8:
        shapes = [dict(d, NCASE=n, _tag='cases=%d' % n, _witness=('witness: switch left by exception', 'witness: break', 'witness: matched', 'witness: nothing matched') + (('witness: fall through into default',) if n >= 2 else ())) for n in (1, 2, 3)]
    elif kind in (1, 6): shapes = [dict(d, NCH=n, _tag='children=%d' % n, _witness=WIT[kind]) for n in (1, 2, 3)]
    else: shapes = [dict(d, _tag='all', _witness=WIT[kind])]
    h = Harness('N.' + nm, FAM, [rx], 'c09_node.c', stubs=stubs, cuts=NODE_CUTS, shapes=shapes, opts=opts, timeout=600, mem_gb=8,
                   string_model=True, inputs=['behav', 'cond_vals', 'cond_throw_at'], note='children abstract (return / throw 7-9 kinds); conditions from an oracle; loops bounded to 3 iterations')
    h.need_globals = ['_ZTIN10chaiscript9exception10eval_errorE', '_ZTIN10chaiscript11Boxed_ValueE']
    return h

def ranged_for_harness():
    import re
    rx = r'chaiscript::eval::Ranged_For_AST_Node<.*>::eval_internal\(chaiscript::detail::Dispatch_State const&\) const$'
    stubs = list(NODE_STUBS) + [r'chaiscript::boxed_cast<', DE + r'get_function\(', r'chaiscript::dispatch::dispatch<', r'std::_Rb_tree_increment', r'chaiscript::Boxed_Value::Boxed_Value<std::reference_wrapper']
    g, info = core.translate(FAM, [rx], stubs, tag='RF_probe', cuts=NODE_CUTS)
    ext = [e.split('|')[0].strip() for e in info['ext']]
    def one(pat):
        m = [e for e in ext if re.search(pat, e)]
        if len(m) != 1: raise core.BuildError('C09 Ranged_For: expected exactly one external matching %s, found %d' % (pat, len(m)))
        return 'F_' + core.cname(m[0])
    d = {'NODE_EVAL': core.csym(FAM, rx), 'NEW_SCOPE': core.csym(FAM, DE + r'new_scope\(chaiscript::detail::Stack_Holder&\)'), 'POP_SCOPE': core.csym(FAM, DE + r'pop_scope\(chaiscript::detail::Stack_Holder&\)'),
         'VOID_VAR': one(r'^_ZN10chaiscript8void_varEv$'), 'GET_FUNCTION': one(r'15Dispatch_Engine12get_functionE'), 'DISPATCH': one(r'^_ZN10chaiscript8dispatch8dispatchISt6vector'),
         'CAST_BOOL': one(r'^_ZN10chaiscript10boxed_castIbEE'), 'CAST_VECTOR': one(r'^_ZN10chaiscript10boxed_castIRKSt6vector'), 'CAST_MAP': one(r'^_ZN10chaiscript10boxed_castIRKSt3map'),
         'BV_FROM_PAIR_REF': one(r'^_ZN10chaiscript11Boxed_ValueC2ISt17reference_wrapperIKSt4pair'),
         'TI_BREAK': '((char*)&g__ZTIN10chaiscript4eval6detail10Break_LoopE)', 'TI_CONTINUE': '((char*)&g__ZTIN10chaiscript4eval6detail13Continue_LoopE)',
         'TI_VECTOR': '((char*)&g__ZTISt6vectorIN10chaiscript11Boxed_ValueESaIS1_EE)', 'TI_MAP': '((char*)&g__ZTISt3mapINSt7__cxx1112basic_stringIcSt11char_traitsIcESaIcEEEN10chaiscript11Boxed_ValueESt4lessIS5_ESaISt4pairIKS5_S7_EEE)',
         'VERIF_STRCMP_BY_IDENTITY': 1}
    W = ('witness: left by exception', 'witness: break', 'witness: continue then next element', 'witness: empty range', 'witness: ran to the end')
    h = Harness('N.Ranged_For', FAM, [rx], 'c09_ranged_for.c', stubs=stubs, cuts=NODE_CUTS, shapes=[dict(d, ROUTE=r, _tag='route=' + nm, _witness=W) for r, nm in ((0, 'generic range'), (1, 'Vector'), (2, 'Map'))],
                opts=['--unwind', '6', '--unwindset', 'log_count.0:26,main.0:6,main.1:6,main.2:6,main.3:6,main.4:6,streq.0:10,streq.1:11'], timeout=900, mem_gb=10, string_model=True,
                inputs=['body_beh', 'range_beh', 'empty_beh', 'empty_val', 'front_beh', 'pop_beh', 'cast_throw_at', 'n_elems'],
                note='up to 3 iterations (generic route) / 0-2 elements (Vector, Map); every range function call and the body return or throw per call; add_get_object (binding the loop variable) is cut with the other Dispatch_State members')
    h.need_globals = ['_ZTIN10chaiscript9exception10eval_errorE', '_ZTIN10chaiscript11Boxed_ValueE', '_ZTISt6vectorIN10chaiscript11Boxed_ValueESaIS1_EE', '_ZTISt3mapINSt7__cxx1112basic_stringIcSt11char_traitsIcESaIcEEEN10chaiscript11Boxed_ValueESt4lessIS5_ESaISt4pairIKS5_S7_EEE']
    return h

def stack_harness(tier):
    SH = r'chaiscript::detail::Stack_Holder&'
    names = {1: 'new_scope', 2: 'pop_scope', 3: 'new_stack', 4: 'pop_stack', 5: 'new_function_call', 6: 'pop_function_call', 7: 'new_scope+pop_scope'}
    roots = [DE + r'new_scope\(' + SH + r'\)$', DE + r'pop_scope\(' + SH + r'\)$', DE + r'new_stack\(' + SH + r'\)$', DE + r'pop_stack\(' + SH + r'\)$', DE + r'new_function_call\(' + SH, DE + r'pop_function_call\(' + SH]
    stubs = [DE + r'save_function_params\(std::vector']
    d = {'F_NEW_SCOPE': core.csym(FAM, roots[0]), 'F_POP_SCOPE': core.csym(FAM, roots[1]), 'F_NEW_STACK': core.csym(FAM, roots[2]), 'F_POP_STACK': core.csym(FAM, roots[3]), 'F_NEW_CALL': core.csym(FAM, roots[4]), 'F_POP_CALL': core.csym(FAM, roots[5]),
         'SAVE_PARAMS_VEC': core.csym(FAM, DE + r'save_function_params\(std::vector')}
    shapes = []
    for op, nm in names.items():
        for ns in (1, 2):
            for sc in ((1, 2) if op in (1, 2, 7) else (1,)):
                for spare in (0, 1):
                    if op == 4 and ns == 1: continue       # the outermost stack is never popped
                    wit = ('witness: outermost', 'witness: nested') if op in (5, 6) else ('witness: done',)
                    shapes.append(dict(d, OP=op, NS=ns, S=sc, C=sc, SPARE=spare, _tag='%s,stacks=%d,scopes=%d,spare=%d' % (nm, ns, sc, spare), _witness=wit))
    return Harness('S0.stack_primitives', FAM, roots, 'c09_stack.c', stubs=stubs, cuts=[r'Boxed_Value::~Boxed_Value'], shapes=shapes, opts=['--unwind', '5'], timeout=300, mem_gb=6, inputs=['d0'],
                   note='Stack_Holder image with 1-2 stacks, 1-2 scopes / saved-parameter lists, with and without spare vector capacity; call depth symbolic')

def harnesses(tier):
    from props import C10, C07
    hs = [node_harness(k) for k in KINDS] + [ranged_for_harness(), stack_harness(tier)]
    t = C10.try_harness(tier); t.name = 'N.Try(scope balance)'; hs.append(t)
    e = C07.equation_harness(); e.name = 'N.Equation(call balance)'; hs.append(e)
    return hs

ASSUMPTIONS = ['children and get_bool_condition are abstract; in the node harnesses new_scope/pop_scope are counters - their real code on a Stack_Holder image is harness S0',
               'the induction over the tree (each node restores the depth if its children do) is an argument, not something the solver sees']
OUTSIDE = ['nodes not listed (Lambda, Def, Dot_Access, Array_Call, Method ...; Fun_Call: C10 X4)', 'Thread_Storage lookup of the holder (C14)']
