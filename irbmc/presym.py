#!/usr/bin/env python3-vt
"""presym: symbolic execution (z3) of the ChaiScript PRELUDE TEXT found in /repo's chaiscript_prelude.hpp.

The "real code" for C17 is that text.  presym (1) cuts it out of the header of the current tree, (2) parses the subset of
ChaiScript it uses, (3) executes each library function symbolically: containers are vectors of length 0..K whose ELEMENTS
are z3 terms, numeric arguments are z3 terms, callbacks are uninterpreted functions with an append-only call log; every
branch on a symbolic condition forks the path (each path keeps its path condition), and (4) discharges, per path and per case
of a functional specification written here in python, the query  path_condition AND spec_case AND result != spec_value
(unsat = holds).  A sat model is a concrete input; it is rendered as a .chai script and replayed on the real interpreter.

Trusted (documented in evidence): the semantics of the constructs below as implemented in this file (while/if/return,
:= vs =, method-call sugar, ranges as (container, lo, hi) index pairs with the Bidir_Range semantics checked in C12, int %
as C++ remainder), and the builtins `range`, `new`, `clone`, `back_inserter`, `eq`, `push_back`.
usage: presym.py <prelude.hpp> <out.json> <K> [function-name ...]
"""
import sys, re, json, time, itertools
import z3

# ------------------------------------------------------------------ extracting and parsing the prelude
def prelude_text(hpp):
    s = open(hpp).read()
    m = re.search(r'R"chaiscript\((.*?)\)chaiscript"', s, re.S)
    if not m: raise SystemExit('prelude text not found in ' + hpp)
    return m.group(1)

TOK = re.compile(r'''\s*(?:(?P<num>\d+\.\d+|\d+)|(?P<str>"(?:[^"\\]|\\.)*")|(?P<chr>'(?:[^'\\]|\\.)')|(?P<bt>`[^`]+`)|(?P<id>[A-Za-z_][A-Za-z_0-9]*(?:::[A-Za-z_`][A-Za-z_0-9`=<>!+\-*/%]*)?)|(?P<op>:=|==|!=|<=|>=|&&|\|\||\+\+|--|\+=|[-+*/%<>=!(){}\[\],;.:])|(?P<nl>\n))''')

def tokenize(src):
    out = []; i = 0; src = re.sub(r'#[^\n]*', '', src)
    while i < len(src):
        m = TOK.match(src, i)
        if not m:
            if src[i:].strip() == '': break
            raise SyntaxError('presym tokenizer: %r' % src[i:i + 30])
        i = m.end(); k = m.lastgroup
        if k == 'nl':
            continue
        out.append((k, m.group(k)))
    out.append(('eof', ''))
    return out

class Parser:
    def __init__(s, toks): s.t = toks; s.i = 0
    def peek(s, k=0): return s.t[s.i + k]
    def next(s): x = s.t[s.i]; s.i += 1; return x
    def accept(s, v):
        if s.peek()[1] == v and s.peek()[0] in ('op', 'id'): s.i += 1; return True
        return False
    def expect(s, v):
        x = s.next()
        if x[1] != v: raise SyntaxError('presym: expected %r got %r at %d' % (v, x, s.i))
    def toplevel(s):
        defs = []
        while s.peek()[0] != 'eof':
            if s.peek()[1] == 'def': defs.append(s.definition())
            elif s.peek()[1] == 'attr':
                while s.peek()[1] != ';' and s.peek()[0] != 'eof': s.next()
                s.accept(';')
            else: raise SyntaxError('presym: toplevel %r' % (s.peek(),))
        return defs
    def definition(s):
        s.expect('def'); name = s.next()[1]; s.expect('(')
        params = s.params(); guard = None
        if s.accept(':'): guard = s.expr()
        body = s.block()
        return dict(name=name, params=params, guard=guard, body=body)
    def params(s):
        ps = []
        if s.accept(')'): return ps
        while True:
            a = s.next()[1]
            if s.peek()[0] == 'id': b = s.next()[1]; ps.append((b, a))
            else: ps.append((a, None))
            if s.accept(')'): return ps
            s.expect(',')
    def block(s):
        s.expect('{'); st = []
        while not s.accept('}'):
            if s.accept(';'): continue
            st.append(s.stmt())
        return ('block', st)
    def stmt(s):
        k, v = s.peek()
        if v in ('auto', 'var'):
            s.next(); name = s.next()[1]
            if s.accept(':='): e = s.expr(); s.accept(';'); return ('decl', name, 'ref', e)
            if s.accept('='): e = s.expr(); s.accept(';'); return ('decl', name, 'copy', e)
            s.accept(';'); return ('decl', name, 'none', None)
        if v == 'while': s.next(); s.expect('('); c = s.expr(); s.expect(')'); b = s.block(); return ('while', c, b)
        if v == 'if':
            s.next(); s.expect('('); c = s.expr(); s.expect(')'); a = s.block(); b = None
            if s.accept('else'): b = s.block() if s.peek()[1] == '{' else ('block', [s.stmt()])
            return ('if', c, a, b)
        if v == 'return': s.next(); e = s.expr(); s.accept(';'); return ('return', e)
        if v == '{': return s.block()
        e = s.expr(); s.accept(';'); return ('expr', e)
    def expr(s): return s.assign()
    def assign(s):
        l = s.lor()
        for op in (':=', '=', '+='):
            if s.peek() == ('op', op): s.next(); r = s.assign(); return ('assign', op, l, r)
        return l
    def binlevel(s, ops, sub):
        l = sub()
        while s.peek()[0] == 'op' and s.peek()[1] in ops:
            op = s.next()[1]; r = sub(); l = ('bin', op, l, r)
        return l
    def lor(s): return s.binlevel(('||',), s.land)
    def land(s): return s.binlevel(('&&',), s.equality)
    def equality(s): return s.binlevel(('==', '!='), s.rel)
    def rel(s): return s.binlevel(('<', '<=', '>', '>='), s.add)
    def add(s): return s.binlevel(('+', '-'), s.mul)
    def mul(s): return s.binlevel(('*', '/', '%'), s.unary)
    def unary(s):
        k, v = s.peek()
        if k == 'op' and v in ('!', '-', '++', '--'): s.next(); return ('un', v, s.unary())
        return s.postfix()
    def args(s):
        a = []
        if s.accept(')'): return a
        while True:
            a.append(s.expr())
            if s.accept(')'): return a
            s.expect(',')
    def postfix(s):
        e = s.primary()
        while True:
            if s.peek() == ('op', '('): s.next(); e = ('call', e, s.args())
            elif s.peek() == ('op', '.'):
                s.next(); name = s.next()[1]
                if s.peek() == ('op', '('): s.next(); e = ('call', ('id', name), [e] + s.args())
                else: e = ('call', ('id', name), [e])
            elif s.peek() == ('op', '['): s.next(); i = s.expr(); s.expect(']'); e = ('call', ('id', '[]'), [e, i])
            else: return e
    def primary(s):
        k, v = s.next()
        if k == 'num': return ('num', v)
        if k == 'str': return ('str', bytes(v[1:-1], 'utf-8').decode('unicode_escape'))
        if k == 'chr': return ('chr', ord(bytes(v[1:-1], 'utf-8').decode('unicode_escape')))
        if k == 'bt': return ('id', v[1:-1])
        if k == 'id':
            if v == 'fun':
                s.expect('('); ps = s.params(); b = s.block(); return ('lambda', ps, b)
            if v in ('true', 'false'): return ('bool', v == 'true')
            return ('id', v)
        if v == '(': e = s.expr(); s.expect(')'); return e
        if v == '[':
            items = []
            if not s.accept(']'):
                while True:
                    items.append(s.expr())
                    if s.accept(']'): break
                    s.expect(',')
            return ('vec', items)
        raise SyntaxError('presym: primary %r %r' % (k, v))

# ------------------------------------------------------------------ values
class Vec:
    def __init__(s, items, kind='vector'): s.items = list(items); s.kind = kind
class Range:
    def __init__(s, vec, lo, hi): s.vec = vec; s.lo = lo; s.hi = hi
class Closure:
    def __init__(s, params, body, env): s.params = params; s.body = body; s.env = env
class Builtin:
    def __init__(s, name, fn): s.name = name; s.fn = fn
class UFun:
    """uninterpreted callback with a call log"""
    def __init__(s, name, arity, ret): s.name = name; s.arity = arity; s.ret = ret; s.f = z3.Function(name, *([z3.IntSort()] * arity + [z3.BoolSort() if ret == 'bool' else z3.IntSort()]))
class Ref:
    def __init__(s, v): s.v = v
class Placeholder: pass
class Dbl:
    """a double-typed number (sum/product start from 0.0 / 1.0): value is a z3 Real"""
    def __init__(s, t): s.t = t
class ReturnEx(Exception):
    def __init__(s, v): s.v = v
class Fork(Exception):
    """raised when a symbolic condition is met for which this path has no decision yet"""
    def __init__(s, cond): s.cond = cond
class GuardFail(Exception): pass
class PathAbort(Exception): pass

def to_real(x):
    if isinstance(x, Dbl): return x.t
    if isinstance(x, int): return z3.RealVal(x)
    return z3.ToReal(x)
def crem(a, b):
    """C++ integer remainder (truncation toward zero) for b > 0 or b < 0"""
    q = z3.If(z3.Or(z3.And(a >= 0, b > 0), z3.And(a <= 0, b < 0)), z3.ToInt(z3.ToReal(a) / z3.ToReal(b)) if False else a / b, -((-a) / b))
    return a - b * q

class Exec:
    """one symbolic path; decisions = list of bools taken at successive symbolic branches"""
    def __init__(s, funcs, decisions, limits):
        s.funcs = funcs; s.decisions = decisions; s.di = 0; s.pc = []; s.log = []; s.steps = 0; s.limits = limits
    def decide(s, cond):
        if isinstance(cond, bool): return cond
        c = z3.simplify(cond)
        if z3.is_true(c): return True
        if z3.is_false(c): return False
        if s.di < len(s.decisions):
            d = s.decisions[s.di]; s.di += 1; s.pc.append(c if d else z3.Not(c)); return d
        raise Fork(c)
    # ---- builtins (trusted semantics)
    def b_range(s, c):
        if isinstance(c, Range): return Range(c.vec, c.lo, c.hi)
        return Range(c, 0, len(c.items))
    def call(s, f, args):
        s.steps += 1
        if s.steps > s.limits['steps']: raise PathAbort('step limit')
        if isinstance(f, Closure):
            env = dict(f.env)
            if len(args) != len(f.params): raise PathAbort('arity')
            for (n, t), a in zip(f.params, args): env[n] = Ref(a)
            try: return s.block(f.body, env, newscope=False)
            except ReturnEx as r: return r.v
        if isinstance(f, Builtin): return f.fn(s, *args)
        if isinstance(f, UFun):
            s.log.append((f.name, tuple(args))); return f.f(*[a if not isinstance(a, int) else z3.IntVal(a) for a in args])
        if isinstance(f, tuple) and f[0] == 'bound':
            it = iter(args); full = [next(it) if isinstance(a, Placeholder) else a for a in f[2]]; return s.call(f[1], full)
        raise PathAbort('call of %r' % (f,))
    def lookup_fn(s, name, args):
        """overloads of a prelude function: first whose arity matches and whose guard holds (guards over call_exists are true here)"""
        cands = [d for d in s.funcs.get(name, []) if len(d['params']) == len(args)]
        for d in cands:
            ok = True
            for (pn, pt), a in zip(d['params'], args):
                if pt == 'Function' and not isinstance(a, (Closure, Builtin, UFun, tuple)): ok = False
                if pt == 'string' and not (isinstance(a, Vec) and a.kind == 'string'): ok = False
            if not ok: continue
            if d['guard'] is not None:
                env = {pn: Ref(a) for (pn, pt), a in zip(d['params'], args)}
                g = s.eval(d['guard'], env)
                if not s.decide(g): continue
            return Closure(d['params'], d['body'], {})
        return None
    def eval(s, e, env):
        k = e[0]
        if k == 'num': return Dbl(z3.RealVal(e[1])) if '.' in e[1] else z3.IntVal(int(e[1]))
        if k == 'bool': return e[1]
        if k == 'chr': return z3.IntVal(e[1])
        if k == 'str': return Vec([z3.IntVal(ord(c)) for c in e[1]], 'string')
        if k == 'vec': return Vec([s.eval(x, env) for x in e[1]])
        if k == 'lambda': return Closure(e[1], e[2], env)
        if k == 'id':
            n = e[1]
            if n in env: return env[n].v
            if n in BUILTINS: return BUILTINS[n]
            if n in OPS: return Builtin(n, (lambda op: lambda ex, a, b: ex.binop(op, a, b))(n))       # `+` etc. used as function values
            if n == '_': return Placeholder()
            if n in s.funcs: return ('fname', n)
            raise PathAbort('unknown name ' + n)
        if k == 'un':
            op = e[1]
            if op in ('++', '--'):
                r = s.lvalue(e[2], env); r.v = r.v + (1 if op == '++' else -1); return r.v
            v = s.eval(e[2], env)
            if op == '!': return z3.Not(v) if not isinstance(v, bool) else (not v)
            if op == '-': return -v
        if k == 'bin':
            op = e[1]
            if op in ('&&', '||'):
                l = s.eval(e[2], env); d = s.decide(l)
                if op == '&&': return s.eval(e[3], env) if d else False
                return True if d else s.eval(e[3], env)
            l = s.eval(e[2], env); r = s.eval(e[3], env)
            return s.binop(op, l, r)
        if k == 'assign':
            op = e[1]
            if op == ':=' or op == '=':
                v = s.eval(e[3], env); r = s.lvalue(e[2], env)
                r.v = v if op == ':=' else s.copy(v); return r.v
            if op == '+=':
                v = s.eval(e[3], env); r = s.lvalue(e[2], env); r.v = s.binop('+', r.v, v); return r.v
        if k == 'call':
            fe = e[1]; args = [s.eval(a, env) for a in e[2]]
            if fe[0] == 'id' and fe[1] not in env:
                n = fe[1]
                if n == 'range' and len(args) == 1 and isinstance(args[0], Range):
                    # a range made from a RANGE VIEW is the prelude's own `def range(r) : call_exists(...)` overload, not the C++ constructor: its text decides
                    # whether the algorithm works on a copy of the caller's view or on the caller's view itself
                    g = s.lookup_fn('range', args)
                    if g is not None: return s.call(g, args)
                if n in BUILTINS: return s.call(BUILTINS[n], args)
                f = s.lookup_fn(n, args)
                if f is not None: return s.call(f, args)
                if n in OPS and len(args) == 2: return s.binop(n, args[0], args[1])
                raise PathAbort('no overload of %s/%d' % (n, len(args)))
            f = s.eval(fe, env)
            if isinstance(f, tuple) and f[0] == 'fname':
                g = s.lookup_fn(f[1], args)
                if g is None: raise PathAbort('no overload of %s' % f[1])
                return s.call(g, args)
            return s.call(f, args)
        raise PathAbort('eval ' + k)
    def binop(s, op, l, r):
        if isinstance(l, Vec) and isinstance(r, Vec) and op == '+': return Vec(l.items + r.items, l.kind)
        if isinstance(l, Dbl) or isinstance(r, Dbl):
            a, b = to_real(l), to_real(r)
            if op in ('+', '-', '*', '/'): return Dbl({'+': a + b, '-': a - b, '*': a * b, '/': a / b}[op])
            return {'==': a == b, '!=': a != b, '<': a < b, '<=': a <= b, '>': a > b, '>=': a >= b}[op]
        if op == '%': return crem(l, r)
        if op == '/':
            return z3.If(z3.Or(z3.And(l >= 0, r > 0), z3.And(l <= 0, r < 0)), l / r, -((-l) / r))
        if isinstance(l, bool) or isinstance(r, bool) or z3.is_bool(l) or z3.is_bool(r):
            if op == '==': return l == r
            if op == '!=': return l != r
        return {'+': lambda: l + r, '-': lambda: l - r, '*': lambda: l * r, '==': lambda: l == r, '!=': lambda: l != r, '<': lambda: l < r, '<=': lambda: l <= r,
                '>': lambda: l > r, '>=': lambda: l >= r}[op]()
    def copy(s, v):
        if isinstance(v, Vec): return Vec(v.items, v.kind)
        if isinstance(v, Range): return Range(v.vec, v.lo, v.hi)
        return v
    def lvalue(s, e, env):
        if e[0] == 'id':
            if e[1] not in env: env[e[1]] = Ref(None)
            return env[e[1]]
        raise PathAbort('lvalue')
    def block(s, b, env, newscope=True):
        env = dict(env) if newscope else env
        last = None
        for st in b[1]: last = s.stmt(st, env)
        return last
    def stmt(s, st, env):
        k = st[0]
        if k == 'decl':
            if st[2] == 'none': env[st[1]] = Ref(None); return None
            v = s.eval(st[3], env); env[st[1]] = Ref(v if st[2] == 'ref' else s.copy(v)); return env[st[1]].v
        if k == 'expr': return s.eval(st[1], env)
        if k == 'return': raise ReturnEx(s.eval(st[1], env))
        if k == 'block': return s.block(st, env)
        if k == 'if':
            c = s.eval(st[1], env)
            if s.decide(c): return s.block(st[2], env)
            if st[3] is not None: return s.block(st[3], env)
            return None
        if k == 'while':
            n = 0
            while s.decide(s.eval(st[1], env)):
                n += 1
                if n > s.limits['unwind']: raise PathAbort('unwind')     # an unwinding assertion: reported, never a silent cut
                s.block(st[2], env)
            return None
        raise PathAbort('stmt ' + k)

OPS = {'+', '-', '*', '/', '%', '==', '!=', '<', '<=', '>', '>='}
def _rng(x, s):
    if not isinstance(x, Range): raise PathAbort('not a range')
    return x
def _front(s, r):
    if isinstance(r, Vec):
        if not r.items: raise PathAbort('front of empty')
        return r.items[0]
    if r.lo >= r.hi: raise PathAbort('front of empty range')
    return r.vec.items[r.lo]
def _back(s, r):
    if isinstance(r, Vec):
        if not r.items: raise PathAbort('back of empty')
        return r.items[-1]
    if r.lo >= r.hi: raise PathAbort('back of empty range')
    return r.vec.items[r.hi - 1]
def _pop_front(s, r):
    if r.lo >= r.hi: raise PathAbort('pop_front of empty range')
    r.lo += 1
def _pop_back(s, r):
    if isinstance(r, Vec): r.items.pop(); return
    if r.lo >= r.hi: raise PathAbort('pop_back of empty range')
    r.hi -= 1
def _push_back(s, c, x): c.items.append(x)
def _bind(s, f, *a): return ('bound', f, list(a))
BUILTINS = {
    'range': Builtin('range', lambda s, c: s.b_range(c)),
    'empty': Builtin('empty', lambda s, r: (len(r.items) == 0) if isinstance(r, Vec) else (r.lo >= r.hi)),
    'front': Builtin('front', _front), 'back': Builtin('back', _back), 'pop_front': Builtin('pop_front', _pop_front), 'pop_back': Builtin('pop_back', _pop_back),
    'size': Builtin('size', lambda s, c: len(c.items)), 'push_back': Builtin('push_back', _push_back), 'push_back_ref': Builtin('push_back_ref', _push_back),
    'new': Builtin('new', lambda s, c: Vec([], c.kind if isinstance(c, Vec) else c.vec.kind)), 'clone': Builtin('clone', lambda s, c: s.copy(c)),
    'back_inserter': Builtin('back_inserter', lambda s, c: ('bound', BUILTINS['push_back'], [c, Placeholder()])), 'bind': Builtin('bind', _bind),
    'Vector': Builtin('Vector', lambda s: Vec([])), 'eq': Builtin('eq', lambda s, a, b: s.binop('==', a, b)), 'call_exists': Builtin('call_exists', lambda s, f, *a: (isinstance(a[0], Vec) if (isinstance(f, Builtin) and f.name == 'range_internal') else True)),      # range_internal (the C++ range constructor) exists for containers only
    'range_internal': Builtin('range_internal', lambda s, c: s.b_range(c)),
    'to_string': Builtin('to_string', lambda s, v: (v if (isinstance(v, Vec) and v.kind == 'string') else (_ for _ in ()).throw(PathAbort('to_string of a non-string (runtime type dispatch: outside presym)')))),
    'size_t': Builtin('size_t', lambda s, x: x), 'is_type': Builtin('is_type', lambda s, x, t: isinstance(x, Vec) and x.kind == 'string'),
}

# ------------------------------------------------------------------ path enumeration
def explore(funcs, run, limits):
    """run(exec) -> result; returns list of (pc, result, log) over all paths; aborted paths are returned as ('abort', why)"""
    paths = []; stack = [[]]
    while stack:
        dec = stack.pop()
        ex = Exec(funcs, dec, limits)
        try:
            res = run(ex)
            paths.append(dict(pc=list(ex.pc), res=res, log=list(ex.log), abort=None, args_after=[(a.items, o) for a, o in getattr(ex, '_args', [])], ranges_after=[(a.lo, a.hi, lo, hi) for a, lo, hi in getattr(ex, '_rargs', [])]))
        except Fork as f:
            sol = z3.Solver(); sol.add(*ex.pc)
            for d in (True, False):
                sol.push(); sol.add(f.cond if d else z3.Not(f.cond))
                if sol.check() != z3.unsat: stack.append(dec + [d])
                sol.pop()
        except PathAbort as a:
            paths.append(dict(pc=list(ex.pc), res=None, log=list(ex.log), abort=str(a)))
        if len(paths) > limits['paths']: raise RuntimeError('path limit')
    return paths

def same(a, b):
    """z3 condition: value a equals value b (lists elementwise; different shapes => False)"""
    if isinstance(a, Vec): a = a.items
    if isinstance(b, Vec): b = b.items
    if isinstance(a, list) or isinstance(b, list):
        if not (isinstance(a, list) and isinstance(b, list)) or len(a) != len(b): return z3.BoolVal(False)
        return z3.And([same(x, y) for x, y in zip(a, b)]) if a else z3.BoolVal(True)
    if isinstance(a, Dbl) or isinstance(b, Dbl): return to_real(a) == to_real(b)
    if isinstance(a, bool): a = z3.BoolVal(a)
    if isinstance(b, bool): b = z3.BoolVal(b)
    return a == b

# ------------------------------------------------------------------ specifications
def ints(name, n): return [z3.Int('%s%d' % (name, i)) for i in range(n)]

def spec_cases_prefix(c, k_term, L):
    """value = c[:k] where k = clamp(k_term, 0, L): one case per k"""
    return [(z3.And(k == (z3.If(k_term < 0, 0, z3.If(k_term > L, L, k_term)))), c[:k]) for k in range(L + 1)]

def obligations(K):
    """yield (function, description, runner(ex)->value, inputs, spec(inputs)->[(cond, expected)], log_spec or None)"""
    obs = []
    f1 = UFun('f', 1, 'int'); p1 = UFun('p', 1, 'bool'); g2 = UFun('g', 2, 'int')
    n = z3.Int('n'); x = z3.Int('x'); y = z3.Int('y')
    def per_length(L):       # a function, not a loop body: the lambdas below must bind THIS length's c, d and L (late binding made every shape run at length K)
        c = ints('c', L); d = ints('d', L)
        V = lambda items=c: Vec(items)
        def add(name, desc, args_fn, spec, logspec=None, inputs=None, L=L, c=c):
            obs.append(dict(fn=name, desc='%s, length %d' % (desc, L), L=L, args=args_fn, spec=spec, logspec=logspec, input_vec=c))
        add('for_each', 'calls the callback once per element in order', lambda: [Vec(c), f1], lambda: [(z3.BoolVal(True), None)], lambda: [(z3.BoolVal(True), [('f', (e,)) for e in c])])
        add('map', 'result[i] = f(c[i])', lambda: [Vec(c), f1], lambda: [(z3.BoolVal(True), [f1.f(e) for e in c])], lambda: [(z3.BoolVal(True), [('f', (e,)) for e in c])])
        add('foldl', 'f(c[n-1], ... f(c[0], init))', lambda: [Vec(c), g2, x], lambda: [(z3.BoolVal(True), __import__('functools').reduce(lambda acc, e: g2.f(e, acc), c, x))])
        add('sum', '0.0 + c[0] + ...', lambda: [Vec(c)], lambda: [(z3.BoolVal(True), Dbl(sum([z3.ToReal(e) for e in c], z3.RealVal(0))))])
        add('product', '1.0 * c[0] * ...', lambda: [Vec(c)], lambda: [(z3.BoolVal(True), Dbl(__import__('functools').reduce(lambda a, e: a * z3.ToReal(e), c, z3.RealVal(1))))])
        add('contains', 'true iff some element equals the item', lambda: [Vec(c), x], lambda: [(z3.BoolVal(True), z3.Or([e == x for e in c]) if c else z3.BoolVal(False))])
        add('any_of', 'true iff the predicate holds for some element', lambda: [Vec(c), p1], lambda: [(z3.BoolVal(True), z3.Or([p1.f(e) for e in c]) if c else z3.BoolVal(False))])
        add('all_of', 'true iff the predicate holds for every element', lambda: [Vec(c), p1], lambda: [(z3.BoolVal(True), z3.And([p1.f(e) for e in c]) if c else z3.BoolVal(True))])
        add('take', 'first clamp(n,0,len) elements', lambda: [Vec(c), n], lambda: spec_cases_prefix(c, n, L))
        add('drop', 'all but the first clamp(n,0,len) elements', lambda: [Vec(c), n], lambda: [(k == z3.If(n < 0, 0, z3.If(n > L, L, n)), c[k:]) for k in range(L + 1)])
        add('reverse', 'elements in reverse order', lambda: [Vec(c)], lambda: [(z3.BoolVal(True), c[::-1])])
        add('filter', 'the elements satisfying the predicate, in order', lambda: [Vec(c), p1],
            lambda: [(z3.And([p1.f(e) if m else z3.Not(p1.f(e)) for e, m in zip(c, mask)]) if c else z3.BoolVal(True), [e for e, m in zip(c, mask) if m]) for mask in itertools.product([0, 1], repeat=L)],
            lambda: [(z3.BoolVal(True), None)])
        add('take_while', 'longest prefix satisfying the predicate', lambda: [Vec(c), p1],
            lambda: [(z3.And([p1.f(e) for e in c[:k]] + ([z3.Not(p1.f(c[k]))] if k < L else [])), c[:k]) for k in range(L + 1)])
        add('drop_while', 'what remains after the longest prefix satisfying the predicate', lambda: [Vec(c), p1],
            lambda: [(z3.And([p1.f(e) for e in c[:k]] + ([z3.Not(p1.f(c[k]))] if k < L else [])), c[k:]) for k in range(L + 1)])
        RV = lambda items=c: Range(Vec(items), 0, len(items))          # range(v) kept in a variable by the caller
        add('for_each', 'on a range view: once per element in order, view unchanged', lambda: [RV(), f1], lambda: [(z3.BoolVal(True), None)], lambda: [(z3.BoolVal(True), [('f', (e,)) for e in c])])
        add('sum', 'on a range view: 0.0 + c[0] + ..., view unchanged', lambda: [RV()], lambda: [(z3.BoolVal(True), Dbl(sum([z3.ToReal(e) for e in c], z3.RealVal(0))))])
        add('contains', 'on a range view: true iff some element equals the item, view unchanged', lambda: [RV(), x], lambda: [(z3.BoolVal(True), z3.Or([e == x for e in c]) if c else z3.BoolVal(False))])
        add('foldl', 'on a range view: f(c[n-1], ... f(c[0], init)), view unchanged', lambda: [RV(), g2, x], lambda: [(z3.BoolVal(True), __import__('functools').reduce(lambda acc, e: g2.f(e, acc), c, x))])
        add('any_of', 'on a range view: true iff the predicate holds for some element, view unchanged', lambda: [RV(), p1], lambda: [(z3.BoolVal(True), z3.Or([p1.f(e) for e in c]) if c else z3.BoolVal(False))])
        if L >= 2: add('reduce', 'f(... f(f(c[0], c[1]), c[2]) ...)', lambda: [Vec(c), g2], lambda: [(z3.BoolVal(True), __import__('functools').reduce(lambda acc, e: g2.f(acc, e), c[1:], c[0]))])
        for L2 in range(K + 1):
            d2 = ints('d', L2)
            obs.append(dict(fn='concat', desc='x followed by y, lengths %d+%d' % (L, L2), L=L, args=(lambda d2=d2: [Vec(c), Vec(d2)]), spec=(lambda d2=d2: [(z3.BoolVal(True), c + d2)]), logspec=None, input_vec=c))
            obs.append(dict(fn='zip_with', desc='f(x[i], y[i]) for i < min(len), lengths %d,%d' % (L, L2), L=L, args=(lambda d2=d2: [g2, Vec(c), Vec(d2)]),
                            spec=(lambda d2=d2: [(z3.BoolVal(True), [g2.f(a, b) for a, b in zip(c, d2)])]), logspec=None, input_vec=c))
            obs.append(dict(fn='zip', desc='pairs [x[i], y[i]] for i < min(len), lengths %d,%d' % (L, L2), L=L, args=(lambda d2=d2: [Vec(c), Vec(d2)]),
                            spec=(lambda d2=d2: [(z3.BoolVal(True), [[a, b] for a, b in zip(c, d2)])]), logspec=None, input_vec=c))
    for L_ in range(K + 1): per_length(L_)
    # strings: characters are symbolic codes; whitespace = space, tab, CR, LF
    ws = lambda ch: z3.Or(ch == 32, ch == 9, ch == 13, ch == 10)
    for L in range(min(K, 3) + 1):       # (every lambda of this loop binds its variables through default arguments) string helpers fork on 4 whitespace kinds per position: lengths above 3 exceed the path budget (bound stated in the evidence)
        ch = ints('s', L)
        def lead(k, ch=ch, L=L): return z3.And([ws(e) for e in ch[:k]] + ([z3.Not(ws(ch[k]))] if k < L else []))
        def trail(k, ch=ch, L=L): return z3.And([ws(e) for e in ch[L - k:]] + ([z3.Not(ws(ch[L - k - 1]))] if k < L else []))
        obs.append(dict(fn='string::ltrim', desc='without leading whitespace, length %d' % L, L=L, args=(lambda ch=ch: [Vec(ch, 'string')]), spec=(lambda ch=ch, L=L, lead=lead: [(lead(k), ch[k:]) for k in range(L + 1)]), logspec=None, input_vec=ch))
        obs.append(dict(fn='string::rtrim', desc='without trailing whitespace, length %d' % L, L=L, args=(lambda ch=ch: [Vec(ch, 'string')]), spec=(lambda ch=ch, L=L, trail=trail: [(trail(k), ch[:L - k]) for k in range(L + 1)]), logspec=None, input_vec=ch))
        obs.append(dict(fn='string::trim', desc='without leading and trailing whitespace, length %d' % L, L=L, args=(lambda ch=ch: [Vec(ch, 'string')]),
                        spec=(lambda ch=ch, L=L, lead=lead, trail=trail: [(z3.And(lead(a), trail(b)), ch[a:L - b]) for a in range(L + 1) for b in range(L + 1 - a)] + [(lead(L), [])]), logspec=None, input_vec=ch))
    # scalars
    obs.append(dict(fn='max', desc='larger of two integers', L=0, args=lambda: [x, y], spec=lambda: [(z3.BoolVal(True), z3.If(x > y, x, y))], logspec=None, input_vec=[]))
    obs.append(dict(fn='min', desc='smaller of two integers', L=0, args=lambda: [x, y], spec=lambda: [(z3.BoolVal(True), z3.If(x < y, x, y))], logspec=None, input_vec=[]))
    obs.append(dict(fn='odd', desc='true exactly for odd integers, negative ones included', L=0, args=lambda: [x], spec=lambda: [(z3.BoolVal(True), x % 2 == 1)], logspec=None, input_vec=[]))
    obs.append(dict(fn='even', desc='true exactly for even integers', L=0, args=lambda: [x], spec=lambda: [(z3.BoolVal(True), x % 2 == 0)], logspec=None, input_vec=[]))
    if True:
        dl = [z3.Int('dl0')]                       # a one-character delimiter
        for L in range(min(K, 3) + 1):
            for lens in itertools.product([0, 1], repeat=L):
                elems = [[z3.Int('js%d_%d' % (i, j)) for j in range(n)] for i, n in enumerate(lens)]
                exp = []
                for i, e in enumerate(elems): exp = exp + (dl if i else []) + e
                obs.append(dict(fn='join', desc='elements separated by the delimiter - also around EMPTY strings, element lengths %s' % (list(lens),), L=L,
                                args=(lambda elems=elems: [Vec([Vec(list(e), 'string') for e in elems]), Vec(list(dl), 'string')]), spec=(lambda exp=exp: [(z3.BoolVal(True), list(exp))]), logspec=None, input_vec=[]))
    for span in range(-1, K):
        obs.append(dict(fn='generate_range', desc='[x .. y] inclusive, y - x = %d' % span, L=0, pre=(y == x + span), args=lambda: [x, y],
                        spec=(lambda span=span: [(z3.BoolVal(True), [x + i for i in range(span + 1)])]), logspec=None, input_vec=[]))
    return obs

def value_repr(v):
    if isinstance(v, Vec): return [value_repr(i) for i in v.items]
    if isinstance(v, list): return [value_repr(i) for i in v]
    if isinstance(v, Dbl): return 'double(%s)' % z3.simplify(v.t)
    if isinstance(v, (bool, int)) or v is None: return v
    try: return str(z3.simplify(v))
    except Exception: return str(v)

def check(funcs, K, only=None):
    limits = dict(unwind=K + 2, steps=4000, paths=400)
    results = []
    for ob in obligations(K):
        if only and ob['fn'] not in only: continue
        t0 = time.time()
        if ob['fn'] not in funcs:
            results.append(dict(function=ob['fn'], case=ob['desc'], verdict='UNIT-MISSING', queries=0, paths=0, wall=0)); continue
        inp = Vec(ob['input_vec']); orig = list(inp.items)
        def run(ex, ob=ob):
            args = ob['args']()
            ex._args = [(a, list(a.items)) for a in args if isinstance(a, Vec)] + [(a.vec, list(a.vec.items)) for a in args if isinstance(a, Range)]
            ex._rargs = [(a, a.lo, a.hi) for a in args if isinstance(a, Range)]
            f = ex.lookup_fn(ob['fn'], args)
            if f is None: raise PathAbort('no overload accepts the arguments')
            return ex.call(f, args)
        try: paths = explore(funcs, run, limits)
        except RuntimeError as e:
            results.append(dict(function=ob['fn'], case=ob['desc'], verdict='INCONCLUSIVE', why=str(e), queries=0, paths=0, wall=time.time() - t0)); continue
        queries = 0; verdict = 'HOLDS'; cex = None; why = None
        pre = ob.get('pre')
        for p in paths:
            sol = z3.Solver(); sol.set('timeout', 60000)
            if pre is not None: sol.add(pre)
            sol.add(*p['pc'])
            if p['abort'] is not None:
                queries += 1
                if sol.check() != z3.unsat:       # an aborted path that is feasible: unwinding bound / unsupported construct reached
                    verdict = 'INCONCLUSIVE'; why = 'feasible path aborted: ' + p['abort']; break
                continue
            for cond, exp in ob['spec']():
                if exp is None: continue
                sol.push(); sol.add(cond); sol.add(z3.Not(same(p['res'], exp))); queries += 1
                r = sol.check()
                if r == z3.sat:
                    m = sol.model(); verdict = 'CEX'
                    def mev(v):
                        if isinstance(v, (Vec, list)): return [mev(i) for i in (v.items if isinstance(v, Vec) else v)]
                        if isinstance(v, Dbl): return str(m.eval(v.t, model_completion=True))
                        if isinstance(v, (bool, int)) or v is None: return v
                        r2 = m.eval(v, model_completion=True); return (r2.as_long() if z3.is_int_value(r2) else (True if z3.is_true(r2) else False if z3.is_false(r2) else str(r2)))
                    args_c = None
                    try: args_c = [mev(a) if not isinstance(a, UFun) else None for a in ob['args']()]
                    except Exception: pass
                    cex = dict(model={str(dcl): str(m[dcl]) for dcl in m.decls() if dcl.arity() == 0}, got=value_repr(p['res']), expected=value_repr(exp),
                               concrete_args=args_c, concrete_expected=mev(exp), concrete_got=mev(p['res'])); sol.pop(); break
                if r == z3.unknown: verdict = 'INCONCLUSIVE'; why = 'solver: unknown'
                sol.pop()
            if verdict == 'CEX': break
            if ob['logspec'] is not None:
                for cond, explog in ob['logspec']():
                    if explog is None: continue
                    sol.push(); sol.add(cond)
                    okshape = len(explog) == len(p['log']) and all(a[0] == b[0] and len(a[1]) == len(b[1]) for a, b in zip(explog, p['log']))
                    queries += 1
                    if not okshape:
                        if sol.check() != z3.unsat: verdict = 'CEX'; cex = dict(model={}, got='callback log ' + str([(a, [str(x) for x in b]) for a, b in p['log']]), expected='one call per element in order')
                    else:
                        eqs = [x == y for a, b in zip(explog, p['log']) for x, y in zip(a[1], b[1])]
                        if eqs:
                            sol.add(z3.Not(z3.And(eqs)))
                            if sol.check() == z3.sat: verdict = 'CEX'; cex = dict(model={}, got='callback arguments differ', expected='elements in order')
                    sol.pop()
            # inputs unmodified: every container argument still holds the very same element terms
            for a, o in p.get('args_after', []):
                if len(a) != len(o) or any(x is not y for x, y in zip(a, o)):
                    verdict = 'CEX'; cex = dict(model={}, got='an input container was modified: ' + str(value_repr(a)), expected=str(value_repr(o)))
            # a range VIEW handed in by the caller (range(v), a retro view, the result of a search) still denotes the same elements afterwards
            for lo2, hi2, lo, hi in p.get('ranges_after', []):
                if (lo2, hi2) != (lo, hi) and verdict != 'CEX':
                    sol.push(); queries += 1
                    if sol.check() != z3.unsat:
                        verdict = 'CEX'; cex = dict(model={}, got='the caller\'s range view was advanced: now elements [%d, %d)' % (lo2, hi2), expected='unchanged: elements [%d, %d)' % (lo, hi), range_view=True)
                    sol.pop()
        results.append(dict(function=ob['fn'], case=ob['desc'], verdict=verdict, why=why, cex=cex, queries=queries, paths=len(paths), wall=round(time.time() - t0, 3)))
    return results

CONCRETE_TESTS = [
    ('take', [[1, 2, 3], 2]), ('take', [[1, 2, 3], 5]), ('take', [[1, 2, 3], -1]), ('drop', [[1, 2, 3], 1]), ('drop', [[1, 2, 3], 7]), ('reverse', [[1, 2, 3]]), ('reverse', [[]]),
    ('concat', [[1], [2, 3]]), ('zip', [[1, 2, 3], [4, 5]]), ('generate_range', [2, 5]), ('generate_range', [3, 2]), ('max', [3, 9]), ('min', [3, 9]), ('odd', [7]), ('even', [7]), ('even', [-4]),
    ('filter', [[1, 2, 3, 4, 5], '@odd']), ('map', [[1, 2, 3], '@odd']), ('take_while', [[1, 3, 4, 5], '@odd']), ('drop_while', [[1, 3, 4, 5], '@odd']), ('any_of', [[2, 4, 5], '@odd']),
    ('all_of', [[1, 3, 4], '@odd']), ('contains', [[1, 2, 3], 2]), ('contains', [[1, 2, 3], 9]), ('foldl', [[1, 2, 3], '@max', 0]), ('reduce', [[4, 9, 2], '@min']), ('zip_with', ['@max', [1, 8], [5, 2]]),
    ('sum', [[1, 2, 3]]), ('product', [[2, 3, 4]]),
]
def chai_lit(a):
    if isinstance(a, str) and a.startswith('@'): return a[1:]
    if isinstance(a, list): return '[' + ', '.join(chai_lit(x) for x in a) + ']'
    return str(a)
def to_py(v):
    if isinstance(v, Vec): return [to_py(i) for i in v.items]
    if isinstance(v, list): return [to_py(i) for i in v]
    if isinstance(v, Dbl): v = z3.simplify(v.t); return float(v.as_fraction()) if hasattr(v, 'as_fraction') else str(v)
    if isinstance(v, bool): return v
    v = z3.simplify(v) if z3.is_expr(v) else v
    if z3.is_expr(v):
        if z3.is_true(v): return True
        if z3.is_false(v): return False
        if z3.is_int_value(v): return v.as_long()
        return str(v)
    return v
def concrete(funcs):
    """the evaluator in concrete mode on fixed inputs: [(script expression, value as presym computes it)] for the differential self-test"""
    out = []
    for fn, args in CONCRETE_TESTS:
        def conv(a):
            if isinstance(a, str) and a.startswith('@'): return ('fname', a[1:])
            if isinstance(a, list): return Vec([conv(x) for x in a])
            return z3.IntVal(a)
        def run(ex, fn=fn, args=args):
            av = [conv(a) for a in args]; f = ex.lookup_fn(fn, av)
            if f is None: raise PathAbort('no overload')
            return ex.call(f, av)
        paths = explore(funcs, run, dict(unwind=12, steps=4000, paths=4))
        val = to_py(paths[0]['res']) if len(paths) == 1 and paths[0]['abort'] is None else 'ABORT:%s' % (paths[0]['abort'] if paths else 'none')
        out.append(dict(expr='%s(%s)' % (fn, ', '.join(chai_lit(a) for a in args)), value=val))
    return out

def main():
    hpp, out, K = sys.argv[1], sys.argv[2], int(sys.argv[3]); only = set(sys.argv[4:]) or None
    defs = Parser(tokenize(prelude_text(hpp))).toplevel()
    funcs = {}
    for d in defs:
        if '::' in d['name']: d['params'] = [('this', None)] + d['params']      # methods receive their object as `this`
        funcs.setdefault(d['name'], []).append(d)
        if '::' in d['name']: funcs.setdefault(d['name'].split('::')[1], []).append(d)   # callable with method sugar / as free function
    res = check(funcs, K, only)
    json.dump(dict(K=K, functions_parsed=sorted(funcs), results=res, concrete=concrete(funcs)), open(out, 'w'), indent=1)

if __name__ == '__main__': main()
