"""Warm caches: build every property's IR families and translations (no solver runs)."""
import importlib, os, sys, glob
from concurrent.futures import ThreadPoolExecutor
from . import core
def main():
    sys.path.insert(0, core.VERIF)
    hs = []
    for f in sorted(glob.glob(os.path.join(core.VERIF, 'props', 'C*.py'))):
        try:
            m = importlib.import_module('props.' + os.path.basename(f)[:-3])
            if hasattr(m, 'harnesses'): hs += m.harnesses('quick')
            if hasattr(m, 'warm'): m.warm()
        except Exception as e:
            print('warm: %s: %s' % (f, str(e)[:300]))
    try: core.layout_dir()
    except Exception as e: print('warm: layout: %s' % e)
    def prep(h):
        try: core.prepare(h, os.path.join(core.CACHE, 'work', 'warm'))
        except Exception as e: print('warm: %s: %s' % (h.name, str(e)[:300]))
    with ThreadPoolExecutor(max_workers=core.NCPU) as ex: list(ex.map(prep, hs))
    print('warm: %d harnesses prepared' % len(hs))
if __name__ == '__main__': main()
