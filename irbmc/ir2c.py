#!/usr/bin/env python3
"""Prototype LLVM-14 textual IR -> C translator (scratch; feasibility probe).
Usage: ir2c.py module.ll out.c --root REGEX [--root REGEX ...] [--stub NAME ...]
"""
import re, sys, subprocess, collections, argparse, os
TYPED_ALLOCA = os.environ.get('TYPED_ALLOCA') == '1'

# ---------------------------------------------------------------- tokenizer
TOK = re.compile(r'''
   (?P<ws>\s+|;[^\n]*)
 | (?P<cstr>c"(?:[^"\\]|\\[0-9A-Fa-f]{2}|\\\\)*")
 | (?P<str>"(?:[^"\\]|\\.)*")
 | (?P<lid>%(?:"(?:[^"\\]|\\.)*"|[-\w.$]+))
 | (?P<gid>@(?:"(?:[^"\\]|\\.)*"|[-\w.$]+))
 | (?P<comdat>\$(?:"(?:[^"\\]|\\.)*"|[-\w.$]+))
 | (?P<meta>![\w.]*)
 | (?P<attr>\#\d+)
 | (?P<hexf>0x[KLMHR]?[0-9A-Fa-f]+)
 | (?P<num>-?\d+\.\d*(?:[eE][-+]?\d+)?|-?\d+)
 | (?P<word>[A-Za-z_][\w.]*)
 | (?P<dots>\.\.\.)
 | (?P<p>[()\[\]{}<>,=*:|])
''', re.X)

def tokenize(s):
    out = []; i = 0; n = len(s)
    while i < n:
        m = TOK.match(s, i)
        if not m: raise SyntaxError('tok at %r' % s[i:i+40])
        i = m.end()
        k = m.lastgroup
        if k == 'ws': continue
        out.append((k, m.group(k)))
    return out

def unq(name):
    # %"foo" -> foo ; @"x" -> x
    n = name[1:]
    if n.startswith('"'): n = n[1:-1]
    return n

# ---------------------------------------------------------------- types
class T:  # type
    pass
class IntT(T):
    def __init__(s, b): s.bits = b
    def __repr__(s): return 'i%d' % s.bits
class FloatT(T):
    def __init__(s, k): s.kind = k   # float double x86_fp80
    def __repr__(s): return s.kind
class PtrT(T):
    def __init__(s, to): s.to = to
    def __repr__(s): return '%r*' % (s.to,)
class ArrT(T):
    def __init__(s, n, el): s.n = n; s.el = el
    def __repr__(s): return '[%d x %r]' % (s.n, s.el)
class StructT(T):
    def __init__(s, els, packed=False, name=None): s.els = els; s.packed = packed; s.name = name
    def __repr__(s): return s.name or '{%s}' % ','.join(map(repr, s.els))
class NamedT(T):
    def __init__(s, name): s.name = name
    def __repr__(s): return '%' + s.name
class FuncT(T):
    def __init__(s, ret, args, va): s.ret = ret; s.args = args; s.va = va
    def __repr__(s): return '%r(%s)' % (s.ret, ','.join(map(repr, s.args)))
class VoidT(T):
    def __repr__(s): return 'void'
class OtherT(T):
    def __init__(s, k): s.k = k
    def __repr__(s): return s.k
VOID = VoidT()

class Module:
    def __init__(s):
        s.types = {}      # name -> StructT or None(opaque)
        s.globals = {}    # name -> dict
        s.funcs = {}      # name -> Function
        s.decls = {}      # name -> (ret, args, va, attrs)
        s.aliases = {}
        s.attrgroups = {}

class P:  # token stream parser
    def __init__(s, toks, mod): s.t = toks; s.i = 0; s.mod = mod
    def peek(s, k=0): return s.t[s.i+k] if s.i+k < len(s.t) else ('eof', '')
    def next(s): x = s.t[s.i]; s.i += 1; return x
    def accept(s, v):
        if s.peek()[1] == v: s.i += 1; return True
        return False
    def expect(s, v):
        x = s.next()
        if x[1] != v: raise SyntaxError('expected %r got %r near %r' % (v, x, s.t[max(0,s.i-6):s.i+4]))
    def at_type(s):
        k, v = s.peek()
        if k == 'lid': return True
        if k == 'word': return bool(re.match(r'^(i\d+|void|float|double|half|x86_fp80|fp128|ptr|label|metadata|token|opaque)$', v))
        return v in ('[', '{', '<')
    def type(s):
        k, v = s.next()
        if k == 'word':
            m = re.match(r'^i(\d+)$', v)
            if m: t = IntT(int(m.group(1)))
            elif v == 'void': t = VOID
            elif v in ('float', 'double', 'x86_fp80', 'half', 'fp128'): t = FloatT(v)
            elif v in ('label', 'metadata', 'token', 'opaque'): t = OtherT(v)
            else: raise SyntaxError('type? %r' % v)
        elif k == 'lid': t = NamedT(unq(v))
        elif v == '[':
            n = int(s.next()[1]); s.expect('x'); el = s.type(); s.expect(']'); t = ArrT(n, el)
        elif v == '{':
            els = []
            if not s.accept('}'):
                while True:
                    els.append(s.type())
                    if s.accept('}'): break
                    s.expect(',')
            t = StructT(els)
        elif v == '<':
            if s.peek()[1] == '{':
                s.next(); els = []
                if not s.accept('}'):
                    while True:
                        els.append(s.type())
                        if s.accept('}'): break
                        s.expect(',')
                s.expect('>'); t = StructT(els, packed=True)
            else:
                n = int(s.next()[1]); s.expect('x'); el = s.type(); s.expect('>'); t = OtherT('vec')
        else: raise SyntaxError('type? %r %r' % (k, v))
        while True:
            if s.accept('*'): t = PtrT(t)
            elif s.peek()[1] == '(' :
                # function type
                s.next(); args = []; va = False
                if not s.accept(')'):
                    while True:
                        if s.peek()[0] == 'dots': s.next(); va = True
                        else: args.append(s.type())
                        if s.accept(')'): break
                        s.expect(',')
                t = FuncT(t, args, va)
            else: break
        return t

    PARAM_ATTRS = {'noundef','nonnull','signext','zeroext','noalias','nocapture','readonly','readnone','writeonly','returned','inreg','nest','immarg','nofree','swiftself','noreturn'}
    def param_attrs(s):
        a = {}
        while True:
            k, v = s.peek()
            if k == 'word' and v in s.PARAM_ATTRS: s.next(); a[v] = True
            elif k == 'word' and v in ('align', 'dereferenceable', 'dereferenceable_or_null'):
                s.next()
                if s.accept('('): a[v] = int(s.next()[1]); s.expect(')')
                else: a[v] = int(s.next()[1])
            elif k == 'word' and v in ('sret', 'byval', 'byref', 'inalloca', 'preallocated', 'elementtype'):
                s.next(); s.expect('('); a[v] = s.type(); s.expect(')')
            else: return a

    # ---- constants / values
    def value(s, ty):
        """parse a value operand of (known) type ty -> tree"""
        k, v = s.next()
        if k == 'lid': return ('local', unq(v))
        if k == 'gid': return ('global', unq(v))
        if k == 'num':
            if isinstance(ty, FloatT): return ('fconst', ty.kind, v)
            return ('int', int(v))
        if k == 'hexf': return ('fconst', ty.kind if isinstance(ty, FloatT) else 'double', v)
        if k == 'cstr': return ('cstr', decode_cstr(v))
        if k == 'word':
            if v == 'true': return ('int', 1)
            if v == 'false': return ('int', 0)
            if v == 'null': return ('null',)
            if v in ('undef', 'poison'): return ('undef',)
            if v == 'zeroinitializer': return ('zero',)
            if v in ('bitcast', 'ptrtoint', 'inttoptr', 'trunc', 'zext', 'sext', 'addrspacecast'):
                s.expect('('); t1 = s.type(); x = s.value(t1); s.expect('to'); t2 = s.type(); s.expect(')')
                return ('cast', v, t1, x, t2)
            if v == 'getelementptr':
                s.accept('inbounds'); s.expect('('); bt = s.type(); s.expect(',')
                pt = s.type(); base = s.value(pt); idx = []
                while s.accept(','):
                    s.accept('inrange'); it = s.type(); idx.append((it, s.value(it)))
                s.expect(')')
                return ('gep', bt, base, idx)
            if v in ('add', 'sub', 'mul', 'and', 'or', 'xor', 'shl', 'lshr', 'ashr'):
                while s.peek()[1] in ('nuw', 'nsw', 'exact'): s.next()
                s.expect('('); t1 = s.type(); a = s.value(t1); s.expect(','); t2 = s.type(); b = s.value(t2); s.expect(')')
                return ('binop', v, t1, a, b)
            if v == 'icmp':
                pred = s.next()[1]; s.expect('('); t1 = s.type(); a = s.value(t1); s.expect(','); t2 = s.type(); b = s.value(t2); s.expect(')')
                return ('icmp', pred, t1, a, b)
            if v == 'select':
                s.expect('('); t0 = s.type(); c = s.value(t0); s.expect(','); t1 = s.type(); a = s.value(t1); s.expect(','); t2 = s.type(); b = s.value(t2); s.expect(')')
                return ('select', c, t1, a, b)
            raise SyntaxError('const word %r' % v)
        if v == '{' or (v == '<' and s.peek()[1] == '{'):
            if v == '<': s.next()
            els = []
            if not s.accept('}'):
                while True:
                    t = s.type(); els.append((t, s.value(t)))
                    if s.accept('}'): break
                    s.expect(',')
            if v == '<': s.expect('>')
            return ('struct', els)
        if v == '[':
            els = []
            if not s.accept(']'):
                while True:
                    t = s.type(); els.append((t, s.value(t)))
                    if s.accept(']'): break
                    s.expect(',')
            return ('array', els)
        raise SyntaxError('value? %r %r' % (k, v))

def decode_cstr(v):
    body = v[2:-1]; out = bytearray(); i = 0
    while i < len(body):
        c = body[i]
        if c == '\\':
            if body[i+1] == '\\': out.append(92); i += 2
            else: out.append(int(body[i+1:i+3], 16)); i += 3
        else: out.append(ord(c)); i += 1
    return bytes(out)

# ---------------------------------------------------------------- layout
class Layout:
    def __init__(s, mod): s.mod = mod; s.cache = {}
    def resolve(s, t):
        while isinstance(t, NamedT):
            d = s.mod.types.get(t.name)
            if d is None: raise KeyError('opaque type %s' % t.name)
            t = d
        return t
    def size_align(s, t):
        t0 = t
        if isinstance(t, NamedT):
            if t.name in s.cache: return s.cache[t.name]
        t = s.resolve(t)
        if isinstance(t, IntT):
            b = (t.bits + 7) // 8
            sz = 1
            while sz < b: sz *= 2
            r = (sz, min(sz, 16) if sz <= 8 else 16)
            if t.bits == 128: r = (16, 16)
        elif isinstance(t, FloatT):
            r = {'float': (4, 4), 'double': (8, 8), 'x86_fp80': (16, 16), 'half': (2, 2), 'fp128': (16, 16)}[t.kind]
        elif isinstance(t, (PtrT, FuncT)): r = (8, 8)
        elif isinstance(t, ArrT):
            es, ea = s.size_align(t.el); r = (es * t.n, ea)
        elif isinstance(t, StructT):
            off = 0; al = 1
            for e in t.els:
                es, ea = s.size_align(e)
                if t.packed: ea = 1
                off = (off + ea - 1) // ea * ea + es; al = max(al, ea)
            r = ((off + al - 1) // al * al, al)
        else: raise TypeError('size of %r' % (t,))
        if isinstance(t0, NamedT): s.cache[t0.name] = r
        return r
    def field_off(s, t, idx):
        t = s.resolve(t); off = 0
        for i, e in enumerate(t.els):
            es, ea = s.size_align(e)
            if t.packed: ea = 1
            off = (off + ea - 1) // ea * ea
            if i == idx: return off, e
            off += es
        raise IndexError

# ---------------------------------------------------------------- module parse
class Function:
    def __init__(s): s.blocks = collections.OrderedDict(); s.order = []

def split_top(text):
    """yield top-level entities; function bodies kept whole"""
    lines = text.split('\n'); i = 0
    while i < len(lines):
        ln = lines[i]
        if ln.startswith('define '):
            j = i
            while lines[j] != '}': j += 1
            yield 'define', lines[i:j+1]; i = j + 1
        else:
            if ln.strip() and not ln.startswith(';'): yield 'line', ln
            i += 1

LINKAGE = {'private','internal','available_externally','linkonce','weak','common','appending','extern_weak','linkonce_odr','weak_odr','external',
           'dso_local','dso_preemptable','default','hidden','protected','unnamed_addr','local_unnamed_addr','thread_local','externally_initialized',
           'dllimport','dllexport'}

def parse_module(text):
    mod = Module()
    for kind, item in split_top(text):
        if kind == 'line':
            ln = item
            if ln.startswith('%'):
                m = re.match(r'^(%(?:"[^"]*"|[-\w.$]+)) = type (.*)$', ln)
                name = unq(m.group(1)); body = m.group(2)
                if body.strip() == 'opaque': mod.types[name] = None
                else:
                    p = P(tokenize(body), mod); t = p.type(); t.name = '%' + name; mod.types[name] = t
            elif ln.startswith('@'):
                toks = tokenize(ln); p = P(toks, mod)
                name = unq(p.next()[1]); p.expect('=')
                attrs = set()
                while p.peek()[0] == 'word' and (p.peek()[1] in LINKAGE):
                    w = p.next()[1]; attrs.add(w)
                    if w == 'thread_local' and p.accept('('): p.next(); p.expect(')')
                if p.peek()[1] == 'alias':
                    p.next(); t = p.type(); p.expect(','); t2 = p.type(); tgt = p.value(t2)
                    mod.aliases[name] = tgt; continue
                if p.peek()[1] == 'ifunc': continue
                kindw = p.next()[1]  # global / constant
                assert kindw in ('global', 'constant'), ln[:200]
                t = p.type(); init = None
                if 'external' not in attrs and 'extern_weak' not in attrs:
                    init = p.value(t)
                mod.globals[name] = dict(type=t, init=init, const=(kindw == 'constant'), attrs=attrs)
            elif ln.startswith('declare '):
                m = re.match(r'^declare (.*)$', ln)
                toks = tokenize(m.group(1)); p = P(toks, mod)
                parse_fn_header(p, mod, None)
            elif ln.startswith('attributes '):
                m = re.match(r'^attributes (#\d+) = \{(.*)\}$', ln)
                mod.attrgroups[m.group(1)] = m.group(2)
        else:
            lines = item
            hdr = lines[0]
            toks = tokenize(hdr[len('define '):].rstrip(' {'))
            p = P(toks, mod); f = Function()
            parse_fn_header(p, mod, f)
            f.body = lines[1:-1]
    return mod

def parse_fn_header(p, mod, f):
    while p.peek()[0] == 'word' and (p.peek()[1] in LINKAGE or p.peek()[1] in ('noundef','nonnull','signext','zeroext','noalias') or p.peek()[1].endswith('cc')):
        p.next()
    rattrs = p.param_attrs()
    ret = p.type()
    rattrs2 = p.param_attrs()
    name = unq(p.next()[1]); p.expect('(')
    params = []; va = False
    if not p.accept(')'):
        while True:
            if p.peek()[0] == 'dots': p.next(); va = True
            else:
                t = p.type(); a = p.param_attrs(); pname = None
                if p.peek()[0] == 'lid': pname = unq(p.next()[1])
                params.append((t, a, pname))
            if p.accept(')'): break
            p.expect(',')
    rest = ' '.join(v for k, v in p.t[p.i:])
    groups = re.findall(r'#\d+', rest)
    info = dict(ret=ret, params=params, va=va, groups=groups, rest=rest)
    if f is None: mod.decls[name] = info
    else:
        f.name = name; f.info = info; mod.funcs[name] = f

# ---------------------------------------------------------------- C emission
def cname(n):
    return re.sub(r'[^A-Za-z0-9_]', lambda m: '_%02x' % ord(m.group(0)), n)

class Emitter:
    def __init__(s, mod, stubs=()):
        s.mod = mod; s.L = Layout(mod); s.aggs = {}; s.out = []; s.stubs = set(stubs)
        s.typeid = {}   # typeinfo global -> small int
        s.need_globals = collections.OrderedDict(); s.need_funcs = collections.OrderedDict(); s.ext_funcs = collections.OrderedDict()
    # ---- C types for SSA values
    def cty(s, t):
        t = s.L.resolve(t) if isinstance(t, NamedT) else t
        if isinstance(t, IntT):
            if t.bits == 1: return 'uint8_t'
            if t.bits <= 8: return 'uint8_t'
            if t.bits <= 16: return 'uint16_t'
            if t.bits <= 32: return 'uint32_t'
            if t.bits <= 64: return 'uint64_t'
            return 'unsigned __int128'
        if isinstance(t, FloatT): return {'float': 'float', 'double': 'double', 'x86_fp80': 'long double'}[t.kind]
        if isinstance(t, (PtrT, FuncT)): return 'char*'
        if isinstance(t, (StructT, ArrT)): return s.aggty(t)
        if isinstance(t, VoidT): return 'void'
        raise TypeError('cty %r' % (t,))
    def sty(s, t):
        return {'uint8_t': 'int8_t', 'uint16_t': 'int16_t', 'uint32_t': 'int32_t', 'uint64_t': 'int64_t', 'unsigned __int128': '__int128'}[s.cty(t)]
    def aggty(s, t):
        key = repr(s.flat(t))
        if key not in s.aggs:
            nm = 'agg%d' % len(s.aggs); s.aggs[key] = (nm, None)
            t = s.L.resolve(t)
            if isinstance(t, StructT):
                fields = []; off = 0
                for i, e in enumerate(t.els):
                    fields.append('%s f%d;' % (s.cty(e), i))
                body = 'struct %s%s { %s };' % (nm, '', ' '.join(fields) if fields else 'char _e;')
                if t.packed: body = 'struct __attribute__((packed)) %s { %s };' % (nm, ' '.join(fields))
            else:
                body = 'struct %s { %s a[%d]; };' % (nm, s.cty(t.el), max(t.n, 1))
            s.aggs[key] = (nm, body)
        return 'struct ' + s.aggs[key][0]
    def flat(s, t):
        t = s.L.resolve(t) if isinstance(t, NamedT) else t
        if isinstance(t, StructT): return ('S', t.packed, tuple(s.flat(e) for e in t.els))
        if isinstance(t, ArrT): return ('A', t.n, s.flat(t.el))
        if isinstance(t, (PtrT, FuncT)): return 'p'
        return repr(t)

    # ---- constant / operand expressions
    def gaddr(s, name):
        if name in s.mod.aliases:
            tgt = s.mod.aliases[name]
            while tgt[0] == 'cast': tgt = tgt[3]
            assert tgt[0] == 'global'; return s.gaddr(tgt[1])
        if name in s.mod.funcs or name in s.mod.decls:
            if getattr(s, 'in_global_init', False) and not any(r.search(name) for r in getattr(s, 'keep_virtual', [])):
                s.lazy_dropped = getattr(s, 'lazy_dropped', set()) | {name}
                return '((char*)&__VERIF_unmodelled_virtual)'
            name = s.ref_func(name); return '((char*)&F_%s)' % cname(name)
        s.need_globals.setdefault(name, True)
        g = s.mod.globals.get(name)
        if g is not None and 'thread_local' in g['attrs'] and g['init'] is not None:
            return '((char*)&g_%s[__verif_tid])' % cname(name)       # one copy per modelled thread; the harness says which thread is running
        return '((char*)&g_%s)' % cname(name)
    def ref_func(s, name):
        if name in s.mod.aliases:
            tgt = s.mod.aliases[name]
            while tgt[0] == 'cast': tgt = tgt[3]
            name = tgt[1]
        if name in s.mod.funcs and name not in s.stubs: s.need_funcs.setdefault(name, True)
        else: s.ext_funcs.setdefault(name, True)
        return name
    def val(s, ty, v, loc=None):
        k = v[0]
        if k == 'local': return 'v_' + cname(v[1])
        if k == 'global': return s.gaddr(v[1])
        if k == 'int':
            ct = s.cty(ty)
            if isinstance(s.L.resolve(ty) if isinstance(ty, NamedT) else ty, IntT):
                bits = (s.L.resolve(ty) if isinstance(ty, NamedT) else ty).bits
                x = v[1] & ((1 << bits) - 1)
                if bits > 64: return '((unsigned __int128)%dULL)' % x  # small consts only
                return '((%s)%dULL)' % (ct, x)
            return '((%s)%d)' % (ct, v[1])
        if k == 'null': return '((char*)0)'
        if k == 'undef' or k == 'zero':
            ct = s.cty(ty)
            if ct.startswith('struct'): return '((%s){0})' % ct
            return '((%s)0)' % ct
        if k == 'fconst': return s.fconst(v[1], v[2])
        if k == 'cast':
            op, t1, x, t2 = v[1:]
            xs = s.val(t1, x)
            if op in ('bitcast', 'addrspacecast'): return xs
            if op == 'ptrtoint': return '((%s)(uintptr_t)%s)' % (s.cty(t2), xs)
            if op == 'inttoptr': return '((char*)(uintptr_t)%s)' % xs
            if op == 'trunc': return '((%s)%s)' % (s.cty(t2), xs)
            if op == 'zext': return '((%s)%s)' % (s.cty(t2), xs)
            if op == 'sext': return '((%s)(%s)(%s)%s)' % (s.cty(t2), s.sty(t2), s.sty(t1), xs)
        if k == 'gep':
            bt, base, idx = v[1:]
            return s.gep_expr(bt, s.val(PtrT(bt), base), [(it, s.val(it, iv), iv) for it, iv in idx])
        if k == 'binop':
            op, t1, a, b = v[1:]
            cop = {'add': '+', 'sub': '-', 'mul': '*', 'and': '&', 'or': '|', 'xor': '^'}[op]
            return '((%s)(%s %s %s))' % (s.cty(t1), s.val(t1, a), cop, s.val(t1, b))
        if k == 'struct':
            ct = s.cty(ty); return '((%s){%s})' % (ct, ', '.join(s.val(t, x) for t, x in v[1]))
        raise NotImplementedError('val %r' % (v,))
    def fconst(s, kind, txt):
        if txt.startswith('0xK'):
            h = txt[3:]; # 80-bit: 4 hex sign/exp + 16 hex mantissa
            se = int(h[:4], 16); man = int(h[4:], 16); sign = -1 if se >> 15 else 1; e = se & 0x7fff
            if e == 0 and man == 0: return '0.0L'
            if e == 0x7fff: return '(1.0L/0.0L)' if man << 1 & ((1<<64)-1) == 0 else '(0.0L/0.0L)'
            return '(%s0x%x.0p%dL)' % ('-' if sign < 0 else '', man, e - 16383 - 63)
        if txt.startswith('0x'):
            import struct
            d = struct.unpack('>d', bytes.fromhex(txt[2:].rjust(16, '0')))[0]
            if d != d: r = '(0.0/0.0)'
            elif d in (float('inf'), float('-inf')): r = '(%s1.0/0.0)' % ('-' if d < 0 else '')
            else: r = d.hex()
            return '((float)%s)' % r if kind == 'float' else '((%s)%s)' % ('double' if kind == 'double' else 'long double', r)
        return '((%s)%s)' % ({'float': 'float', 'double': 'double', 'x86_fp80': 'long double'}[kind], txt if ('.' in txt or 'e' in txt) else txt + '.0')
    def gep_expr(s, bt, base, idx):
        # idx: list of (type, cexpr, tree)
        parts = []; const = 0
        t = bt
        first = True
        for it, ex, tree in idx:
            if first:
                sz = s.L.size_align(t)[0]; first = False
                if tree[0] == 'int': const += sz * sx(tree[1], it)
                else: parts.append('(int64_t)(%s)%s * %d' % (s.sty(it), ex, sz))
                continue
            rt = s.L.resolve(t)
            if isinstance(rt, StructT):
                assert tree[0] == 'int'
                off, ft = s.L.field_off(rt, tree[1]); const += off; t = ft
            elif isinstance(rt, ArrT):
                sz = s.L.size_align(rt.el)[0]
                if tree[0] == 'int': const += sz * sx(tree[1], it)
                else: parts.append('(int64_t)(%s)%s * %d' % (s.sty(it), ex, sz))
                t = rt.el
            else: raise TypeError('gep into %r' % (rt,))
        e = base
        if const: parts.append(str(const))
        if parts: e = '(%s + (%s))' % (base, ' + '.join(parts))
        return e

def sx(v, it):
    bits = it.bits
    v &= (1 << bits) - 1
    return v - (1 << bits) if v >> (bits - 1) else v

# ---------------------------------------------------------------- function body translation
class FnTrans:
    def __init__(s, em, f):
        s.em = em; s.f = f; s.mod = em.mod; s.L = em.L
        s.types = {}   # local name -> type
        s.lines = []
        s.decls = collections.OrderedDict()
    def nounwind_callee(s, callee_tree, groups, line):
        if '#' in line:
            for g in re.findall(r'#\d+', line.split(')')[-1] if ')' in line else line):
                if 'nounwind' in s.mod.attrgroups.get(g, ''): return True
        if callee_tree[0] == 'global':
            n = callee_tree[1]
            info = s.mod.funcs[n].info if n in s.mod.funcs else s.mod.decls.get(n)
            if info:
                for g in info['groups']:
                    if 'nounwind' in s.mod.attrgroups.get(g, ''): return True
            if n.startswith('llvm.'): return True
        return False
    def deflocal(s, name, ty):
        s.types[name] = ty
        if isinstance(ty, VoidT): return
        s.decls['v_' + cname(name)] = s.em.cty(ty)
    def translate(s):
        f = s.f; em = s.em; info = f.info
        # parameters
        ps = []
        for i, (t, a, n) in enumerate(info['params']):
            n = n if n is not None else str(i)
            s.types[n] = t; ps.append('%s v_%s' % (em.cty(t), cname(n)))
        s.ret = info['ret']
        rct = em.cty(s.ret)
        s.default_ret = 'return;' if isinstance(s.ret, VoidT) else ('return (%s){0};' % rct if rct.startswith('struct') else 'return (%s)0;' % rct)
        # split blocks
        blocks = collections.OrderedDict(); cur = None
        nparams = len(info['params'])
        entry = str(sum(1 for p in info['params'] if p[2] is None or p[2].isdigit()))
        for ln in f.body:
            st = ln.strip()
            if not st or st.startswith(';'): continue
            m = re.match(r'^([-\w.$]+|"[^"]+"):', ln)
            if m and not ln.startswith(' '):
                cur = m.group(1).strip('"'); blocks[cur] = []; continue
            if cur is None:
                cur = entry; blocks[cur] = []
            blocks[cur].append(st)
        s.blocks = blocks
        # join multi-line instrs (switch, landingpad, invoke)
        for b in blocks:
            merged = []
            for st in blocks[b]:
                if merged and (st.startswith('to label') or st.startswith('catch ') or st.startswith('cleanup') or st.startswith('filter ')
                               or (merged[-1].startswith('switch') and not merged[-1].rstrip().endswith(']'))
                               or (re.match(r'^(i\d+ |\])', st) and 'switch' in merged[-1] and not merged[-1].rstrip().endswith(']'))):
                    merged[-1] += ' ' + st
                else: merged.append(st)
            blocks[b] = merged
        # first pass: collect phi info
        s.phis = collections.defaultdict(list)  # block -> [(dst, ty, [(val, pred)])]
        parsed = collections.OrderedDict()
        for b, ins in blocks.items():
            parsed[b] = []
            for st in ins:
                toks = tokenize(st); p = P(toks, s.mod)
                dst = None
                if p.peek()[0] == 'lid' and p.peek(1)[1] == '=':
                    dst = unq(p.next()[1]); p.next()
                parsed[b].append((dst, p, st))
        # pre-scan phis to get types and incoming
        for b, ins in parsed.items():
            for dst, p, st in ins:
                if p.peek()[1] == 'phi':
                    p.next(); ty = p.type(); inc = []
                    while True:
                        p.expect('['); v = p.value(ty); p.expect(','); pred = unq(p.next()[1]); p.expect(']'); inc.append((v, pred))
                        if not p.accept(','): break
                    s.phis[b].append((dst, ty, inc)); s.deflocal(dst, ty)
        # emit
        for b, ins in parsed.items():
            s.cur = b
            s.lines.append('L_%s: ;' % cname(b))
            for dst, p, st in ins:
                if st.startswith('%') and ' = phi ' in st: continue
                try:
                    s.instr(dst, p, st)
                except Exception as e:
                    raise RuntimeError('%s: %s @ %s' % (type(e).__name__, e, st[:300])) from e
        hdr = '%s F_%s(%s)' % (rct, cname(f.name), ', '.join(ps) if ps else 'void')
        body = ['  %s %s;' % (ct, n) for n, ct in s.decls.items()]
        return hdr, body + ['  ' + l for l in s.lines]

    def goto(s, target):
        """emit phi copies for edge cur->target then goto"""
        out = []
        ph = s.phis.get(target, [])
        if ph:
            tmp = []
            for dst, ty, inc in ph:
                for v, pred in inc:
                    if pred == s.cur:
                        tmp.append((dst, ty, v)); break
            if len(tmp) == 1:
                dst, ty, v = tmp[0]; out.append('v_%s = %s;' % (cname(dst), s.em.val(ty, v)))
            else:
                for i, (dst, ty, v) in enumerate(tmp): out.append('%s t%d_ = %s;' % (s.em.cty(ty), i, s.em.val(ty, v)))
                for i, (dst, ty, v) in enumerate(tmp): out.append('v_%s = t%d_;' % (cname(dst), i))
        out.append('goto L_%s;' % cname(target))
        return '{ ' + ' '.join(out) + ' }'

    def tv(s, p):
        t = p.type(); p.param_attrs(); v = p.value(t); return t, v
    def instr(s, dst, p, st):
        em = s.em; op = p.next()[1]
        emit = s.lines.append
        if op in ('tail', 'musttail', 'notail'): op = p.next()[1]
        if op == 'ret':
            t = p.type()
            if isinstance(t, VoidT): emit('return;')
            else: emit('return %s;' % em.val(t, p.value(t)))
        elif op == 'br':
            if p.accept('label'): emit(s.goto(unq(p.next()[1])))
            else:
                t = p.type(); c = p.value(t); p.expect(','); p.expect('label'); a = unq(p.next()[1]); p.expect(','); p.expect('label'); b = unq(p.next()[1])
                emit('if (%s & 1) %s else %s' % (em.val(t, c), s.goto(a), s.goto(b)))
        elif op == 'switch':
            t = p.type(); v = p.value(t); p.expect(','); p.expect('label'); d = unq(p.next()[1]); p.expect('[')
            cases = []
            while not p.accept(']'):
                ct = p.type(); cv = p.value(ct); p.expect(','); p.expect('label'); cases.append((cv, unq(p.next()[1])))
            emit('switch (%s) {' % em.val(t, v))
            for cv, l in cases: emit('  case %s: %s' % (em.val(t, cv), s.goto(l)))
            emit('  default: %s }' % s.goto(d))
        elif op == 'unreachable': emit('__VERIF_unreachable();')
        elif op == 'alloca':
            p.accept('inalloca'); t = p.type(); n = 1
            if p.accept(','):
                if p.peek()[1] != 'align': nt = p.type(); nv = p.value(nt); n = nv[1]; p.accept(',')
            sz, al = s.L.size_align(t)
            m = re.search(r'align (\d+)', st); al = int(m.group(1)) if m else al
            buf = 'a_' + cname(dst)
            rt_ = s.L.resolve(t) if isinstance(t, NamedT) else t
            if TYPED_ALLOCA and n == 1 and isinstance(rt_, StructT) and rt_.els:
                s.decls['%s __attribute__((aligned(%d)))' % (buf, al)] = em.cty(t)
                s.deflocal(dst, PtrT(t)); emit('v_%s = (char*)&%s;' % (cname(dst), buf))
            else:
                s.decls['%s[%d] __attribute__((aligned(%d)))' % (buf, max(1, sz * n), al)] = 'char'
                s.deflocal(dst, PtrT(t)); emit('v_%s = %s;' % (cname(dst), buf))
        elif op == 'load':
            atomic = p.accept('atomic'); p.accept('volatile'); t = p.type(); p.expect(','); pt = p.type(); ptr = p.value(pt)
            s.deflocal(dst, t); emit('v_%s = *(%s*)%s;' % (cname(dst), em.cty(t), em.val(pt, ptr)))
        elif op == 'store':
            p.accept('atomic'); p.accept('volatile'); t = p.type(); v = p.value(t); p.expect(','); pt = p.type(); ptr = p.value(pt)
            emit('*(%s*)%s = %s;' % (em.cty(t), em.val(pt, ptr), em.val(t, v)))
        elif op == 'getelementptr':
            p.accept('inbounds'); bt = p.type(); p.expect(','); pt = p.type(); base = p.value(pt); idx = []
            while p.accept(','):
                it = p.type(); iv = p.value(it); idx.append((it, em.val(it, iv), iv))
            s.deflocal(dst, PtrT(IntT(8))); emit('v_%s = %s;' % (cname(dst), em.gep_expr(bt, em.val(pt, base), idx)))
        elif op in ('bitcast', 'addrspacecast'):
            t1 = p.type(); v = p.value(t1); p.expect('to'); t2 = p.type(); s.deflocal(dst, t2)
            c1 = em.cty(t1); c2 = em.cty(t2)
            if c1 == c2: emit('v_%s = %s;' % (cname(dst), em.val(t1, v)))
            else: emit('{ %s tmp_ = %s; memcpy(&v_%s, &tmp_, sizeof tmp_); }' % (c1, em.val(t1, v), cname(dst)))
        elif op in ('trunc', 'zext', 'sext', 'ptrtoint', 'inttoptr', 'fptrunc', 'fpext', 'fptoui', 'fptosi', 'uitofp', 'sitofp'):
            t1 = p.type(); v = p.value(t1); p.expect('to'); t2 = p.type(); s.deflocal(dst, t2); x = em.val(t1, v); d = 'v_' + cname(dst)
            if op == 'trunc':
                r = '(%s)%s' % (em.cty(t2), x)
                if t2.bits not in (8, 16, 32, 64): r = '(%s)(%s & %dULL)' % (em.cty(t2), x, (1 << t2.bits) - 1)
            elif op == 'zext': r = '(%s)%s' % (em.cty(t2), x)
            elif op == 'sext':
                if t1.bits == 1: r = '(%s)(-(%s)(%s & 1))' % (em.cty(t2), em.sty(t2), x)
                else: r = '(%s)(%s)(%s)%s' % (em.cty(t2), em.sty(t2), em.sty(t1), x)
            elif op == 'ptrtoint': r = '(%s)(uintptr_t)%s' % (em.cty(t2), x)
            elif op == 'inttoptr': r = '(char*)(uintptr_t)%s' % x
            elif op in ('fptrunc', 'fpext'): r = '__VERIF_FPCVT_%s_%s(%s)' % (t1.kind, t2.kind, x)
            elif op == 'uitofp': r = '__VERIF_UITOFP_%s((uint64_t)%s)' % (t2.kind, x)
            elif op == 'sitofp':
                sx_ = '(int64_t)(%s)%s' % (em.sty(t1), x) if t1.bits in (8, 16, 32, 64) else '(int64_t)(%s)%s' % (em.sty(t1), x)
                if t1.bits == 1: sx_ = '(int64_t)(-(int64_t)(%s & 1))' % x
                r = '__VERIF_SITOFP_%s(%s)' % (t2.kind, sx_)
            elif op == 'fptoui' and t2.bits in (8, 16, 32, 64): r = '__VERIF_FPTOUI_%s_i%d(%s)' % (t1.kind, t2.bits, x)
            elif op == 'fptosi' and t2.bits in (8, 16, 32, 64): r = '__VERIF_FPTOSI_%s_i%d(%s)' % (t1.kind, t2.bits, x)
            elif op == 'fptoui': r = '(%s)%s' % (em.cty(t2), x)
            elif op == 'fptosi': r = '(%s)(%s)%s' % (em.cty(t2), em.sty(t2), x)
            emit('%s = %s;' % (d, r))
        elif op in ('add', 'sub', 'mul', 'udiv', 'sdiv', 'urem', 'srem', 'shl', 'lshr', 'ashr', 'and', 'or', 'xor'):
            while p.peek()[1] in ('nuw', 'nsw', 'exact'): p.next()
            t = p.type(); a = p.value(t); p.expect(','); b = p.value(t); s.deflocal(dst, t)
            A = em.val(t, a); B = em.val(t, b); ct = em.cty(t); sct = em.sty(t); d = 'v_' + cname(dst)
            bits = s.L.resolve(t).bits if isinstance(t, NamedT) else t.bits
            cop = {'add': '+', 'sub': '-', 'mul': '*', 'udiv': '/', 'urem': '%', 'and': '&', 'or': '|', 'xor': '^', 'shl': '<<', 'lshr': '>>'}.get(op)
            if op in ('udiv', 'urem'): emit('__VERIF_divcheck(%s != 0);' % B)
            if op in ('sdiv', 'srem'):
                emit('__VERIF_divcheck(%s != 0); __VERIF_divcheck(!((%s)%s == (%s)((%s)1 << %d) && (%s)%s == -1));' % (B, sct, A, sct, ct, bits - 1, sct, B))
            if op in ('mul', 'udiv', 'sdiv', 'urem', 'srem') and bits in (8, 16, 32, 64):
                r = '__VERIF_%s_i%d(%s, %s)' % (op.upper(), bits, A, B)
            elif op in ('sdiv', 'srem'):
                r = '(%s)((%s)%s %s (%s)%s)' % (ct, sct, A, '/' if op == 'sdiv' else '%', sct, B)
            elif op == 'ashr': r = '(%s)((%s)%s >> %s)' % (ct, sct, A, B)
            elif op in ('shl', 'lshr'): r = '(%s)(%s %s %s)' % (ct, A, cop, B)
            else: r = '(%s)(%s %s %s)' % (ct, A, cop, B)
            if bits == 1 and op in ('add', 'sub', 'mul', 'xor'): r = '(%s & 1)' % r
            emit('%s = %s;' % (d, r))
        elif op in ('fadd', 'fsub', 'fmul', 'fdiv', 'frem', 'fneg'):
            while p.peek()[1] in ('fast', 'nnan', 'ninf', 'nsz', 'arcp', 'contract', 'afn', 'reassoc'): p.next()
            t = p.type(); a = p.value(t); s.deflocal(dst, t)
            if op == 'fneg': emit('v_%s = __VERIF_FNEG_%s(%s);' % (cname(dst), t.kind, em.val(t, a)))
            else:
                p.expect(','); b = p.value(t)
                emit('v_%s = __VERIF_%s_%s(%s, %s);' % (cname(dst), op.upper(), t.kind, em.val(t, a), em.val(t, b)))
        elif op == 'icmp':
            pred = p.next()[1]; t = p.type(); a = p.value(t); p.expect(','); b = p.value(t); s.deflocal(dst, IntT(1))
            A = em.val(t, a); B = em.val(t, b)
            if isinstance(em.L.resolve(t) if isinstance(t, NamedT) else t, (PtrT,)):
                if pred in ('eq', 'ne'): r = '%s %s %s' % (A, '==' if pred == 'eq' else '!=', B)
                else: r = '(uintptr_t)%s %s (uintptr_t)%s' % (A, {'ult': '<', 'ule': '<=', 'ugt': '>', 'uge': '>='}[pred], B)
            elif pred[0] == 's': r = '(%s)%s %s (%s)%s' % (em.sty(t), A, {'slt': '<', 'sle': '<=', 'sgt': '>', 'sge': '>='}[pred], em.sty(t), B)
            else: r = '%s %s %s' % (A, {'eq': '==', 'ne': '!=', 'ult': '<', 'ule': '<=', 'ugt': '>', 'uge': '>='}[pred], B)
            emit('v_%s = (%s);' % (cname(dst), r))
        elif op == 'fcmp':
            while p.peek()[1] in ('fast', 'nnan', 'ninf', 'nsz', 'arcp', 'contract', 'afn', 'reassoc'): p.next()
            pred = p.next()[1]; t = p.type(); a = p.value(t); p.expect(','); b = p.value(t); s.deflocal(dst, IntT(1))
            A = em.val(t, a); B = em.val(t, b)
            un = '(%s != %s || %s != %s)' % (A, A, B, B)
            base = {'eq': '==', 'ne': '!=', 'lt': '<', 'le': '<=', 'gt': '>', 'ge': '>='}
            if pred in ('true', 'false'): r = '1' if pred == 'true' else '0'
            elif pred == 'ord': r = '!%s' % un
            elif pred == 'uno': r = un
            elif pred[0] == 'o': r = '(!%s && %s %s %s)' % (un, A, base[pred[1:]], B)
            else: r = '(%s || %s %s %s)' % (un, A, base[pred[1:]], B)
            emit('v_%s = %s;' % (cname(dst), r))
        elif op == 'select':
            tc = p.type(); c = p.value(tc); p.expect(','); t = p.type(); a = p.value(t); p.expect(','); t2 = p.type(); b = p.value(t2); s.deflocal(dst, t)
            emit('v_%s = (%s & 1) ? %s : %s;' % (cname(dst), em.val(tc, c), em.val(t, a), em.val(t, b)))
        elif op == 'extractvalue':
            t = p.type(); v = p.value(t); idxs = []
            while p.accept(','): idxs.append(int(p.next()[1]))
            e = em.val(t, v); ct = t
            for i in idxs:
                rt = s.L.resolve(ct)
                if isinstance(rt, StructT): e += '.f%d' % i; ct = rt.els[i]
                else: e += '.a[%d]' % i; ct = rt.el
            s.deflocal(dst, ct); emit('v_%s = %s;' % (cname(dst), e))
        elif op == 'insertvalue':
            t = p.type(); v = p.value(t); p.expect(','); et = p.type(); ev = p.value(et); idxs = []
            while p.accept(','): idxs.append(int(p.next()[1]))
            s.deflocal(dst, t); d = 'v_' + cname(dst); emit('%s = %s;' % (d, em.val(t, v)))
            e = d; ct = t
            for i in idxs:
                rt = s.L.resolve(ct)
                if isinstance(rt, StructT): e += '.f%d' % i; ct = rt.els[i]
                else: e += '.a[%d]' % i; ct = rt.el
            emit('%s = %s;' % (e, em.val(et, ev)))
        elif op in ('call', 'invoke'):
            s.call(dst, p, st, op)
        elif op == 'landingpad':
            t = p.type(); s.deflocal(dst, t)
            emit('v_%s.f0 = __exc_obj; v_%s.f1 = (uint32_t)__exc_sel; __exc_pending = 0;' % (cname(dst), cname(dst)))
        elif op == 'resume':
            t = p.type(); v = p.value(t)
            emit('__VERIF_resume(%s.f0); %s' % (em.val(t, v), s.default_ret))
        elif op == 'freeze':
            t = p.type(); v = p.value(t); s.deflocal(dst, t); emit('v_%s = %s;' % (cname(dst), em.val(t, v)))
        elif op == 'atomicrmw':
            p.accept('volatile'); aop = p.next()[1]; pt = p.type(); ptr = p.value(pt); p.expect(','); t = p.type(); v = p.value(t)
            s.deflocal(dst, t); P_ = '(*(%s*)%s)' % (em.cty(t), em.val(pt, ptr)); d = 'v_' + cname(dst)
            cop = {'add': '+', 'sub': '-', 'and': '&', 'or': '|', 'xor': '^'}.get(aop)
            if aop == 'xchg': emit('%s = %s; %s = %s;' % (d, P_, P_, em.val(t, v)))
            else: emit('%s = %s; %s = (%s)(%s %s %s);' % (d, P_, P_, em.cty(t), d, cop, em.val(t, v)))
        elif op == 'cmpxchg':
            p.accept('weak'); p.accept('volatile'); pt = p.type(); ptr = p.value(pt); p.expect(','); t = p.type(); c = p.value(t); p.expect(','); t2 = p.type(); n = p.value(t2)
            rt = StructT([t, IntT(1)]); s.deflocal(dst, rt); d = 'v_' + cname(dst); P_ = '(*(%s*)%s)' % (em.cty(t), em.val(pt, ptr))
            emit('%s.f0 = %s; %s.f1 = (%s.f0 == %s); if (%s.f1) %s = %s;' % (d, P_, d, d, em.val(t, c), d, P_, em.val(t, n)))
        elif op == 'fence': pass
        else:
            raise NotImplementedError(op)

    def lp_clauses(s, lpblock):
        """return (has_cleanup, [typeinfo names or None for catch-all]) of landing pad block"""
        for st in s.blocks[lpblock]:
            if ' = landingpad ' in st:
                cleanup = bool(re.search(r'\bcleanup\b', st))
                cl = []
                for m in re.finditer(r'catch i8\* (null|bitcast \(.*? (@(?:"[^"]+"|[\w.$]+)) to i8\*\)|(@(?:"[^"]+"|[\w.$]+)))', st):
                    if m.group(1) == 'null': cl.append(None)
                    else: cl.append(unq(m.group(2) or m.group(3)))
                if 'filter' in st: cleanup = True
                return cleanup, cl
        raise RuntimeError('no landingpad in %s' % lpblock)

    def call(s, dst, p, st, op):
        em = s.em; emit = s.lines.append
        while p.peek()[0] == 'word' and (p.peek()[1] in ('fastcc', 'ccc', 'coldcc') or p.peek()[1] in P.PARAM_ATTRS or p.peek()[1] in ('fast','nnan','ninf','nsz','arcp','contract','afn','reassoc')): p.next()
        p.param_attrs()
        rt = p.type()
        fnty = None
        if isinstance(rt, PtrT) and isinstance(rt.to, FuncT): fnty = rt.to; rt = fnty.ret   # explicit fn ptr type (varargs)
        elif isinstance(rt, FuncT): fnty = rt; rt = fnty.ret
        callee = p.value(PtrT(IntT(8))); p.expect('(')
        args = []
        if not p.accept(')'):
            while True:
                t = p.type()
                if isinstance(t, OtherT) and t.k == 'metadata':
                    # skip metadata operand
                    depth = 0
                    while not (depth == 0 and p.peek()[1] in (',', ')')):
                        if p.peek()[1] == '(': depth += 1
                        if p.peek()[1] == ')': depth -= 1
                        p.next()
                    args.append(None)
                else:
                    a = p.param_attrs(); v = p.value(t); args.append((t, a, v))
                if p.accept(')'): break
                p.expect(',')
        okl = unl = None
        if op == 'invoke':
            m = re.search(r'to label (%(?:"[^"]+"|[-\w.$]+)) unwind label (%(?:"[^"]+"|[-\w.$]+))', st); okl = unq(m.group(1)); unl = unq(m.group(2))
        if dst is not None: s.deflocal(dst, rt)
        d = ('v_%s = ' % cname(dst)) if (dst is not None and not isinstance(rt, VoidT)) else ''
        argv = [em.val(t, v) for (t, a, v) in [x for x in args if x]]
        byval_pre = []
        for i, x in enumerate([x for x in args if x]):
            t, a, v = x
            if 'byval' in a:
                sz, al = s.L.size_align(a['byval']); tmpn = 'bv%d_%d' % (len(s.lines), i)
                s.decls['%s[%d] __attribute__((aligned(%d)))' % (tmpn, max(sz, 1), max(al, a.get('align', 1)))] = 'char'
                byval_pre.append('memcpy(%s, %s, %d);' % (tmpn, argv[i], sz)); argv[i] = tmpn
        for l in byval_pre: emit(l)
        nounwind = s.nounwind_callee(callee, None, st)
        if callee[0] == 'global':
            name = callee[1]
            if name.startswith('llvm.'):
                s.intrinsic(dst, rt, name, args, argv);
                if op == 'invoke': emit(s.goto(okl))
                return
            selfcall = (name == s.f.name)
            name = em.ref_func(name)
            call = 'F_%s(%s)' % (cname(name), ', '.join(argv))
            if selfcall:
                # direct recursion: one hook a harness may replace (-DVERIF_SELF_CALL(f)=hook) to verify ONE level of a recursion against a contract
                # of the recursive call (the induction hypothesis); by default the function calls itself
                call = 'VERIF_SELF_CALL(F_%s)(%s)' % (cname(name), ', '.join(argv))
            if fnty is not None and fnty.va:
                call = 'F_%s(%s)' % (cname(name), ', '.join(argv))
        else:
            fp = em.val(PtrT(IntT(8)), callee)
            sig = '%s (*)(%s)' % (em.cty(rt), ', '.join(em.cty(t) for (t, a, v) in [x for x in args if x]) or 'void')
            call = '((%s)%s)(%s)' % (sig, fp, ', '.join(argv))
            if sig == 'void (*)(char*)' and len(argv) == 1:
                # shared_ptr control blocks (dispose/destroy) and virtual destructors: one hook a harness may replace (-DVERIF_CALL_V1=...) so that
                # CBMC does not have to consider every void(char*) function of the unit at every such call
                call = 'VERIF_CALL_V1(%s, %s)' % (fp, argv[0])
        emit(d + call + ';')
        if op == 'invoke':
            cleanup, cl = s.lp_clauses(unl)
            conds = []
            sel = []
            for ti in cl:
                if ti is None: sel.append('{ __exc_sel = 1; %s }' % s.goto(unl))  # catch-all
                else:
                    em.need_globals.setdefault(ti, True)
                    sel.append('if (__VERIF_isa(__exc_obj, (char*)&g_%s)) { __exc_sel = %d; %s }' % (cname(ti), em.typeid_of(ti), s.goto(unl)))
            tail = '{ __exc_sel = 0; %s }' % s.goto(unl) if cleanup else s.default_ret
            emit('if (__exc_pending) { %s %s }' % (' '.join(sel), tail))
            emit(s.goto(okl))
        elif not nounwind:
            emit('if (__exc_pending) %s' % s.default_ret)

    def intrinsic(s, dst, rt, name, args, argv):
        emit = s.lines.append; d = 'v_%s' % cname(dst) if dst is not None else None
        if name.startswith(('llvm.lifetime', 'llvm.dbg', 'llvm.assume', 'llvm.experimental.noalias', 'llvm.invariant', 'llvm.donothing')): return
        const_n = len(args) > 2 and args[2] is not None and args[2][2][0] == 'int'
        if name.startswith('llvm.memcpy'): emit(('memcpy(%s, %s, %s);' if const_n else '__VERIF_memcpy(%s, %s, %s);') % tuple(argv[:3])); return
        if name.startswith('llvm.memmove'): emit(('memmove(%s, %s, %s);' if const_n else '__VERIF_memmove(%s, %s, %s);') % tuple(argv[:3])); return
        if name.startswith('llvm.memset'): emit('memset(%s, %s, %s);' % tuple(argv[:3])); return
        if name.startswith('llvm.expect'): emit('%s = %s;' % (d, argv[0])); return
        if name.startswith('llvm.eh.typeid.for'):
            v = args[0][2]
            while v[0] == 'cast': v = v[3]
            emit('%s = %d;' % (d, s.em.typeid_of(v[1]))); return
        m = re.match(r'llvm\.(u|s)(add|sub|mul)\.with\.overflow\.i(\d+)', name)
        if m:
            sg, o, bits = m.group(1), m.group(2), int(m.group(3))
            emit('%s.f1 = __builtin_%s_overflow((%s)%s, (%s)%s, (%s*)&%s.f0);' % (d, o, ('uint%d_t' if sg == 'u' else 'int%d_t') % bits, argv[0], ('uint%d_t' if sg == 'u' else 'int%d_t') % bits, argv[1], ('uint%d_t' if sg == 'u' else 'int%d_t') % bits, d)); return
        m = re.match(r'llvm\.(umax|umin|smax|smin)\.i(\d+)', name)
        if m:
            k = m.group(1); t = args[0][0]; cast = '(%s)' % s.em.sty(t) if k[0] == 's' else ''
            emit('%s = (%s%s %s %s%s) ? %s : %s;' % (d, cast, argv[0], '>' if k.endswith('max') else '<', cast, argv[1], argv[0], argv[1])); return
        if name.startswith('llvm.abs'):
            t = args[0][0]; emit('%s = ((%s)%s < 0) ? (%s)(-%s) : %s;' % (d, s.em.sty(t), argv[0], s.em.cty(t), argv[0], argv[0])); return
        if name.startswith('llvm.trap'): emit('__VERIF_trap();'); return
        if name.startswith(('llvm.stacksave',)): emit('%s = 0;' % d); return
        if name.startswith(('llvm.stackrestore', 'llvm.prefetch')): return
        if name.startswith('llvm.fabs'): emit('%s = (%s < 0) ? -%s : %s;' % (d, argv[0], argv[0], argv[0])); return
        if name.startswith('llvm.objectsize'): emit('%s = (%s)-1;' % (d, s.em.cty(rt))); return
        if name.startswith('llvm.is.constant'): emit('%s = 0;' % d); return
        raise NotImplementedError('intrinsic ' + name)

def typeid_of(self, ti):
    if ti not in self.typeid: self.typeid[ti] = len(self.typeid) + 2
    return self.typeid[ti]
Emitter.typeid_of = typeid_of

# ---------------------------------------------------------------- globals emission
def emit_global(em, name):
    g = em.mod.globals[name]; t = g['type']; L = em.L
    cn = 'g_' + cname(name)
    if g['init'] is None and name.startswith('_ZTI'):
        if name in RT_TYPEINFOS: return 'extern struct verif_ti %s;' % cn, '/* %s provided by rt */' % cn
        return 'extern struct verif_ti %s;' % cn, 'struct verif_ti %s = {0, "*%s"};' % (cn, name[4:])
    if g['init'] is None:
        # external: opaque object of its size if known, else 8 bytes
        try: sz = max(L.size_align(t)[0], 1)
        except Exception: sz = 8
        return 'extern char %s[%d];' % (cn, sz), 'char %s[%d] __attribute__((aligned(16)));' % (cn, sz)
    def ctype_of(t):
        rt = L.resolve(t) if isinstance(t, NamedT) else t
        if isinstance(rt, ArrT) and isinstance(rt.el, IntT) and rt.el.bits == 8: return None
        return em.cty(t)
    def init(t, v):
        rt = L.resolve(t) if isinstance(t, NamedT) else t
        k = v[0]
        if isinstance(rt, StructT):
            if k in ('zero', 'undef'): return '{0}'
            assert k == 'struct', v
            return '{' + ', '.join(init(et, ev) for et, ev in v[1]) + '}' if v[1] else '{0}'
        if isinstance(rt, ArrT):
            if k in ('zero', 'undef'): return '{{0}}'
            if k == 'cstr': return '{{' + ','.join(str(b) for b in v[1]) + '}}'
            assert k == 'array', v
            return '{{' + ', '.join(init(et, ev) for et, ev in v[1]) + '}}'
        return em.val(t, v)
    ct = em.cty(t)
    tl = 'thread_local' in g['attrs']
    decl = 'extern %s %s%s;' % (ct, cn, '[VERIF_NTHREADS]' if tl else '')
    em.in_global_init = True
    try:
        iv = init(t, g['init'])
        defn = ('%s %s[VERIF_NTHREADS] = { %s };  /* thread_local: one copy per modelled thread */' % (ct, cn, ', '.join([iv] * 2))) if tl else ('%s %s = %s;' % (ct, cn, iv))
    finally: em.in_global_init = False
    return decl, defn

RT_TYPEINFOS = {'_ZTISt9exception', '_ZTISt9bad_alloc', '_ZTISt8bad_cast', '_ZTISt11logic_error', '_ZTISt12domain_error', '_ZTISt16invalid_argument',
                '_ZTISt12length_error', '_ZTISt12out_of_range', '_ZTISt13runtime_error', '_ZTISt11range_error', '_ZTISt14overflow_error',
                '_ZTISt15underflow_error', '_ZTISt17bad_function_call', '_ZTISt12system_error', '_ZTISt10bad_typeid'}

PRELUDE = r'''
#include <stdint.h>
#include <stddef.h>
#include <string.h>
#include <stdlib.h>
#include "verif_rt.h"
#include "verif_arith.h"
#ifndef VERIF_SELF_CALL
#define VERIF_SELF_CALL(f) f
#endif
#ifdef VERIF_SELF_CALL_PROTO
VERIF_SELF_CALL_PROTO
#endif
#ifndef VERIF_CALL_V1
#define VERIF_CALL_V1(f, a) ((void (*)(char*))(f))(a)
#endif
void __VERIF_v1_hook(char* f, char* a);
#define VERIF_NTHREADS 2
extern int __verif_tid;      /* the modelled thread that is running (thread_local globals are arrays indexed by it); harnesses switch it between calls */
'''

def main():
    ap = argparse.ArgumentParser()
    ap.add_argument('ll'); ap.add_argument('out'); ap.add_argument('--root', action='append', default=[]); ap.add_argument('--stub', action='append', default=[])
    ap.add_argument('--stubre', action='append', default=[])
    ap.add_argument('--keep-virtual', action='append', default=[])
    ap.add_argument('--need-global', action='append', default=[], help='mangled global (e.g. a typeinfo object) to emit even if the translated code does not reference it')
    ap.add_argument('--cut', action='append', default=[], help='demangled-name regex: like --stubre, but an empty body is generated (value-irrelevant constructors/destructors cut as pairs)')
    a = ap.parse_args()
    mod = parse_module(open(a.ll).read())
    names = list(mod.funcs) + list(mod.decls)
    dem = subprocess.run(['llvm-cxxfilt-14'], input='\n'.join(names), capture_output=True, text=True).stdout.split('\n')
    n2d = dict(zip(names, dem))
    stubs = set(a.stub)
    for r in a.stubre:
        rr = re.compile(r); stubs |= {n for n in names if rr.search(n2d[n])}
    cuts = set()
    for r in a.cut:
        rr = re.compile(r); cuts |= {n for n in names if rr.search(n2d[n])}
    stubs |= cuts
    em = Emitter(mod, stubs)
    em.keep_virtual = [re.compile(r) for r in a.keep_virtual]
    roots = []
    for r in a.root:
        rr = re.compile(r); roots += [n for n in mod.funcs if rr.search(n2d[n])]
    for r in roots: em.need_funcs[r] = True
    for g in a.need_global:
        if g in mod.globals or g.startswith('_ZTI'): em.need_globals.setdefault(g, True)
    for r in roots: print('ROOT ' + n2d[r][:300], file=sys.stderr)
    done = {}; fails = {}
    while True:
        todo = [f for f in em.need_funcs if f not in done and f not in fails]
        if not todo: break
        for fn in todo:
            try:
                done[fn] = FnTrans(em, mod.funcs[fn]).translate()
            except Exception as e:
                fails[fn] = str(e)
    # globals (fixpoint since initializers reference more)
    gdone = collections.OrderedDict()
    while True:
        todo = [g for g in em.need_globals if g not in gdone]
        if not todo: break
        for g in todo:
            if g in mod.globals:
                try: gdone[g] = emit_global(em, g)
                except Exception as e: gdone[g] = ('extern char g_%s[8]; /* FAIL %s */' % (cname(g), str(e)[:80]), 'char g_%s[8];' % cname(g))
            elif g.startswith('_ZTI'): gdone[g] = ('extern struct verif_ti g_%s;' % cname(g), ('/* rt */' if g in RT_TYPEINFOS else 'struct verif_ti g_%s = {0, "*%s"};' % (cname(g), g[4:])))
            else: gdone[g] = ('extern char g_%s[8];' % cname(g), '/* undefined global %s */ char g_%s[8];' % (g, cname(g)))
        # new funcs may be referenced from initializers
        for fn in [f for f in em.need_funcs if f not in done and f not in fails]:
            try: done[fn] = FnTrans(em, mod.funcs[fn]).translate()
            except Exception as e: fails[fn] = str(e)
    with open(a.out, 'w') as o:
        o.write(PRELUDE)
        for k, (nm, body) in em.aggs.items(): o.write('struct %s;\n' % nm)
        # order aggs by dependency: naive - emit in creation order reversed? emit sorted by nesting via repeated passes
        emitted = set(); items = list(em.aggs.values())
        for _ in range(len(items) + 1):
            for nm, body in items:
                if nm in emitted: continue
                deps = set(re.findall(r'struct (agg\d+) f\d+;|struct (agg\d+) a\[', body))
                deps = {x for t in deps for x in t if x}
                if deps <= emitted: o.write(body + '\n'); emitted.add(nm)
        o.write('\n/* ---- function prototypes */\n')
        for fn, (hdr, body) in done.items(): o.write('/* %s */\n%s;\n' % (n2d.get(fn, fn)[:200], hdr))
        for fn in em.ext_funcs:
            if fn in done: continue
            info = mod.funcs[fn].info if fn in mod.funcs else mod.decls.get(fn)
            if info is None: o.write('/* unknown external %s */\n' % fn); continue
            ps = ', '.join(em.cty(t) for t, a_, n in info['params']) or 'void'
            if info['va']: ps += ', ...'
            if fn in cuts and not info['va']:
                rct = em.cty(info['ret']); pl = ', '.join('%s p%d' % (em.cty(t), i) for i, (t, a_, n) in enumerate(info['params'])) or 'void'
                body = '' if rct == 'void' else ('%s r_; memset(&r_, 0, sizeof r_); return r_;' % rct)
                o.write('/* CUT (empty body): %s */\n%s F_%s(%s) { %s }\n' % (n2d.get(fn, fn)[:200], rct, cname(fn), pl, body))
                print('CUT  ' + n2d.get(fn, fn)[:200], file=sys.stderr)
                continue
            o.write('/* EXTERNAL%s: %s */\n%s F_%s(%s);\n' % (' (stubbed)' if fn in stubs else '', n2d.get(fn, fn)[:200], em.cty(info['ret']), cname(fn), ps))
        for fn, msg in fails.items():
            info = mod.funcs[fn].info
            ps = ', '.join(em.cty(t) for t, a_, n in info['params']) or 'void'
            o.write('/* FAILED: %s : %s */\n%s F_%s(%s);\n' % (n2d.get(fn, fn)[:200], msg.replace('*/', '* /')[:300], em.cty(info['ret']), cname(fn), ps))
        o.write('\n/* ---- globals */\n')
        for g, (decl, defn) in gdone.items(): o.write(decl + '\n')
        for g, (decl, defn) in gdone.items(): o.write(defn + '\n')
        o.write('\n/* ---- single-inheritance typeinfo graph of the module */\n')
        o.write('char* __VERIF_base_of_gen(char* ti) {\n')
        for g in gdone:
            gi = mod.globals.get(g)
            if g.startswith('_ZTI') and gi and gi['init'] is not None and gi['init'][0] == 'struct':
                els = gi['init'][1]
                vt = els[0][1]
                while vt[0] in ('cast',): vt = vt[3]
                vtn = vt[2][1] if vt[0] == 'gep' and vt[2][0] == 'global' else (vt[1] if vt[0] == 'global' else '?')
                if 'si_class_type_info' in vtn and len(els) == 3:
                    b = els[2][1]
                    while b[0] == 'cast': b = b[3]
                    o.write('  if (ti == (char*)&g_%s) return (char*)&g_%s;\n' % (cname(g), cname(b[1])))
                elif 'vmi_class_type_info' in vtn:
                    o.write('  if (ti == (char*)&g_%s) { __CPROVER_assert(0, "MODEL: multiple-inheritance typeinfo walked"); return 0; }\n' % cname(g))
        o.write('  return 0;\n}\n')
        o.write('\n/* ---- typeids */\n')
        for ti, n in em.typeid.items(): o.write('/* typeid %d = %s */\n' % (n, ti))
        o.write('\n/* ---- functions */\n')
        for fn, (hdr, body) in done.items():
            o.write('%s {\n%s\n}\n\n' % (hdr, '\n'.join(body)))
    print('translated %d functions, %d failed, %d external, %d globals' % (len(done), len(fails), len(em.ext_funcs), len(gdone)), file=sys.stderr)
    for fn in done: print('FUNC ' + n2d.get(fn, fn)[:200], file=sys.stderr)
    for fn, msg in list(fails.items())[:20]: print('FAIL', n2d.get(fn, fn)[-80:], '::', msg[:500].replace('\n', ' '), file=sys.stderr)
    for fn in em.ext_funcs:
        if fn not in done and fn not in cuts: print('EXT ', fn, '|', n2d.get(fn, fn)[:140], file=sys.stderr)

if __name__ == '__main__':
    main()
