#!/usr/bin/env python3
"""C01 structural lemma (NOT a solver verdict; labelled as such in the evidence): every cycle of the parser's call graph is depth-counted.

Read from the -O1 IR of the current tree (family `parser`, Depth_Counter's constructor pinned noinline): the call graph restricted to the member
functions of ChaiScript_Parser.  A member is *counted* if the first call it makes - in its entry block, before any other call to a parser member -
is the Depth_Counter constructor (`Depth_Counter dc{this};` as the first statement).  Lemma: after removing the counted members the graph is
acyclic.  Together with P8 (the real constructor throws eval_error once the depth exceeds the limit, the destructor restores it) this bounds the
native recursion of the parser by  limit x (longest chain of uncounted members), whatever the input - the "nesting limit is reported as an error"
clause of C01.  A member that recurses (directly or mutually) without passing a counter is reported with the cycle found."""
import re, sys

def parse_functions(txt):
    funcs = {}
    for m in re.finditer(r'^define [^@]*@("[^"]+"|[\w.$]+)\((.*?)^\}', txt, re.M | re.S):
        funcs[m.group(1).strip('"')] = m.group(0)
    return funcs

CALL_RX = re.compile(r'\b(?:call|invoke)\b[^@\n]*@("[^"]+"|[\w.$]+)\(')

def analyse(txt, syms, member_prefix='chaiscript::parser::ChaiScript_Parser<', counter_rx=r'Depth_Counter::Depth_Counter\(', root_rx=r'::parse_internal\('):
    funcs = parse_functions(txt)
    def is_member(n):
        d = syms.get(n, '')
        return member_prefix in d.split('(')[0]
    members = {n for n in funcs if is_member(n)}
    ctor = {n for n in funcs if re.search(counter_rx, syms.get(n, ''))} | {n for n, d in syms.items() if re.search(counter_rx, d)}
    edges = {}; counted = set()
    for n in members:
        body = funcs[n]
        callees = [c.strip('"') for c in CALL_RX.findall(body)]
        edges[n] = {c for c in callees if c in members and c not in ctor}
        # entry block = up to the first label line after the define line / first terminator
        lines = body.split('\n')[1:]
        first = None
        for ln in lines:
            if re.match(r'^[\w.$"-]+:', ln): break            # next basic block
            mm = CALL_RX.search(ln)
            if mm:
                c = mm.group(1).strip('"')
                if c in ctor: first = 'ctor'; break
                if c in members: first = 'member'; break
            if re.match(r'^\s+(br|switch|ret|resume|unreachable)\b', ln): break
        if first == 'ctor': counted.add(n)
    # only what parsing can reach: members reachable from parse_internal (debug_print & co. walk finished trees, they do not parse)
    roots = [n for n in members if re.search(root_rx, syms.get(n, ''))]
    reach = set(roots); work = list(roots)
    while work:
        n = work.pop()
        for c in edges.get(n, ()):
            if c not in reach: reach.add(c); work.append(c)
    # cycles among uncounted members (iterative DFS)
    g = {n: {c for c in edges[n] if c not in counted and c in reach} for n in reach if n not in counted}
    color = {}; cycle = None
    for s in sorted(g):
        if s in color: continue
        stack = [(s, iter(sorted(g[s])))]; color[s] = 1; path = [s]
        while stack and cycle is None:
            node, it = stack[-1]
            for c in it:
                if c not in g: continue
                if color.get(c) == 1: cycle = path[path.index(c):] + [c]; break
                if c not in color:
                    color[c] = 1; stack.append((c, iter(sorted(g[c])))); path.append(c); break
            else:
                color[node] = 2; stack.pop(); path.pop()
        if cycle: break
    # the recursive core: members on some cycle of the full graph (for the evidence)
    return dict(members=len(members), reachable_from_parse_internal=len(reach), roots=len(roots), counted=len(counted), ctor_found=bool(ctor), edges=sum(len(v) for v in edges.values()), cycle=cycle,
                counted_names=sorted(syms.get(n, n).split('>::')[-1].split('(')[0] for n in counted))

if __name__ == '__main__':
    import json
    sys.path.insert(0, __import__('os').path.dirname(__import__('os').path.dirname(__import__('os').path.abspath(__file__))))
    from irbmc import core
    from props.parser_family import FAM
    r = analyse(core.fread(FAM.build()), dict(core.symbols(FAM)))
    print(json.dumps(r, indent=1)[:3000])
