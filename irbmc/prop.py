#!/usr/bin/env python3
"""Property runner: runs a property's harnesses (CBMC) and auxiliary solver obligations,
triages counterexamples against known_findings.json, writes evidence, sets exit status.

exit 0  property held on everything explored (known findings are printed, not alarms)
exit 1  VIOLATION property=<id> replay=<path>   (confirmed or unreplayable counterexample not listed)
exit 2  INCONCLUSIVE (timeout / oom / tool error / unmodelled code reached / vacuous harness / unconfirmed CEX)
"""
import json, os, re, sys, time, traceback
from concurrent.futures import ThreadPoolExecutor, as_completed
from . import core

def load_known():
    p = os.path.join(core.VERIF, 'known_findings.json')
    if not os.path.exists(p): return []
    return json.load(open(p)).get('findings', [])

def match_known(known, pid, harness, shape, desc):
    for k in known:
        if k.get('status', 'open') != 'open': continue
        if k['property'] != pid: continue
        if k.get('harness') and not re.search(k['harness'], harness): continue
        if k.get('shape') and not re.search(k['shape'], shape): continue
        if re.search(k['assertion'], desc): return k
    return None

class Obligation:
    """a non-CBMC solver obligation (smtq / presym): fn(tier) -> list of result dicts
    each {name, verdict HOLDS|CEX|INCONCLUSIVE, wall, detail, failed:[{desc}], replay_inputs?}"""
    def __init__(self, name, fn): self.name = name; self.fn = fn

def run_property(pid, harnesses, tier, obligations=(), assumptions=(), outside=(), technique='', level='model_checking', partial=False):
    t0 = time.time()
    seed = int(os.environ.get('VERIF_SEED', '0') or 0)
    known = load_known()
    outdir = os.path.join(core.VERIF, 'out', pid); os.makedirs(outdir, exist_ok=True)
    workdir = os.path.join(core.CACHE, 'work', pid + '.' + core.repo_hash()[:8])      # per tree: concurrent runs against different trees must not share generated files
    results = []; raw = {}
    fatal = []
    # 1. build families / translate (parallel per harness; families locked internally)
    prepared = {}
    def prep(h):
        try: return h, core.prepare(h, workdir), None
        except Exception as e: return h, None, '%s: %s' % (type(e).__name__, e)
    with ThreadPoolExecutor(max_workers=core.NCPU) as ex:
        for h, pr, err in ex.map(prep, harnesses):
            if err:
                fatal.append('%s: %s' % (h.name, err[:1500]))
                results.append(dict(harness=h.name, shape='-', verdict='INCONCLUSIVE', why='build: ' + err[:600], status='builderror', wall=0, failed=[], witness_ok=False))
            else:
                cfile, info, gen = pr
                if info['failed'] or not info['translated']:
                    results.append(dict(harness=h.name, shape='-', verdict='INCONCLUSIVE', status='translate', wall=0, failed=[], witness_ok=False,
                                        why='translator: %d failed / %d translated; %s' % (info['failed'], info['translated'], '; '.join(info['fails'][:3]))))
                else:
                    prepared[h.name] = (h, cfile, info, gen)
    # 2. run all shapes
    jobs = []
    for name, (h, cfile, info, gen) in prepared.items():
        for shape in h.shapes: jobs.append((h, cfile, shape))
    def job(j):
        h, cfile, shape = j
        try: return j, core.run_shape(h, cfile, shape, tier)
        except Exception as e:
            return j, (dict(harness=h.name, shape=core.shape_tag(shape), verdict='INCONCLUSIVE', status='exception', why=traceback.format_exc()[-600:], wall=0, failed=[], witness_ok=False), None)
    # longest first
    jobs.sort(key=lambda j: -j[0].timeout)
    with ThreadPoolExecutor(max_workers=core.NCPU) as ex:
        for j, (res, r) in ex.map(job, jobs):
            results.append(res); raw[(res['harness'], res['shape'])] = (j, r)
    # 3. auxiliary obligations
    for ob in obligations:
        try:
            for res in ob.fn(tier):
                res.setdefault('harness', ob.name); res.setdefault('shape', '-'); res.setdefault('failed', []); res.setdefault('witness_ok', res.get('verdict') == 'HOLDS')
                res.setdefault('status', 'ok'); results.append(res)
        except Exception as e:
            results.append(dict(harness=ob.name, shape='-', verdict='INCONCLUSIVE', status='exception', why=traceback.format_exc()[-800:], wall=0, failed=[], witness_ok=False))
    # 4. triage counterexamples
    violations = []; known_seen = []; unconfirmed = []
    for res in results:
        if res['verdict'] != 'CEX': continue
        unlisted = []
        for f in res['failed']:
            if f.get('kind', 'violation') != 'violation': continue
            k = match_known(known, pid, res['harness'], res['shape'], f['desc'])
            if k: known_seen.append((k, res, f))
            else: unlisted.append(f)
        if not unlisted:
            res['verdict'] = 'KNOWN'; continue
        # get a trace + replay
        path = os.path.join(outdir, '%s_%s.%s.cex.json' % (re.sub(r'\W', '_', res['harness']), core.sha(res['harness'])[:4], re.sub(r'[^\w=,-]', '_', res['shape'])[:120]))
        rec = dict(property=pid, harness=res['harness'], shape=res['shape'], failed=unlisted, inputs=res.get('replay_inputs', {}), confirmed=None)
        key = (res['harness'], res['shape'])
        if key in raw and raw[key][1] is not None:
            (h, cfile, shape), r = raw[key]
            tr = core.get_trace(h, cfile, shape, tier, [f['id'] for f in unlisted])
            rec['cbmc_cmd'] = ' '.join(r['cmd'])
            if tr['status'] == 'ok':
                tpath = path[:-5] + '.trace.txt'
                open(tpath, 'w').write(tr['out'][-600000:]); rec['trace'] = tpath
                secs = core.trace_sections(tr['out'])
                rec['cases'] = []; oks = []
                for f in unlisted:
                    sec = secs.get(f['id'])
                    if sec is None: continue
                    inp = core.trace_values(sec, set(h.inputs))
                    case = dict(assertion=f['desc'], inputs=inp)
                    if h.replay:
                        try:
                            ok, detail = h.replay(inp, shape, f)
                        except Exception as e:
                            ok, detail = None, 'replayer failed: %s' % e
                        case['confirmed'] = ok; case['replay_detail'] = detail; oks.append(ok)
                    rec['cases'].append(case)
                if rec['cases']: rec['inputs'] = rec['cases'][0]['inputs']
                if h.replay and oks:
                    rec['confirmed'] = True if any(o is True for o in oks) else (False if all(o is False for o in oks) else None)
        json.dump(rec, open(path, 'w'), indent=1)
        res['cex'] = path; res['confirmed'] = rec['confirmed']
        if rec['confirmed'] is False:
            unconfirmed.append((res, path)); res['verdict'] = 'UNCONFIRMED'
        else:
            violations.append((res, path, unlisted))
    # 5. report
    seen_keys = set()
    for k, res, f in known_seen:
        kk = (k['property'], k.get('id', k['what']))
        if kk in seen_keys: continue
        seen_keys.add(kk)
        print('KNOWN-FINDING: property=%s %s' % (pid, k['what']))
    inconc = [r for r in results if r['verdict'] in ('INCONCLUSIVE', 'UNCONFIRMED')]
    for res, path, unl in violations:
        print('VIOLATION property=%s replay=%s' % (pid, path))
        print('   harness=%s shape=%s: %s' % (res['harness'], res['shape'], '; '.join(f['desc'] for f in unl)[:500]))
    for r in inconc:
        print('INCONCLUSIVE harness=%s shape=%s: %s' % (r['harness'], r['shape'], (r.get('why') or r['verdict'])[:500]))
    for f in fatal: print('BUILD-ERROR %s' % f[:1500])
    # 6. evidence
    wall = time.time() - t0
    nontriv = [r for r in results if r.get('witness_ok') and r['verdict'] in ('HOLDS', 'KNOWN', 'CEX')]
    def slim(r):
        d = {k: r[k] for k in ('harness', 'shape', 'verdict', 'wall', 'steps', 'vars', 'nprops', 'witness_ok', 'why', 'cex', 'confirmed', 'detail', 'bound_hit') if k in r and r[k] not in (None, [], '')}
        if r.get('failed'): d['failed'] = [f['desc'] for f in r['failed']][:8]
        return d
    hinfo = []
    for name, (h, cfile, info, gen) in prepared.items():
        hinfo.append(dict(harness=name, family=h.fam.name, inst_tu=os.path.relpath(h.fam.src, core.VERIF), roots=h.roots, functions_encoded=info['translated'],
                          functions=info['funcs'][:40], stubs=h.stubs, cuts=info.get('cuts', [])[:40], noinline=h.fam.noinline, externals=info['ext'][:60], cbmc_opts=h.opts, shapes=len(h.shapes),
                          timeout_s=h.timeout, mem_gb=h.mem_gb, note=h.note))
    ev = dict(property_id=pid, tier=tier, seed=seed, level=level, wall_s=round(wall, 1), violations=len(violations),
              coverage=dict(evaluations=len(results), distinct_nontrivial=len({(r['harness'], r['shape']) for r in nontriv}),
                            rule='one solver query per (harness, shape): the real functions named under harnesses[].roots, lowered by clang-14 from /repo and translated to C, are executed symbolically by CBMC for all data values inside the shape; a query is non-trivial when its reachability witness (an assert(false) at the end of the harness) is reported FAILED by the solver, i.e. the assertions were actually reached',
                            samples=[slim(r) for r in results][:400], harnesses=hinfo, outside_claim=list(outside),
                            solver_time_s=round(sum(r.get('wall', 0) for r in results), 1),
                            inconclusive=len(inconc), known_findings_seen=sorted({k.get('id', k['what']) for k, _, _ in known_seen}),
                            technique=technique, repo_include_hash=core.repo_hash()),
              assumptions=list(assumptions))
    os.makedirs(os.path.join(core.VERIF, 'evidence'), exist_ok=True)
    # a development run restricted with --only does not overwrite the property's evidence file (it would describe a fraction of the check)
    json.dump(ev, open(os.path.join(outdir, 'partial_evidence.json') if partial else os.path.join(core.VERIF, 'evidence', pid + '.json'), 'w'), indent=1)
    nh = sum(1 for r in results if r['verdict'] == 'HOLDS')
    print('%s tier=%s: %d queries, %d hold, %d known, %d violations, %d inconclusive, %.1fs wall, %.1fs solver' % (
        pid, tier, len(results), nh, sum(1 for r in results if r['verdict'] == 'KNOWN'), len(violations), len(inconc), wall, sum(r.get('wall', 0) for r in results)))
    if violations: return 1
    if inconc or fatal: return 2
    return 0
