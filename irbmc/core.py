#!/usr/bin/env python3
"""irbmc core: real headers -> clang-14 IR -> noinline marking -> opt O1 -> ir2c -> CBMC.

Everything here is regenerated from /repo's current working tree; results are cached
under /verif/.cache keyed by a content hash of /repo/include and of our own sources,
so a changed header changes every key.
"""
import hashlib, json, os, re, shutil, subprocess, sys, time, resource, threading
from concurrent.futures import ThreadPoolExecutor

VERIF = os.path.dirname(os.path.dirname(os.path.abspath(__file__)))
REPO = os.environ.get('VERIF_REPO', '/repo')
CACHE = os.path.join(VERIF, '.cache')
NCPU = int(os.environ.get('VERIF_JOBS', '16'))
CLANG_FLAGS = ['-std=c++20', '-DNDEBUG', '-I' + os.path.join(REPO, 'include'), '-fno-access-control',
               '-O1', '-Xclang', '-disable-llvm-passes', '-S', '-emit-llvm', '-w']

_lock = threading.Lock()
_klocks = {}

class klock:
    """per-key lock: a thread lock inside this process plus an flock across processes"""
    def __init__(self, key):
        self.key = key
        with _lock: self.tl = _klocks.setdefault(key, threading.Lock())
    def __enter__(self):
        import fcntl
        self.tl.acquire()
        d = os.path.join(CACHE, 'locks'); os.makedirs(d, exist_ok=True)
        self.f = open(os.path.join(d, sha(self.key)), 'w'); fcntl.flock(self.f, fcntl.LOCK_EX)
    def __exit__(self, *a):
        import fcntl
        fcntl.flock(self.f, fcntl.LOCK_UN); self.f.close(); self.tl.release()

def sha(*parts):
    h = hashlib.sha256()
    for p in parts:
        if isinstance(p, str): p = p.encode()
        h.update(p); h.update(b'\0')
    return h.hexdigest()[:20]

_repo_hash = None
def repo_hash():
    """content hash of every file under /repo/include (the whole library is header-only)"""
    global _repo_hash
    if _repo_hash is None:
        h = hashlib.sha256()
        for root, dirs, files in sorted(os.walk(os.path.join(REPO, 'include'))):
            dirs.sort()
            for f in sorted(files):
                p = os.path.join(root, f)
                h.update(p.encode()); h.update(open(p, 'rb').read())
        _repo_hash = h.hexdigest()[:20]
    return _repo_hash

def fread(p):
    with open(p) as f: return f.read()

def run(cmd, **kw):
    return subprocess.run(cmd, capture_output=True, text=True, **kw)

class BuildError(Exception):
    pass

# ------------------------------------------------------------------ IR families
class Family:
    """One instantiation TU (inst/<src>) plus the list of functions pinned noinline
    before optimisation (so that stub / contract boundaries survive -O1)."""
    def __init__(self, name, src, noinline=(), extra_flags=(), optlevel='O1'):
        self.name = name; self.src = os.path.join(VERIF, 'inst', src)
        self.noinline = list(noinline); self.extra_flags = list(extra_flags); self.optlevel = optlevel
    def key(self):
        return sha(repo_hash(), fread(self.src), ' '.join(CLANG_FLAGS + self.extra_flags), '\n'.join(self.noinline), self.optlevel,
                   fread(os.path.join(VERIF, 'irbmc', 'core.py')).split('# ---- end of IR-affecting code')[0])
    def raw_key(self):
        return sha(repo_hash(), fread(self.src), ' '.join(CLANG_FLAGS + self.extra_flags))
    def build(self):
        """returns path of the optimised .ll"""
        d = os.path.join(CACHE, 'ir'); os.makedirs(d, exist_ok=True)
        out = os.path.join(d, '%s.%s.%s.ll' % (self.name, self.key(), self.optlevel))
        with klock(out):
            if os.path.exists(out): return out
            raw = os.path.join(d, '%s.%s.raw.ll' % (self.name, self.raw_key()))
            with klock(raw):
                if not os.path.exists(raw):
                    r = run(['clang++-14'] + CLANG_FLAGS + self.extra_flags + [self.src, '-o', raw + '.tmp'])
                    if r.returncode != 0:
                        raise BuildError('clang failed on %s:\n%s' % (self.src, r.stderr[-3000:]))
                    os.replace(raw + '.tmp', raw)
            ni = out + '.ni.ll'
            n = mark_noinline(raw, ni, self.noinline)
            r = run(['opt-14', '-passes=default<%s>' % self.optlevel, '-S', ni, '-o', out + '.tmp'])
            os.unlink(ni)
            if r.returncode != 0: raise BuildError('opt failed: ' + r.stderr[-2000:])
            os.replace(out + '.tmp', out)
        return out

def demangle(names):
    r = subprocess.run(['llvm-cxxfilt-14'], input='\n'.join(names), capture_output=True, text=True)
    return r.stdout.split('\n')[:len(names)]

def mark_noinline(src, dst, pats):
    ll = fread(src)
    if not pats:
        open(dst, 'w').write(ll); return 0
    rx = [re.compile(p) for p in pats]
    names = re.findall(r'^define [^@]*@("[^"]+"|[\w.$]+)\(', ll, re.M)
    dem = demangle([n.strip('"') for n in names])
    stub = {n for n, d in zip(names, dem) if any(p.search(d) for p in rx)}
    always = set(re.findall(r'^attributes (#\d+) = \{[^}]*\balwaysinline\b', ll, re.M))
    out = []
    for line in ll.split('\n'):
        if line.startswith('define '):
            m = re.match(r'^define [^@]*@("[^"]+"|[\w.$]+)\(', line)
            if m and m.group(1) in stub and not (set(re.findall(r'#\d+', line)) & always):
                line2 = re.sub(r'\) ((?:unnamed_addr |local_unnamed_addr )?)(#\d+)', r') \1noinline \2', line, count=1)
                if line2 == line:  # no attribute group
                    line2 = re.sub(r'\)( (?:unnamed_addr |local_unnamed_addr )?)(comdat|align|personality|\{|!dbg)', r')\1noinline \2', line, count=1)
                line = line2.replace(' alwaysinline', '')
        out.append(line)
    open(dst, 'w').write('\n'.join(out))
    return len(stub)
# ---- end of IR-affecting code

# ------------------------------------------------------------------ symbols / layout
def symbols(fam):
    """[(mangled, demangled)] of every function defined in the family's IR (cached next to it)"""
    ll = fam.build(); p = ll + '.syms.json'
    with klock(p):
        if not os.path.exists(p):
            names = [n.strip('"') for n in re.findall(r'^define [^@]*@("[^"]+"|[\w.$]+)\(', fread(ll), re.M)]
            json.dump(list(zip(names, demangle(names))), open(p, 'w'))
    return json.load(open(p))

def find_symbols(fam, rx):
    r = re.compile(rx)
    return [(m, d) for m, d in symbols(fam) if r.search(d)]

def cname(n):
    return re.sub(r'[^A-Za-z0-9_]', lambda m: '_%02x' % ord(m.group(0)), n)

def csym(fam, rx):
    """C identifier (F_<mangled>) of the unique function whose demangled name matches rx"""
    l = find_symbols(fam, rx)
    if len(l) != 1: raise BuildError('csym(%s): %d matches for %r: %s' % (fam.name, len(l), rx, [d[:160] for _, d in l][:3]))
    return 'F_' + cname(l[0][0])

def layout_dir():
    """compile+run inst/layout_probe.cpp natively against /repo; returns the directory holding layout.h"""
    src = os.path.join(VERIF, 'inst', 'layout_probe.cpp')
    d = os.path.join(CACHE, 'layout', sha(repo_hash(), fread(src)))
    with klock(d):
        if not os.path.exists(os.path.join(d, 'layout.h')):
            os.makedirs(d, exist_ok=True)
            r = run(['g++', '-std=c++20', '-DNDEBUG', '-fno-access-control', '-w', '-I' + os.path.join(REPO, 'include'), src, '-o', os.path.join(d, 'probe')])
            if r.returncode != 0: raise BuildError('layout probe does not compile against /repo:\n' + r.stderr[-2000:])
            r = run([os.path.join(d, 'probe')])
            if r.returncode != 0: raise BuildError('layout probe failed')
            open(os.path.join(d, 'layout.h.tmp'), 'w').write('/* generated from /repo by inst/layout_probe.cpp */\n' + r.stdout)
            os.replace(os.path.join(d, 'layout.h.tmp'), os.path.join(d, 'layout.h'))
    return d

# ------------------------------------------------------------------ translation
def translate(fam, roots, stubs=(), keep_virtual=(), tag='', cuts=(), need_globals=()):
    """IR -> C for the call closure of `roots`; functions matching `stubs` stay extern.
    returns (path to gen.c, info dict)"""
    ll = fam.build()
    ir2c = os.path.join(VERIF, 'irbmc', 'ir2c.py')
    key = sha(ll, fread(ir2c), '\n'.join(roots), '\n'.join(stubs), '\n'.join(keep_virtual), '\n'.join(cuts), '\n'.join(need_globals))
    d = os.path.join(CACHE, 'gen'); os.makedirs(d, exist_ok=True)
    out = os.path.join(d, '%s.%s.%s.c' % (fam.name, tag or 'g', key))
    with klock(out):
        if not os.path.exists(out):
            cmd = [sys.executable, ir2c, ll, out + '.tmp']
            for r in roots: cmd += ['--root', r]
            for r in stubs: cmd += ['--stubre', r]
            for r in keep_virtual: cmd += ['--keep-virtual', r]
            for r in cuts: cmd += ['--cut', r]
            for r in need_globals: cmd += ['--need-global', r]
            r = run(cmd)
            if r.returncode != 0: raise BuildError('ir2c failed: ' + r.stderr[-3000:])
            open(out + '.info', 'w').write(r.stderr)
            os.replace(out + '.tmp', out)
    info = parse_ir2c_info(fread(out + '.info'))
    return out, info

def parse_ir2c_info(txt):
    info = dict(translated=0, failed=0, external=0, fails=[], ext=[], roots=[], funcs=[], cuts=[])
    m = re.search(r'translated (\d+) functions, (\d+) failed, (\d+) external', txt)
    if m: info.update(translated=int(m.group(1)), failed=int(m.group(2)), external=int(m.group(3)))
    for ln in txt.split('\n'):
        if ln.startswith('FAIL '): info['fails'].append(ln[5:])
        elif ln.startswith('EXT '): info['ext'].append(ln[5:])
        elif ln.startswith('ROOT '): info['roots'].append(ln[5:])
        elif ln.startswith('CUT  '): info['cuts'].append(ln[5:])
        elif ln.startswith('FUNC '): info['funcs'].append(ln[5:])
    return info

# ------------------------------------------------------------------ CBMC
CBMC_BASE = ['--unwinding-assertions', '--drop-unused-functions', '--no-malloc-may-fail',
             '--object-bits', '12', '--verbosity', '8']

RES_RE = re.compile(r'^\[([^\]]+)\] (?:line (\d+) )?(.*): (SUCCESS|FAILURE|UNKNOWN|ERROR)$')

def classify(desc, pid):
    """kind of a failed CBMC property, from its description"""
    if 'witness' in desc: return 'witness'
    if 'unwinding assertion' in desc or 'recursion unwinding' in desc: return 'unwind'
    if desc.startswith('BOUND'): return 'bound'
    if desc.startswith('MODEL') or 'unmodelled' in desc or 'no body for callee' in desc: return 'model'
    if desc.startswith('dereferenced function pointer must be'): return 'model'      # an indirect call whose targets the harness does not model (virtual / control-block call): a modelling gap, not a verdict
    return 'violation'

def _limits(mem_gb):
    def f():
        resource.setrlimit(resource.RLIMIT_AS, (int(mem_gb * (1 << 30)), int(mem_gb * (1 << 30))))
        os.setsid()
    return f

def run_cbmc(cfile, defines, opts, timeout, mem_gb, trace=False, extra=()):
    cmd = ['cbmc', cfile] + ['-D%s=%s' % (k, v) if v is not None else '-D%s' % k for k, v in defines.items()]
    cmd += ['-I', os.path.join(VERIF, 'rt'), '-I', os.path.join(VERIF, 'harness'), '-I', os.path.dirname(cfile), '-I', layout_dir()]
    # merge every --unwindset (harness, shape, string model) with the bounds of the runtime model's own loops
    allopts = list(opts) + list(extra); merged = ['F___cxa_throw.0:5', 'exc_type_of.0:5', '__VERIF_isa.0:6']; rest = []
    i = 0
    while i < len(allopts):
        if allopts[i] == '--unwindset' and i + 1 < len(allopts): merged.append(allopts[i + 1]); i += 2
        else: rest.append(allopts[i]); i += 1
    cmd += CBMC_BASE + rest + ['--unwindset', ','.join(merged)]
    if trace: cmd += ['--trace']
    t0 = time.time()
    try:
        p = subprocess.Popen(cmd, stdout=subprocess.PIPE, stderr=subprocess.PIPE, text=True, preexec_fn=_limits(mem_gb))
        try:
            so, se = p.communicate(timeout=timeout)
        except subprocess.TimeoutExpired:
            try: os.killpg(p.pid, 9)
            except Exception: pass
            p.kill(); so, se = p.communicate()
            return dict(status='timeout', wall=time.time() - t0, cmd=cmd, props=[], out=so[-2000:], err=se[-2000:])
    except Exception as e:
        return dict(status='toolerror', wall=time.time() - t0, cmd=cmd, props=[], out='', err=str(e))
    wall = time.time() - t0
    props = []
    for ln in so.split('\n'):
        m = RES_RE.match(ln)
        if m: props.append(dict(id=m.group(1), line=m.group(2), desc=m.group(3), res=m.group(4)))
    nobody = sorted(set(re.findall(r'no body for function (\S+)', so + se)) - set())
    nobody = [n for n in nobody if not n.startswith('nondet_')]
    steps = re.search(r'size of program expression: (\d+) steps', so)
    nvars = re.search(r'(\d+) variables, (\d+) clauses', so)
    st = 'ok'
    if 'VERIFICATION SUCCESSFUL' in so: st = 'ok'
    elif 'VERIFICATION FAILED' in so: st = 'ok'
    else:
        st = 'oom' if ('std::bad_alloc' in se or 'Out of memory' in se or 'out of memory' in so + se or p.returncode in (-9, 134, -6)) else 'toolerror'
    return dict(status=st, wall=wall, cmd=cmd, props=props, nobody=nobody, steps=int(steps.group(1)) if steps else 0,
                vars=int(nvars.group(1)) if nvars else 0, out=so, err=se[-3000:], rc=p.returncode)

def trace_sections(out):
    """split a CBMC text trace into {property id: text}"""
    secs = {}; cur = None
    for ln in out.split('\n'):
        m = re.match(r'^Trace for (\S+):$', ln)
        if m: cur = m.group(1); secs[cur] = []; continue
        if cur is not None: secs[cur].append(ln)
    return {k: '\n'.join(v) for k, v in secs.items()}

def trace_values(out, names, function='main'):
    """last assignment (made in `function`, default the harness main) to each named variable in a CBMC text trace:
    {name: {'v': printed value, 'hex': bit pattern as hex}}"""
    vals = {}; cur = None
    for ln in out.split('\n'):
        m = re.match(r'^State \d+ file \S+ function (\S+) line', ln)
        if m: cur = m.group(1); continue
        if cur != function: continue
        m = re.match(r'^\s+([A-Za-z_][\w\[\]\.]*)=(.+?)(?: \(([01 ]+)\))?$', ln)
        if not m: continue
        n = m.group(1)
        base = n.split('[')[0].split('.')[0]
        if base in names or n in names:
            d = {'v': m.group(2)}
            if m.group(3):
                bits = m.group(3).replace(' ', ''); d['hex'] = '%0*x' % ((len(bits) + 3) // 4, int(bits, 2))
            vals[n] = d
    return vals

# every std::string member pinned noinline in the families and provided by rt/string_model.c (SSO-only model)
STRING_MODEL = [r'^std::__cxx11::basic_string<char, std::char_traits<char>, std::allocator<char> >::(basic_string|~basic_string|push_back|_M_append|_M_assign|_M_replace_aux|_M_replace|_M_erase|_M_mutate|_M_create|_M_construct|reserve|append|assign|operator\+=|operator=|clear|_M_dispose)',
                r'std::operator\+<char, std::char_traits<char>, std::allocator<char> >']

# ------------------------------------------------------------------ harness description
class Harness:
    def __init__(self, name, fam, roots, src, stubs=(), keep_virtual=(), shapes=None, opts=(), timeout=300, mem_gb=8,
                 inputs=(), units=None, required_witness=('witness',), note='', replay=None, allow_nobody=(), defines=None, string_model=False, cuts=()):
        self.cuts = list(cuts)
        self.string_model = string_model
        if string_model:
            stubs = list(stubs) + STRING_MODEL
            opts = list(opts) + ['--unwindset', 's_set.0:17,s_app.0:17,s_len.0:18,s_len_x.0:18']
        self.name = name; self.fam = fam; self.roots = list(roots); self.src = src; self.stubs = list(stubs)
        self.keep_virtual = list(keep_virtual); self.shapes = shapes or [{}]; self.opts = list(opts)
        self.timeout = timeout; self.mem_gb = mem_gb; self.inputs = list(inputs); self.units = units
        self.required_witness = required_witness; self.note = note; self.replay = replay
        self.allow_nobody = set(allow_nobody); self.defines = defines or {}

def shape_tag(shape):
    """shape keys starting with '_' are runner directives (_tag: short name, _opts: extra cbmc options), not -D defines"""
    if '_tag' in shape: return shape['_tag']
    return ','.join('%s=%s' % (k, v) for k, v in shape.items() if not k.startswith('_')) or '-'

def shape_defs(h, shape, tier):
    d = dict(h.defines); d.update({k: v for k, v in shape.items() if not k.startswith('_')}); d['TIER_' + tier.upper()] = 1
    return d

STD_EXC_RX = re.compile(r'^void (F__ZNSt\d+(?:out_of_range|range_error|runtime_error|logic_error|length_error|domain_error|invalid_argument|overflow_error|underflow_error|bad_cast|bad_alloc|exception)(?:C[12]E\w*|D[012]Ev))\(([^)]*)\);$', re.M)

def auto_std_exception_bodies(h, gen, workdir):
    """constructors/destructors of the standard exception classes live in libstdc++.so, not in the IR.  What an exception object CONTAINS (its message) is
    not modelled anywhere - the type thrown is what __cxa_throw is given - so a call the code under test makes to one of them gets an empty body unless the
    harness (or the runtime model) defines it itself.  Without this a changed tree that starts throwing e.g. std::out_of_range(const char*) would end as
    "no body for callee" (inconclusive) instead of being judged."""
    texts = [fread(os.path.join(VERIF, 'rt', 'verif_rt.c')), fread(os.path.join(VERIF, 'harness', h.src))]
    if h.string_model: texts.append(fread(os.path.join(VERIF, 'rt', 'string_model.c')))
    for f in os.listdir(workdir):
        if f.endswith('.h'): texts.append(fread(os.path.join(workdir, f)))
    for inc in re.findall(r'#include "([^"]+)"', texts[1]):
        q = os.path.join(VERIF, 'harness', inc)
        if os.path.exists(q): texts.append(fread(q))
    alltxt = '\n'.join(texts); out = []
    for m in STD_EXC_RX.finditer(fread(gen)):
        name, params = m.group(1), m.group(2)
        if re.search(r'\b' + re.escape(name) + r'\s*\(', alltxt): continue
        ps = ', '.join('%s p%d' % (t.strip(), i) for i, t in enumerate(params.split(','))) if params.strip() and params.strip() != 'void' else 'void'
        out.append('void %s(%s) { } /* auto: standard exception member, content not modelled */' % (name, ps))
    return '\n'.join(out) + ('\n' if out else '')

def prepare(h, workdir):
    """translate + assemble the single TU; returns (cfile, info)"""
    gen, info = translate(h.fam, h.roots, h.stubs, h.keep_virtual, tag=re.sub(r'\W', '_', h.name), cuts=getattr(h, 'cuts', ()), need_globals=getattr(h, 'need_globals', ()))
    os.makedirs(workdir, exist_ok=True)
    if getattr(h, 'pre', None): h.pre(workdir)
    cfile = os.path.join(workdir, re.sub(r'\W', '_', h.name) + '_' + sha(h.name)[:6] + '.c')      # distinct names may sanitise to the same string
    with open(cfile, 'w') as o:
        o.write('/* generated: %s */\n#include "%s"\n#include "%s"\n' % (h.name, gen, os.path.join(VERIF, 'rt', 'verif_rt.c')))
        if h.string_model: o.write('#include "%s"\n' % os.path.join(VERIF, 'rt', 'string_model.c'))
        o.write('#include "%s"\n' % os.path.join(VERIF, 'harness', h.src))
        o.write(auto_std_exception_bodies(h, gen, workdir))
    return cfile, info, gen

def run_shape(h, cfile, shape, tier):
    d = shape_defs(h, shape, tier)
    r = run_cbmc(cfile, d, h.opts + list(shape.get('_opts', [])), shape.get('_timeout', h.timeout), h.mem_gb)
    res = dict(harness=h.name, shape=shape_tag(shape), status=r['status'], wall=round(r['wall'], 2), steps=r.get('steps', 0),
               vars=r.get('vars', 0), nprops=len(r['props']), failed=[], witness_ok=False, verdict=None)
    if r['status'] != 'ok':
        res['verdict'] = 'INCONCLUSIVE'; res['why'] = r['status'] + ': ' + (r.get('err') or r.get('out') or '')[-400:]
        return res, r
    nb = [n for n in r.get('nobody', []) if n not in h.allow_nobody]
    # CBMC 6 reports UNKNOWN for properties that lie behind a failed fatal check: not failures by themselves
    fails = [p for p in r['props'] if p['res'] in ('FAILURE', 'ERROR')]
    # callees a harness deliberately leaves without a body (their result is arbitrary): CBMC reports each call as a failed 'no body for callee' property
    fails = [p for p in fails if not (p['desc'].startswith('no body for callee ') and p['desc'].split()[-1] in h.allow_nobody)]
    unknown = [p for p in r['props'] if p['res'] == 'UNKNOWN']
    kinds = {}
    for p in fails:
        k = classify(p['desc'], p['id'])
        if k == 'unwind' and getattr(h, 'termination_claim', None) and p['id'].startswith('F__Z'):
            # the unwind bound of this harness is derived from the input length (every iteration of a loop of the real code must
            # consume input): exceeding it is a termination/progress violation of the code under test, not a harness limit
            k = 'violation'; p['desc'] = h.termination_claim + ' [' + p['desc'] + ' in ' + p['id'][:60] + ']'
        kinds.setdefault(k, []).append(p)
    wit_descs = [p['desc'] for p in kinds.get('witness', [])]
    req_w = shape.get('_witness', h.required_witness)
    res['witness_ok'] = all(any(w in dsc for dsc in wit_descs) for w in req_w)
    res['failed'] = [dict(id=p['id'], desc=p['desc'], kind=k) for k, ps in kinds.items() if k != 'witness' for p in ps]
    if nb:
        res['verdict'] = 'INCONCLUSIVE'; res['why'] = 'no body for: ' + ', '.join(nb[:6])
    elif unknown and not fails:
        res['verdict'] = 'INCONCLUSIVE'; res['why'] = 'UNKNOWN properties without a failing one: ' + unknown[0]['desc']
    elif 'unwind' in kinds or 'model' in kinds:
        res['verdict'] = 'INCONCLUSIVE'; res['why'] = '; '.join('%s %s' % (re.sub(r'F__Z\w{40,}', lambda m: m.group(0)[:30] + '..', p['id']), p['desc']) for p in kinds.get('unwind', []) + kinds.get('model', []))[:400]
    elif 'violation' in kinds:
        res['verdict'] = 'CEX'
    elif not res['witness_ok']:
        res['verdict'] = 'INCONCLUSIVE'; res['why'] = 'vacuous: required witness assertion did not fail (' + ','.join(req_w) + ')'
    else:
        res['verdict'] = 'HOLDS'
    res['bound_hit'] = [p['desc'] for p in kinds.get('bound', [])]
    return res, r

def get_trace(h, cfile, shape, tier, prop_ids):
    d = shape_defs(h, shape, tier); d['NO_WITNESS'] = 1
    r = run_cbmc(cfile, d, h.opts + list(shape.get('_opts', [])), shape.get('_timeout', h.timeout) * 2, h.mem_gb, trace=True)
    return r


def native_tool(name, flags=()):
    """native g++ build of replay/<name>.cpp against /repo's headers (cached per header hash): the REAL code, for replays"""
    src = os.path.join(VERIF, 'replay', name + '.cpp')
    exe = os.path.join(CACHE, 'replay', name + '.' + sha(repo_hash(), fread(src), ' '.join(flags)))
    with klock(exe):
        if not os.path.exists(exe):
            os.makedirs(os.path.dirname(exe), exist_ok=True)
            r = run(['g++', '-std=c++20', '-O0', '-w', '-I' + os.path.join(REPO, 'include')] + list(flags) + [src, '-o', exe + '.tmp', '-ldl', '-lpthread'], timeout=1200)
            if r.returncode != 0: raise BuildError(name + ' does not build: ' + r.stderr[-1500:])
            os.replace(exe + '.tmp', exe)
    return exe
