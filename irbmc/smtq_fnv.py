#!/usr/bin/env python3-vt
"""smtq: FNV-1a (32 bit) collision search with z3.  For each keyword find an identifier [A-Za-z_][A-Za-z0-9_]* (length 5..8)
whose hash equals the keyword's and whose spelling differs.  usage: smtq_fnv.py <basis> <prime> <out.json> kw1 kw2 ...
The hash constants are passed in by the caller, which reads them out of the IR of /repo's utility::hash."""
import sys, json, time
from concurrent.futures import ThreadPoolExecutor
import z3

def chash(s, basis, prime):
    h = basis
    for c in s.encode(): h = ((h ^ c) * prime) & 0xffffffff
    return h

def find(kw, basis, prime, lens=(6, 7, 8, 5), timeout_ms=120000):
    t0 = time.time()
    for n in lens:
        ctx = z3.Context(); s = z3.Solver(ctx=ctx); s.set('timeout', timeout_ms)
        bs = [z3.BitVec('c%d' % i, 8, ctx) for i in range(n)]
        h = z3.BitVecVal(basis, 32, ctx)
        for i, b in enumerate(bs):
            al = z3.Or(z3.And(b >= ord('a'), b <= ord('z')), z3.And(b >= ord('A'), b <= ord('Z')), b == ord('_'))
            if i > 0: al = z3.Or(al, z3.And(b >= ord('0'), b <= ord('9')))
            s.add(al)
            h = (h ^ z3.ZeroExt(24, b)) * z3.BitVecVal(prime, 32, ctx)
        s.add(h == z3.BitVecVal(chash(kw, basis, prime), 32, ctx))
        if n == len(kw): s.add(z3.Or([b != ord(c) for b, c in zip(bs, kw)]))
        r = s.check()
        if r == z3.sat:
            m = s.model(); w = ''.join(chr(m[b].as_long()) for b in bs)
            assert chash(w, basis, prime) == chash(kw, basis, prime) and w != kw
            return dict(keyword=kw, collision=w, hash='0x%08x' % chash(kw, basis, prime), length=n, solve_s=round(time.time() - t0, 2), result='sat')
    return dict(keyword=kw, collision=None, hash='0x%08x' % chash(kw, basis, prime), solve_s=round(time.time() - t0, 2), result='unknown')

def main():
    basis = int(sys.argv[1], 0); prime = int(sys.argv[2], 0); out = sys.argv[3]; kws = sys.argv[4:]
    with ThreadPoolExecutor(max_workers=16) as ex:
        res = list(ex.map(lambda k: find(k, basis, prime), kws))
    json.dump(dict(basis=basis, prime=prime, results=res), open(out, 'w'), indent=1)

if __name__ == '__main__': main()
