#ifndef VERIF_RT_H
#define VERIF_RT_H
/* Runtime/environment model shared by every IR-derived translation unit (see DESIGN.md 1.3). */
#include <assert.h>
#include <stdint.h>
#include <stddef.h>
#ifdef VERIF_NATIVE
#include "native_shim.h"
#endif
extern char* __exc_obj; extern int __exc_pending; extern int __exc_sel;
void __VERIF_unreachable(void);
void __VERIF_trap(void);
void __VERIF_divcheck(int ok);
int __VERIF_isa(char* obj, char* tinfo);
struct verif_ti { char* vt; char* name; };
void __VERIF_unmodelled_virtual(void);
void __VERIF_memcpy(char*, char*, uint64_t); void __VERIF_memmove(char*, char*, uint64_t);
char* __VERIF_base_of_gen(char* ti);
void __VERIF_resume(char* obj);
#endif
void __VERIF_throw_static(char* obj, char* tinfo);
