/* SSO-only model of libstdc++ std::string mutators (DESIGN 1.3).  The real growth code (_M_create/_M_mutate/...) sends
   CBMC into array theory; these sit at the mutator-API level, always write into the in-object buffer and never
   dereference the stored data pointer.  A string that would exceed 15 bytes is OUTSIDE THE CLAIM: "BOUND" assertion
   followed by assume(false).  Read-only members (size, operator[], at, compare, iterators) come from the IR, not from here.
   Differentially tested against the real std::string by tests/string_model_diff (run by ./check selftest). */
#include <stdint.h>
#include <string.h>
#define S_P(s) (*(char**)(s))
#define S_N(s) (*(uint64_t*)((s) + 8))
#define S_BUF(s) ((s) + 16)
#define S_CAP 15
static void s_check(char* s) { __CPROVER_assert(S_P(s) == S_BUF(s), "MODEL: std::string operand not in SSO form"); __CPROVER_assume(S_P(s) == S_BUF(s)); }
static void s_bound(uint64_t n) { __CPROVER_assert(n <= S_CAP, "BOUND: std::string longer than 15 bytes (outside the SSO-only string model)"); __CPROVER_assume(n <= S_CAP); }
static void s_init(char* s) { S_P(s) = S_BUF(s); S_N(s) = 0; S_BUF(s)[0] = 0; }
/* All stores use CONSTANT offsets guarded by a comparison (never buf[symbolic]): a store through a char* with a symbolic offset
   into a string that is a member of a larger object makes CBMC rebuild the whole enclosing object byte by byte. */
static void s_store(char* s, uint64_t idx, char c) {
  char* b = S_BUF(s);
  if (idx == 0) b[0] = c; if (idx == 1) b[1] = c; if (idx == 2) b[2] = c; if (idx == 3) b[3] = c; if (idx == 4) b[4] = c; if (idx == 5) b[5] = c; if (idx == 6) b[6] = c; if (idx == 7) b[7] = c;
  if (idx == 8) b[8] = c; if (idx == 9) b[9] = c; if (idx == 10) b[10] = c; if (idx == 11) b[11] = c; if (idx == 12) b[12] = c; if (idx == 13) b[13] = c; if (idx == 14) b[14] = c; if (idx == 15) b[15] = c;
}
static void s_set(char* s, const char* src, uint64_t n) { s_bound(n); for (uint64_t i = 0; i < n && i < S_CAP; i++) s_store(s, i, src[i]); s_store(s, n, 0); S_N(s) = n; S_P(s) = S_BUF(s); }
static void s_app(char* s, const char* src, uint64_t n) { s_check(s); uint64_t o = S_N(s); s_bound(o); s_bound(o + n); for (uint64_t i = 0; i < n && i < S_CAP; i++) s_store(s, o + i, src[i]); s_store(s, o + n, 0); S_N(s) = o + n; }
static uint64_t s_len_x(const char* c) { uint64_t n = 0; while (n <= S_CAP && c[n]) n++; s_bound(n); return n; }
#ifdef STRING_LITERALS_OPAQUE
/* cut: strings CONSTRUCTED from NUL-terminated literals or by operator+ (error-message text) are value-irrelevant in this
   harness and become empty; literals appended/assigned to an existing string (+=, append, assign, =) stay exact */
static uint64_t s_len(const char* c) { return 0; }
#else
static uint64_t s_len(const char* c) { return s_len_x(c); }
#endif
/* constructors / destructor */
void F__ZNSt7__cxx1112basic_stringIcSt11char_traitsIcESaIcEEC2Ev(char* s) { s_init(s); }
void F__ZNSt7__cxx1112basic_stringIcSt11char_traitsIcESaIcEEC2ERKS3_(char* s, char* al) { s_init(s); }
void F__ZNSt7__cxx1112basic_stringIcSt11char_traitsIcESaIcEEC2IS3_EEPKcRKS3_(char* s, char* lit, char* al) { s_set(s, lit, s_len(lit));
#ifdef STRING_LITERALS_OPAQUE
  *(char**)(S_BUF(s) + 8) = lit;      /* the (empty) opaque string remembers which literal it was built from: a recorder may read it (S_LITERAL_OF) */
#endif
}
void F__ZNSt7__cxx1112basic_stringIcSt11char_traitsIcESaIcEEC2EPKcmRKS3_(char* s, char* p, uint64_t n, char* al) { s_set(s, p, n); }
void F__ZNSt7__cxx1112basic_stringIcSt11char_traitsIcESaIcEEC2ISt17basic_string_viewIcS2_EvEERKT_RKS3_(char* s, char* sv, char* al) { s_set(s, *(char**)(sv + 8), *(uint64_t*)sv); }
void F__ZNSt7__cxx1112basic_stringIcSt11char_traitsIcESaIcEEC2ENS4_12__sv_wrapperERKS3_(char* s, uint64_t len, char* p, char* al) { s_set(s, p, len); }
void F__ZNSt7__cxx1112basic_stringIcSt11char_traitsIcESaIcEEC2ERKS4_(char* s, char* o) { s_check(o); s_set(s, S_BUF(o), S_N(o)); }
void F__ZNSt7__cxx1112basic_stringIcSt11char_traitsIcESaIcEEC2EOS4_(char* s, char* o) { s_check(o); s_set(s, S_BUF(o), S_N(o)); s_init(o); }
void F__ZNSt7__cxx1112basic_stringIcSt11char_traitsIcESaIcEEC2ERKS4_mm(char* s, char* o, uint64_t pos, uint64_t n) {
  s_check(o); uint64_t on = S_N(o); s_bound(on);
  if (pos > on) { void F__ZSt24__throw_out_of_range_fmtPKcz(char*, ...); F__ZSt24__throw_out_of_range_fmtPKcz("substr"); return; }
  uint64_t k = on - pos; if (n < k) k = n; s_set(s, S_BUF(o) + pos, k); }
void F__ZNSt7__cxx1112basic_stringIcSt11char_traitsIcESaIcEED2Ev(char* s) { }
void F__ZNSt7__cxx1112basic_stringIcSt11char_traitsIcESaIcEE10_M_disposeEv(char* s) { }
/* assignment */
char* F__ZNSt7__cxx1112basic_stringIcSt11char_traitsIcESaIcEEaSERKS4_(char* s, char* o) { s_check(o); if (s != o) s_set(s, S_BUF(o), S_N(o)); return s; }
char* F__ZNSt7__cxx1112basic_stringIcSt11char_traitsIcESaIcEEaSEOS4_(char* s, char* o) { s_check(o); if (s != o) { s_set(s, S_BUF(o), S_N(o)); s_init(o); } return s; }
char* F__ZNSt7__cxx1112basic_stringIcSt11char_traitsIcESaIcEEaSEPKc(char* s, char* lit) { s_set(s, lit, s_len_x(lit)); return s; }
char* F__ZNSt7__cxx1112basic_stringIcSt11char_traitsIcESaIcEE6assignERKS4_(char* s, char* o) { s_check(o); if (s != o) s_set(s, S_BUF(o), S_N(o)); return s; }
char* F__ZNSt7__cxx1112basic_stringIcSt11char_traitsIcESaIcEE6assignEPKc(char* s, char* lit) { s_set(s, lit, s_len_x(lit)); return s; }
void F__ZNSt7__cxx1112basic_stringIcSt11char_traitsIcESaIcEE9_M_assignERKS4_(char* s, char* o) { s_check(o); if (s != o) s_set(s, S_BUF(o), S_N(o)); }
/* append */
void F__ZNSt7__cxx1112basic_stringIcSt11char_traitsIcESaIcEE9push_backEc(char* s, uint8_t c) { char ch = (char)c; s_app(s, &ch, 1); }
char* F__ZNSt7__cxx1112basic_stringIcSt11char_traitsIcESaIcEEpLEc(char* s, uint8_t c) { char ch = (char)c; s_app(s, &ch, 1); return s; }
char* F__ZNSt7__cxx1112basic_stringIcSt11char_traitsIcESaIcEE9_M_appendEPKcm(char* s, char* p, uint64_t n) { s_app(s, p, n); return s; }
char* F__ZNSt7__cxx1112basic_stringIcSt11char_traitsIcESaIcEE6appendEPKcm(char* s, char* p, uint64_t n) { s_app(s, p, n); return s; }
char* F__ZNSt7__cxx1112basic_stringIcSt11char_traitsIcESaIcEE6appendEPKc(char* s, char* lit) { s_app(s, lit, s_len_x(lit)); return s; }
char* F__ZNSt7__cxx1112basic_stringIcSt11char_traitsIcESaIcEE6appendERKS4_(char* s, char* o) { s_check(o); s_app(s, S_BUF(o), S_N(o)); return s; }
char* F__ZNSt7__cxx1112basic_stringIcSt11char_traitsIcESaIcEEpLEPKc(char* s, char* lit) { s_app(s, lit, s_len_x(lit)); return s; }
char* F__ZNSt7__cxx1112basic_stringIcSt11char_traitsIcESaIcEEpLERKS4_(char* s, char* o) { s_check(o); s_app(s, S_BUF(o), S_N(o)); return s; }
void F__ZNSt7__cxx1112basic_stringIcSt11char_traitsIcESaIcEE5clearEv(char* s) { s_check(s); S_N(s) = 0; S_BUF(s)[0] = 0; }
void F__ZNSt7__cxx1112basic_stringIcSt11char_traitsIcESaIcEE7reserveEm(char* s, uint64_t n) { s_bound(n); }
/* operator+ (sret) */
void F__ZStplIcSt11char_traitsIcESaIcEENSt7__cxx1112basic_stringIT_T0_T1_EEPKS5_OS8_(char* r, char* lit, char* o) { s_check(o); s_set(r, lit, s_len(lit)); s_app(r, S_BUF(o), S_N(o)); }
void F__ZStplIcSt11char_traitsIcESaIcEENSt7__cxx1112basic_stringIT_T0_T1_EEPKS5_RKS8_(char* r, char* lit, char* o) { s_check(o); s_set(r, lit, s_len(lit)); s_app(r, S_BUF(o), S_N(o)); }
void F__ZStplIcSt11char_traitsIcESaIcEENSt7__cxx1112basic_stringIT_T0_T1_EERKS8_PKS5_(char* r, char* o, char* lit) { s_check(o); s_set(r, S_BUF(o), S_N(o)); s_app(r, lit, s_len(lit)); }
void F__ZStplIcSt11char_traitsIcESaIcEENSt7__cxx1112basic_stringIT_T0_T1_EEOS8_PKS5_(char* r, char* o, char* lit) { s_check(o); s_set(r, S_BUF(o), S_N(o)); s_app(r, lit, s_len(lit)); }
void F__ZStplIcSt11char_traitsIcESaIcEENSt7__cxx1112basic_stringIT_T0_T1_EEOS8_S5_(char* r, char* o, uint8_t c) { char ch = (char)c; s_check(o); s_set(r, S_BUF(o), S_N(o)); s_app(r, &ch, 1); }
void F__ZStplIcSt11char_traitsIcESaIcEENSt7__cxx1112basic_stringIT_T0_T1_EEOS8_S9_(char* r, char* a, char* b) { s_check(a); s_check(b); s_set(r, S_BUF(a), S_N(a)); s_app(r, S_BUF(b), S_N(b)); }
void F__ZStplIcSt11char_traitsIcESaIcEENSt7__cxx1112basic_stringIT_T0_T1_EERKS8_SA_(char* r, char* a, char* b) { s_check(a); s_check(b); s_set(r, S_BUF(a), S_N(a)); s_app(r, S_BUF(b), S_N(b)); }
void F__ZStplIcSt11char_traitsIcESaIcEENSt7__cxx1112basic_stringIT_T0_T1_EEOS8_RKS8_(char* r, char* a, char* b) { s_check(a); s_check(b); s_set(r, S_BUF(a), S_N(a)); s_app(r, S_BUF(b), S_N(b)); }
void F__ZStplIcSt11char_traitsIcESaIcEENSt7__cxx1112basic_stringIT_T0_T1_EERKS8_OS8_(char* r, char* a, char* b) { s_check(a); s_check(b); s_set(r, S_BUF(a), S_N(a)); s_app(r, S_BUF(b), S_N(b)); }
/* growth internals must never be reached when the mutators above are the boundary */
char* F__ZNSt7__cxx1112basic_stringIcSt11char_traitsIcESaIcEE9_M_createERmm(char* s, char* cap, uint64_t old) { __CPROVER_assert(0, "MODEL: std::string::_M_create reached"); __CPROVER_assume(0); return 0; }
void F__ZNSt7__cxx1112basic_stringIcSt11char_traitsIcESaIcEE9_M_mutateEmmPKcm(char* s, uint64_t a, uint64_t b, char* c, uint64_t d) { __CPROVER_assert(0, "MODEL: std::string::_M_mutate reached"); __CPROVER_assume(0); }
char* F__ZNSt7__cxx1112basic_stringIcSt11char_traitsIcESaIcEE10_M_replaceEmmPKcm(char* s, uint64_t a, uint64_t b, char* c, uint64_t d) { __CPROVER_assert(0, "MODEL: std::string::_M_replace reached"); __CPROVER_assume(0); return s; }
