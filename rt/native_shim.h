/* native (gcc) build of generated C + rt + harness: used for differential tests and replays */
#include <stdio.h>
#include <stdlib.h>
extern int __verif_assert_failed;
#define __CPROVER_assert(c, m) do { if (!(c)) { printf("ASSERT FAIL: %s\n", m); __verif_assert_failed++; } } while (0)
#define __CPROVER_assume(c) do { if (!(c)) { printf("ASSUME FALSE\n"); exit(3); } } while (0)
