/* Environment model: exceptions (Itanium ABI entry points as used by clang's IR), operator new/delete,
   libstdc++ __throw_* helpers, a few libc leaves. Every function here is *trusted* and listed in evidence. */
#include <stdint.h>
#include <stdlib.h>
#include <string.h>
#include "verif_rt.h"
char* __exc_obj; int __exc_pending; int __exc_sel;
int __VERIF_terminated;
void __VERIF_unreachable(void) { __CPROVER_assert(0, "VERIF: llvm unreachable executed"); __CPROVER_assume(0); }
void __VERIF_trap(void) { __CPROVER_assert(0, "VERIF: llvm.trap executed"); __CPROVER_assume(0); }
void __VERIF_divcheck(int ok) { __CPROVER_assert(ok, "VERIF: trapping integer division (divisor 0 or MIN/-1)"); __CPROVER_assume(ok); }
void __VERIF_unmodelled_virtual(void) { __CPROVER_assert(0, "MODEL: unmodelled virtual/indirect call target reached"); __CPROVER_assume(0); }

/* ---- std exception hierarchy (typeinfo objects provided here; module-defined ones come from the IR) */
struct verif_ti g__ZTISt9exception = {0, "St9exception"}, g__ZTISt9bad_alloc = {0, "St9bad_alloc"}, g__ZTISt8bad_cast = {0, "St8bad_cast"},
  g__ZTISt11logic_error = {0, "St11logic_error"}, g__ZTISt12domain_error = {0, "St12domain_error"}, g__ZTISt16invalid_argument = {0, "St16invalid_argument"},
  g__ZTISt12length_error = {0, "St12length_error"}, g__ZTISt12out_of_range = {0, "St12out_of_range"}, g__ZTISt13runtime_error = {0, "St13runtime_error"},
  g__ZTISt11range_error = {0, "St11range_error"}, g__ZTISt14overflow_error = {0, "St14overflow_error"}, g__ZTISt15underflow_error = {0, "St15underflow_error"},
  g__ZTISt17bad_function_call = {0, "St17bad_function_call"}, g__ZTISt12system_error = {0, "St12system_error"}, g__ZTISt10bad_typeid = {0, "St10bad_typeid"};
#define TI(x) ((char*)&g__ZTISt##x)
static char* std_base_of(char* ti) {
  if (ti == TI(9bad_alloc) || ti == TI(8bad_cast) || ti == TI(11logic_error) || ti == TI(13runtime_error) || ti == TI(17bad_function_call) || ti == TI(10bad_typeid)) return TI(9exception);
  if (ti == TI(12domain_error) || ti == TI(16invalid_argument) || ti == TI(12length_error) || ti == TI(12out_of_range)) return TI(11logic_error);
  if (ti == TI(11range_error) || ti == TI(14overflow_error) || ti == TI(15underflow_error) || ti == TI(12system_error)) return TI(13runtime_error);
  return 0;
}
/* exception objects live in 4 typed slots; the thrown type is kept in a side table looked up by slot address
   (no header inside the object: a store through a symbolic slot pointer into one big byte array made queries explode) */
#define EXC_SLOTS 4
#ifndef EXC_SIZE
#define EXC_SIZE 320
#endif
static struct exc_slot { char bytes[EXC_SIZE] __attribute__((aligned(16))); } excslot[EXC_SLOTS];
static char* exc_ti[EXC_SLOTS]; static int excn;
char* F___cxa_allocate_exception(uint64_t n) {
  __CPROVER_assert(n <= EXC_SIZE, "MODEL: exception object larger than model slot");
  __CPROVER_assert(excn < EXC_SLOTS, "BOUND: more than 4 exceptions allocated in one run"); __CPROVER_assume(excn < EXC_SLOTS);
  char* p = excslot[excn].bytes; excn++; return p; }
void F___cxa_free_exception(char* p) { }
/* harness-owned exception objects (typed statics with preset fields: no stores through a symbolic slot pointer), see __VERIF_throw_static */
static char* static_exc_obj[4]; static char* static_exc_ti[4]; static int static_excn;
static char* exc_type_of(char* obj) { for (int k = 0; k < EXC_SLOTS; k++) if (obj == excslot[k].bytes) return exc_ti[k]; for (int k = 0; k < 4; k++) if (k < static_excn && obj == static_exc_obj[k]) return static_exc_ti[k]; return 0; }
static char* cur_ti;   /* type of the exception in flight (cache: avoids the slot search at every landing pad) */
void F___cxa_throw(char* obj, char* tinfo, char* dtor) { for (int k = 0; k < EXC_SLOTS; k++) if (obj == excslot[k].bytes) exc_ti[k] = tinfo; __exc_obj = obj; cur_ti = tinfo; __exc_pending = 1; }
/* harness-made exception (stubs that throw): returns the object, type recorded */
void __VERIF_throw_static(char* obj, char* tinfo) { __CPROVER_assert(static_excn < 4, "BOUND: more than 4 harness exceptions in one run"); __CPROVER_assume(static_excn < 4);
  static_exc_obj[static_excn] = obj; static_exc_ti[static_excn] = tinfo; static_excn++; __exc_obj = obj; cur_ti = tinfo; __exc_pending = 1; }
char* __VERIF_throw_new(char* tinfo, uint64_t size) { char* o = F___cxa_allocate_exception(size); F___cxa_throw(o, tinfo, 0); return o; }
static char* caught[4]; static int ncaught;
char* F___cxa_begin_catch(char* obj) { __exc_pending = 0; if (ncaught < 4) caught[ncaught] = obj; ncaught++; return obj; }
void F___cxa_end_catch(void) { if (ncaught > 0) ncaught--; }
void F___cxa_rethrow(void) { __CPROVER_assert(ncaught > 0 && ncaught <= 4, "MODEL: rethrow outside catch"); __exc_obj = caught[(ncaught - 1) & 3]; cur_ti = exc_type_of(__exc_obj); __exc_pending = 1; }
char* F___cxa_get_exception_ptr(char* obj) { return obj; }
void F__ZSt9terminatev(void) { __CPROVER_assert(0, "VERIF: std::terminate called"); __CPROVER_assume(0); }
void F___cxa_pure_virtual(void) { __CPROVER_assert(0, "VERIF: pure virtual called"); __CPROVER_assume(0); }
void F___cxa_bad_cast(void);
int __VERIF_isa(char* obj, char* want) {
  char* ti = (obj == __exc_obj) ? cur_ti : exc_type_of(obj);
  for (int i = 0; i < 4 && ti; i++) { if (ti == want) return 1; char* b = __VERIF_base_of_gen(ti); ti = b ? b : std_base_of(ti); }
  return 0;
}
void __VERIF_resume(char* obj) { __exc_obj = obj; cur_ti = exc_type_of(obj); __exc_pending = 1; }
char* __VERIF_exc_type(void) { return __exc_obj ? exc_type_of(__exc_obj) : 0; }
static void throw_std(char* ti) { char* o = F___cxa_allocate_exception(32); F___cxa_throw(o, ti, 0); }
void F__ZSt19__throw_logic_errorPKc(char* m) { throw_std(TI(11logic_error)); }
void F__ZSt20__throw_length_errorPKc(char* m) { throw_std(TI(12length_error)); }
void F__ZSt20__throw_out_of_rangePKc(char* m) { throw_std(TI(12out_of_range)); }
void F__ZSt24__throw_out_of_range_fmtPKcz(char* m, ...) { throw_std(TI(12out_of_range)); }
void F__ZSt24__throw_invalid_argumentPKc(char* m) { throw_std(TI(16invalid_argument)); }
void F__ZSt17__throw_bad_allocv(void) { throw_std(TI(9bad_alloc)); }
void F__ZSt28__throw_bad_array_new_lengthv(void) { throw_std(TI(9bad_alloc)); }
void F__ZSt16__throw_bad_castv(void) { throw_std(TI(8bad_cast)); }
void F__ZSt25__throw_bad_function_callv(void) { throw_std(TI(17bad_function_call)); }
void F__ZSt20__throw_system_errori(uint32_t e) { throw_std(TI(12system_error)); }
void F__ZNSt13runtime_errorD2Ev(char* t) { }
void F__ZNSt13runtime_errorD1Ev(char* t) { }
void F__ZNSt11logic_errorD2Ev(char* t) { }
void F__ZNSt8bad_castD2Ev(char* t) { }
void F__ZNSt9exceptionD2Ev(char* t) { }
char* F__ZNKSt13runtime_error4whatEv(char* t) { return "what"; }
/* ---- allocation: failure out of scope (--no-malloc-may-fail) */
char* F__Znwm(uint64_t n) { char* p = malloc(n); __CPROVER_assume(p != 0); return p; }
char* F__Znam(uint64_t n) { char* p = malloc(n); __CPROVER_assume(p != 0); return p; }
void F__ZdlPv(char* p) { free(p); }
void F__ZdaPv(char* p) { free(p); }
void F__ZdlPvm(char* p, uint64_t n) { free(p); }
/* ---- libc leaves */
uint64_t F_strlen(char* s) { uint64_t n = 0; while (s[n]) n++; return n; }
uint32_t F_tolower(uint32_t c) { return (c >= 'A' && c <= 'Z') ? c + 32 : c; }
uint32_t F_memcmp(char* a, char* b, uint64_t n) { for (uint64_t i = 0; i < n; i++) { unsigned char x = a[i], y = b[i]; if (x != y) return x < y ? (uint32_t)-1 : 1u; } return 0; }
uint32_t F_bcmp(char* a, char* b, uint64_t n) { return F_memcmp(a, b, n); }
#ifdef VERIF_STRCMP_BY_IDENTITY
/* for units whose only strcmp calls compare std::type_info names (type_info::operator==): by the ABI two types have the same mangled name
   iff they are the same type, and every typeinfo object of this model has its own name object - so name equality is pointer equality */
uint32_t F_strcmp(char* a, char* b) { return a == b ? 0u : 1u; }
#else
uint32_t F_strcmp(char* a, char* b) { uint64_t i = 0; for (;; i++) { unsigned char x = a[i], y = b[i]; if (x != y) return x < y ? (uint32_t)-1 : 1u; if (!x) return 0; } }
#endif
void F___assert_fail(char* a, char* b, uint32_t c, char* d) { __CPROVER_assert(0, "VERIF: assert() in code under test failed"); __CPROVER_assume(0); }
void __VERIF_memcpy(char* d, char* s, uint64_t n) { for (uint64_t i = 0; i < n; i++) d[i] = s[i]; }
void __VERIF_memmove(char* d, char* s, uint64_t n) { if (d <= s || d >= s + n) { for (uint64_t i = 0; i < n; i++) d[i] = s[i]; } else { for (uint64_t i = n; i > 0; i--) d[i - 1] = s[i - 1]; } }
int __verif_tid;
/* single-threaded symbolic execution: libstdc++'s refcount fast path */
char g___libc_single_threaded_rt = 1;
