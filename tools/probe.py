#!/usr/bin/env python3
"""development aid: translate a root of a family and list translated functions / externals.
usage: tools/probe.py <family module:FAM> <root regex> [--stub RX]... [--cut RX]... [--show]"""
import sys, os, importlib
sys.path.insert(0, os.path.dirname(os.path.dirname(os.path.abspath(__file__))))
from irbmc import core
def main():
    a = sys.argv[1:]; mod, attr = a[0].split(':'); fam = getattr(importlib.import_module(mod), attr)
    roots = [a[1]]; stubs = []; cuts = []; show = False; i = 2
    while i < len(a):
        if a[i] == '--stub': stubs.append(a[i + 1]); i += 2
        elif a[i] == '--cut': cuts.append(a[i + 1]); i += 2
        elif a[i] == '--root': roots.append(a[i + 1]); i += 2
        elif a[i] == '--sm': stubs += core.STRING_MODEL; i += 1
        elif a[i] == '--show': show = True; i += 1
        else: raise SystemExit('bad arg ' + a[i])
    out, info = core.translate(fam, roots, stubs, tag='probe', cuts=cuts)
    print(out); print('translated %d failed %d external %d' % (info['translated'], info['failed'], info['external']))
    for f in info['fails']: print('FAIL', f)
    for f in info['funcs']: print('FUNC', f[:220])
    for f in info['cuts']: print('CUT ', f[:220])
    d = core.demangle([e.split('|')[0].strip() for e in info['ext']])
    for e, dd in zip(info['ext'], d): print('EXT ', e.split('|')[0].strip()[:90], '|', dd[:200])
    if show: print(open(out).read())
main()
