#!/bin/sh
# tools/runall.sh [tier] ID...   - run the registered command of each property in /verif against /repo, one after the other; summary on stdout
cd "$(dirname "$0")/.." || exit 1
tier=$1; shift
for id in "$@"; do
  s=$(date +%s); ./check $id --tier $tier > out/run_$id.$tier.log 2>&1; rc=$?; e=$(date +%s)
  echo "$id rc=$rc $((e-s))s $(tail -1 out/run_$id.$tier.log)"
done
python3-vt - <<'P'
import json, jsonschema, glob
s=json.load(open('/root/.vp/EVIDENCE.schema.json'))
for f in sorted(glob.glob('evidence/C*.json')):
    try: jsonschema.validate(json.load(open(f)), s)
    except Exception as ex: print(f, 'INVALID', str(ex)[:200])
P
