#!/usr/bin/env python3
"""store a confirmed seeded change: tools/keepseed.py <name> <worktree> <meta-json-string>"""
import sys, os, shutil, json, subprocess
name, wt, meta = sys.argv[1], sys.argv[2], json.loads(sys.argv[3])
d = os.path.join(os.path.dirname(os.path.dirname(os.path.abspath(__file__))), 'seeded', name)
os.makedirs(os.path.join(d, 'demonstration'), exist_ok=True)
shutil.copy(os.path.join(wt, 'deliver', 'patch.diff'), os.path.join(d, 'patch.diff'))
for f in os.listdir(os.path.join(wt, 'deliver')):
    if f != 'patch.diff' and os.path.isfile(os.path.join(wt, 'deliver', f)) and os.path.getsize(os.path.join(wt, 'deliver', f)) < 200000 and not os.access(os.path.join(wt, 'deliver', f), os.X_OK):
        shutil.copy(os.path.join(wt, 'deliver', f), os.path.join(d, 'demonstration', f))
json.dump(meta, open(os.path.join(d, 'meta.json'), 'w'))
print('kept', d, os.listdir(d), os.listdir(os.path.join(d, 'demonstration')))
