#!/usr/bin/env python3
"""Regenerates MANIFEST.json from the table below (kept valid against /root/.vp/MANIFEST.schema.json at all times)."""
import json, os
V = os.path.dirname(os.path.dirname(os.path.abspath(__file__)))
T = 'bounded symbolic execution (CBMC/SAT) of the clang-14 IR of the real functions, translated to C by irbmc/ir2c.py'
CHECKS = {
 'C01': dict(tech=T + '; per-kernel obligations from an arbitrary cursor state, contracts for SkipWS/SkipComment',
   text='Each lexer kernel of the real ChaiScript_Parser is executed symbolically from an arbitrary valid cursor over every buffer of length 0..N: no out-of-bounds access, cursor inside [begin,end], only eval_error leaves, rejected matches restore the cursor, accepted matches advance (termination measure); the escape decoder never reaches std::terminate. Compositional: callers use contract stubs whose contracts are asserted on the real callee.',
   note='claims are per unit and per N bytes behind the cursor, not per whole file; grammar-level interaction through m_match_stack is outside; clang-14 -O1 lowering; eval_error construction cut; std::string via SSO-only model'),
 'C04': dict(tech=T + ' (Dispatch_Engine::get_object, QuickFlatMap lookups) from arbitrary scope stacks and every cached-hint shape',
   text='One lookup step of the real get_object from an arbitrary small scope stack (1-3 scopes, 0-3 entries, symbolic names) under every kind of cached hint (none, global/function, every local depth/slot incl. out-of-range): result is the innermost binding, no out-of-bounds access; QuickFlatMap::count/find/find-with-hint agree with a linear reference. The whole-program statement (caches invisible) is the induction over this step.',
   note='global/function tail is a stub; names are 1-2 bytes; hint fields are enumerated concretely (shapes), names/query symbolic; count() inside get_object is a contract stub proved on the real code by L2'),
 'C05': dict(tech=T + ' for every Boxed_Number::go<L,R>; leaf mul/div/FP operations as uninterpreted functions',
   text='For every enumerated type pair the real go<L,R> is executed symbolically for all operand bit patterns, all 33 operator codes and both mutabilities; the solver shows result type, value, in-place update, exception class and absence of trapping divisions agree with the C++ expression on the same types. Bounded by the enumerated instantiations, not by values.',
   note='mul/div/rem and floating-point leaf operations are uninterpreted (same symbol on both sides); const_var<T> and exception constructors are stubs'),
 'C10': dict(tech=T + ' (Try_AST_Node::eval_internal/handle_exception) with abstract children that return or throw any of 6 exception kinds',
   text='For every shape of try/catch/finally (0-2 clauses, typed or not, finally or not) the real node code is executed symbolically with the body, handlers and finally block as abstract children: first matching clause runs once, finally exactly once on every path, an exception no clause accepts leaves as the very same object, a throw in a handler/finally is what leaves, scope depth is restored. Inductive step for the whole-program statement.',
   note='children/Param_Types::match are oracles; Boxed_Value construction/destruction cut; other nodes (Fun_Call, dispatch, engine wrappers) not yet covered'),
 'C12': dict(tech=T + ' (every callable bootstrap_stl.hpp registers for Vector: lambdas, detail::insert_at/erase_at, push_back) against a C array model',
   text='Each registered Vector operation ([] const/mutable, front, back, pop_back, insert_at, erase_at, push_back_ref, clear, size, empty) is executed symbolically on an arbitrary valid vector of exactly K elements (with and without spare capacity, so the reallocation path runs) with arbitrary int arguments: std:: effect and result, or the documented exception with the container unchanged; container stays well formed; no access outside its storage.',
   note='elements are control-block-free Boxed_Values; Map/string-find family/range views not covered yet; insert position enumerated (not symbolic) on the reallocation path'),
 'C16': dict(tech=T + ' (buildInt, Char_Parser, Id) plus z3 bit-vector search for FNV-1a collisions whose models are executed through the real Id()',
   text='Integer literal typing/value for all 64-bit values x 4 bases x all valid suffix spellings; escape decoding as an inductive step from an arbitrary decoder state (any literal length) plus all byte strings up to N against a reference C++ escape decoder; word literals recognised by exact spelling for all buffers up to N bytes and for the identifiers z3 finds to collide with each keyword hash.',
   note='strtol-family digit conversion is a trusted 12-line model; floating literal accuracy (parse_num) is declined; decoded literals <= 15 bytes (SSO string model)'),
}
NA = {
}
CHECKS['C19'] = dict(tech=T + ' (ChaiScript_Basic::load_file/skip_bom) over a contract model of std::ifstream with the file a symbolic byte array',
   text='The real load_file+skip_bom are executed symbolically for every file content of every length 0..L (and for a missing file) against a stream model that follows the standard (short read sets eofbit|failbit, failed streams ignore seekg/read): the returned text is exactly the bytes minus one leading UTF-8 BOM; missing file raises file_not_found_error; stream opened and closed once.',
   note='std::ifstream is a contract model (trusted, written from the standard); content <= 15 bytes; use()/search-path bookkeeping not covered yet')
CHECKS['C13'] = dict(tech=T + ' of each public Dispatch_Engine entry with a lock-state model behind pthread_rwlock_* and table operations replaced by stubs that assert the lock mode',
   text='Lock-discipline obligations (the sufficient condition the code relies on): for each covered entry every read of a shared table happens with the engine mutex held (shared or unique), every write with it held unique, the right mutex is used, no lock is taken twice, and every exit - normal or throwing - releases all locks; outcomes of the table operations are symbolic. Interleavings are not explored.',
   note='single-threaded symbolic execution; does not detect races on payloads reached through pointers read under the lock nor ordering bugs between correctly locked sections; entries covered so far: add_global_const, add_global, add_global_no_throw, set_global, add(Type_Info), get_type')
CHECKS['C18'] = dict(tech=T + ' (json_escape, JSONParser::parse_string/parse_bool/parse_null/consume_ws/parse_next/parse_array) on symbolic text',
   text='String round trip json_escape->parse_string is the identity for every string of up to N bytes (all byte values); the scalar kernels tolerate every text of up to N bytes from every start offset (no access outside the text, only runtime_error/out_of_range leave, cursor within bounds); parse_next dispatches by first character, rejects nesting depth > 512 for ANY depth value and containers parse elements at depth+1 (bounded native recursion by induction).',
   note='texts <= 15 bytes (SSO string model); JSON value constructors are recorders; numbers (floating accuracy) and container round trip are declined')
CHECKS['C06'] = dict(tech=T + ' (Cast_Helper_Inner<T>::cast for the value/const&/&/*/const* parameter forms) on a symbolic Boxed_Value::Data',
   text='For each parameter form over int the real cast is executed on an arbitrary box (static and bare type from a 4-type universe, every flag combination, null or non-null object) that satisfies the Data invariant: it returns only for an object of the declared type, mutable forms never accept const objects, null objects are reported for reference/value forms, and C++ receives exactly the stored object.',
   note='overload-set dispatch (D4), ordering (D5), arity check (D1) and conversion fallback are not covered yet; typeinfo compared by address')
CHECKS['C07'] = dict(tech=T + ' (Equation_AST_Node::eval_internal with abstract children; Boxed_Value::Data constructor; Boxed_Number::oper with recorder kernels)',
   text='Assignment node: for symbolic operator kind, child behaviours and value flags, a const or temporary target is rejected with eval_error and nothing that could modify it (arithmetic kernel, = function, := rebinding, clone) is invoked. Data constructor: mutable pointer is null exactly for const types, for every flag combination. Arithmetic dispatch: in-place kernels receive a mutable pointer only for a non-const, non-return-value left operand, for every pair of registered arithmetic types.',
   note='mutating members of bound containers are refused by the casts of C06 (not composed end-to-end); Prefix ++/-- and attribute access not covered yet')
CHECKS['C09'] = dict(tech=T + ' of evaluator nodes (Block, Scopeless_Block, If, While, Logical_And/Or, Try, Equation) with abstract children that return or throw at every point',
   text='Inductive step per node kind: with every child eval() an abstract call that returns or throws any of 7-9 exception kinds (the crash-point quantifier becomes a solver choice), the real eval_internal restores scope, stack and call depth on every exit, normal or throwing; the node-level control flow (order, short circuit, branch selection, break/continue, value) is checked in the same queries.',
   note='new_scope/pop_scope/function-call bookkeeping are counters here (their real code is not yet covered); nodes not listed are not covered yet; the induction over the tree is an argument')
CHECKS['C20'] = dict(tech=T + ' of the lexer kernels started in a state satisfying the line/column invariant, and of Id() with make_node recorders',
   text='Coordinate invariant as an inductive step: from ANY cursor whose (line, col) equal 1 + newlines before it / 1 + bytes since the last newline, each lexer kernel (incl. every backtracking step) ends in a state satisfying the same equation, for all buffers up to N bytes; identifier nodes are created with the coordinates of the identifier\'s first byte. Any history of kernel calls therefore keeps locations exact.',
   note='trace plumbing (AST_Node_Impl::eval appending its own location, innermost first) and the error raised by Id/Fun_Call nodes are not covered yet; file names are not covered')
CHECKS['C14'] = dict(tech=T + ' of every member of Thread_Storage<Stack_Holder> with the per-thread map as a recorder',
   text='Key discipline that yields isolation for every create/use/destroy history on any threads and addresses: the key under which a storage object files per-thread state is never reused by a later object - checked for an arbitrary counter start, an arbitrary number of constructions in between and the second object at the SAME address - and every accessor and the destructor use exactly that key.',
   note='the unordered_map itself is a recorder; counter wrap-around (2^64 constructions) excluded; an IR scan for other process-wide mutable statics is not implemented yet')
CHECKS['C08'] = dict(tech=T + ' (detail::clone_if_necessary, Inline_Array_AST_Node and Constant_AST_Node eval_internal) with abstract children and recorder callees',
   text='The copy rule that keeps literals out of reach of mutation: for every value kind (bool/string/other, arithmetic or not, const or not) a value that is not a pending return value is never stored itself - exactly one copy is made by the documented route; vector literals copy every element once, in order, into a fresh vector per evaluation; Constant and Inline_Array nodes are bit-identical after evaluation.',
   note='the copy routines themselves (Boxed_Number::clone, box constructors, script clone) are recorders; Inline_Map/Assign_Decl not covered yet; constness of literal values is C07/C16')
CHECKS['C03'] = dict(tech=T + ': Operators::to_operator on all operator-alphabet strings, and evaluator nodes (Block, Scopeless_Block, If, While, Logical_And/Or, Equation, Inline_Array) against per-construct reference semantics written in the harness',
   text='Per-construct obligations: every spelling of 1-4 operator characters denotes exactly the operation of the language reference (the hash dispatch confuses none); node-level semantics with abstract children: statement order and block value, branch selection, short circuit, loop/break/continue, assignment order and routing, vector-literal construction. Whole programs follow by induction over the tree (argued).',
   note='precedence/associativity of the parser recursion, For/Ranged_For/Switch/Fun_Call/Lambda/Def/classes are not covered yet; children are abstract')
CHECKS['C15'] = dict(tech=T + ' (Dispatch_Engine::get_state/set_state) with container copy operations as recorders and the lock model of C13',
   text='get_state copies each of the five engine tables into its counterpart of the returned State with the engine mutex held; set_state assigns each of the five tables from the given State with the mutex held unique; locks released on exit.',
   note='container copies are recorders (what a copy contains is libstdc++); snapshot stability under later add_function (copy-on-write), ChaiScript_Basic-level state (used files, modules) are not covered yet')
CHECKS['C02'] = dict(tech=T + ' (optimizer::Dead_Code::optimize on heap nodes with children of symbolic kinds; lemma on the dropped node kinds)',
   text='Local soundness of the Dead_Code rewrite: for blocks of 1-3 children whose kinds are symbolic (identifier, constant, no-op, effectful) the pass drops exactly the non-final Constant/Noop statements and keeps every other child (same node objects, same order, text and location preserved); non-blocks are untouched; the dropped kinds evaluate without calling anything or throwing (Constant lemma).',
   note='only the Dead_Code pass is covered in this session (the other eight passes are outside the claim); composition of local rewrites through build_match is argued')
ALL = ['C%02d' % i for i in range(1, 21)]
def main():
    checks = []
    for pid in ALL:
        if pid in CHECKS:
            c = CHECKS[pid]
            checks.append(dict(property_id=pid, quick_cmd='./check %s --tier quick' % pid, thorough_cmd='./check %s --tier thorough' % pid, evidence_file='evidence/%s.json' % pid,
                               engine='irbmc', technique=c['tech'], level_claimed=dict(category='model_checking', text=c['text'], design_ref='DESIGN.md section 3/' + pid), level_note=c['note'],
                               replay_cmd_template='cat {path}'))
    na = [dict(property_id=p, reason=NA.get(p, 'harness family not built yet in this session (breadth-first order of DESIGN.md section 7); no claim is made')) for p in ALL if p not in CHECKS]
    m = dict(version=1, setup_cmd='./setup.sh',
             hooks=dict(guard='CHAISCRIPT_VERIF', enable='none needed: the checks reach private state with -fno-access-control in their own translation units (inst/*.cpp); /repo carries no hooks',
                        baseline_off_cmd='cmake --build /repo/_build -j16 && ctest --test-dir /repo/_build -j8 --timeout 900', source_commits=[], add_only=True),
             engines=[dict(name='irbmc', path='irbmc/', serves_properties=sorted(CHECKS), kind_free_text='clang-14 LLVM IR of the real headers -> own IR-to-C translator (irbmc/ir2c.py) -> CBMC 6.11 bounded symbolic execution; z3 for hash collisions; counterexamples replayed on a native g++ build of the real code where a replayer exists')],
             checks=checks, not_applicable=na, notes='see DESIGN.md; known_findings.json lists repaired defects (fix: commits in /repo)')
    json.dump(m, open(os.path.join(V, 'MANIFEST.json'), 'w'), indent=1)
if __name__ == '__main__': main()
