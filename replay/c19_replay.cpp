// Replay of C19 counterexamples on the REAL loader: usage c19_replay <hex bytes of the file | -> [missing]
// Writes the bytes to a temporary file and calls ChaiScript_Basic::load_file (private static: built with -fno-access-control).
// exit 1 = the loaded text differs from the file's bytes minus one leading UTF-8 BOM (or a missing file did not raise
// file_not_found_error); exit 0 = as the property demands.
#include <chaiscript/chaiscript_basic.hpp>
#include <cstdio>
#include <string>
#include <unistd.h>
int main(int argc, char **argv) {
  if (argc < 2) return 2;
  std::string hex = argv[1] == std::string("-") ? "" : argv[1], bytes;
  for (size_t i = 0; i + 1 < hex.size(); i += 2) bytes.push_back(static_cast<char>(std::stoi(hex.substr(i, 2), nullptr, 16)));
  char path[] = "/tmp/c19_replay_XXXXXX"; int fd = mkstemp(path); if (fd < 0) return 2;
  if (argc > 2) { close(fd); unlink(path); try { (void)chaiscript::ChaiScript_Basic::load_file(path); printf("missing file: no exception\n"); return 1; }
    catch (const chaiscript::exception::file_not_found_error &) { printf("missing file: file_not_found_error\n"); return 0; } catch (...) { printf("missing file: other exception\n"); return 1; } }
  if (!bytes.empty() && write(fd, bytes.data(), bytes.size()) != static_cast<ssize_t>(bytes.size())) return 2;
  close(fd);
  std::string expect = bytes; if (expect.size() >= 3 && expect.compare(0, 3, "\xef\xbb\xbf") == 0) expect.erase(0, 3);
  std::string got; try { got = chaiscript::ChaiScript_Basic::load_file(path); } catch (const std::exception &e) { unlink(path); printf("exception %s\n", e.what()); return 1; }
  unlink(path);
  printf("file of %zu bytes -> loaded %zu bytes, expected %zu: %s\n", bytes.size(), got.size(), expect.size(), got == expect ? "SAME" : "DIFFERENT");
  return got == expect ? 0 : 1;
}
