// Replay of C11 counterexamples against the REAL code (g++ -fsanitize=address build of /repo's headers).
// usage: c11_replay form <1..9>   the route of harness L1 with an instrumented class instead of int
//        c11_replay forloop       a script whose closure captures the variable of an optimized for loop and uses it after the loop
// exit 0 = lifetimes as the property demands; exit 1 = deviation observed (also ASan's exit code); exit 2 = usage
#include <chaiscript/chaiscript.hpp>
#include <cstdio>
#include <memory>
#include <set>
struct Obj {
  static std::set<const Obj *> &live() { static std::set<const Obj *> s; return s; }
  static int &dtors() { static int n; return n; }
  int v;
  explicit Obj(int x) : v(x) { live().insert(this); }
  Obj(const Obj &o) : v(o.v) { live().insert(this); }
  ~Obj() { live().erase(this); ++dtors(); v = -1; }
};
static int bad(const char *m) { printf("DEVIATION: %s\n", m); return 1; }
using chaiscript::Boxed_Value;
static int form(int f) {
  int rc = 0;
  if (f == 1) {
    { Boxed_Value bv{Obj(7)};
      const Obj *p = static_cast<const Obj *>(bv.get_const_ptr());
      if (!Obj::live().count(p)) return bad("value form: the stored copy is not alive while the Boxed_Value exists");
      if (p->v != 7) return bad("value form: stored copy has another value");
      Boxed_Value copy = bv; bv = Boxed_Value();
      if (!Obj::live().count(p) || static_cast<const Obj *>(copy.get_const_ptr())->v != 7) return bad("value form: the copy died while a Boxed_Value still refers to it"); }
    if (!Obj::live().empty()) return bad("value form: the copy outlives its last referrer");
  } else if (f >= 2 && f <= 5) {
    Obj o(9);
    { Boxed_Value bv = f == 2 ? Boxed_Value(&o) : f == 3 ? Boxed_Value(static_cast<const Obj *>(&o)) : f == 4 ? Boxed_Value(std::ref(o)) : Boxed_Value(std::cref(o));
      if (bv.get_const_ptr() != &o) return bad("pointer/reference form: the Boxed_Value does not refer to the caller's object");
      if (!bv.is_ref()) return bad("pointer/reference form: not marked as a reference"); }
    if (!Obj::live().count(&o) || Obj::dtors() != 0) return bad("pointer/reference form: the caller's object was destroyed");
  } else if (f >= 6 && f <= 8) {
    auto sp = std::make_shared<Obj>(11); const Obj *p = sp.get(); std::shared_ptr<const Obj> csp = sp;
    { Boxed_Value bv = f == 6 ? Boxed_Value(sp) : f == 7 ? Boxed_Value(csp) : Boxed_Value(std::shared_ptr<const Obj>(sp));
      if (bv.get_const_ptr() != p) return bad("shared_ptr form: the Boxed_Value does not refer to the shared object");
      if (sp.use_count() != 3) return bad("shared_ptr form: the Boxed_Value does not hold exactly one share");
      sp.reset(); csp.reset();
      if (!Obj::live().count(p)) return bad("shared_ptr form: object died while the Boxed_Value refers to it"); }
    if (!Obj::live().empty()) return bad("shared_ptr form: object outlives its last referrer");
  } else if (f == 9) {
    auto up = std::make_unique<Obj>(13); const Obj *p = up.get();
    { Boxed_Value bv(std::move(up));
      if (up) return bad("unique_ptr form: ownership was not taken");
      if (bv.get_const_ptr() != p || !Obj::live().count(p)) return bad("unique_ptr form: object not alive / not referred to");
      Boxed_Value copy = bv; bv = Boxed_Value();
      if (!Obj::live().count(p)) return bad("unique_ptr form: object died while a Boxed_Value refers to it"); }
    if (!Obj::live().empty() || Obj::dtors() != 1) return bad("unique_ptr form: object not destroyed exactly once with its last referrer");
  } else return 2;
  printf("OK form %d\n", f);
  return rc;
}
static int forloop() {
  chaiscript::ChaiScript chai;
  int r = chai.eval<int>("var f = fun() { return -1; }; for (var i = 0; i < 3; ++i) { if (i == 1) { f = fun[i]() { return i; }; } }; def clobber(n) { var a = n; var b = a + 1; if (n > 0) { return clobber(n - 1) + b; }; return b; }; clobber(20); f()");
  printf("captured loop variable after the loop: %d\n", r);
  return r == 3 ? 0 : bad("captured loop variable is not the loop's final value");
}
int main(int argc, char **argv) {
  if (argc == 3 && std::string(argv[1]) == "form") return form(atoi(argv[2]));
  if (argc == 2 && std::string(argv[1]) == "forloop") return forloop();
  return 2;
}
