// Minimal driver around the REAL interpreter (full chaiscript.hpp of /repo): evaluates a script file and prints what it prints.
// Used to replay solver counterexamples that have a script-level form (C17 and others) and for presym's differential self-test.
#include <chaiscript/chaiscript.hpp>
#include <fstream>
#include <iostream>
#include <sstream>
int main(int argc, char **argv) {
  if (argc < 2) return 2;
  std::ifstream f(argv[1]); std::stringstream ss; ss << f.rdbuf();
  chaiscript::ChaiScript chai;
  try { chai.eval(ss.str(), chaiscript::exception_specification<const std::exception &>(), argv[1]); }
  catch (const chaiscript::exception::eval_error &e) { std::cout << "EVAL_ERROR " << e.reason << "\n"; return 1; }
  catch (const std::exception &e) { std::cout << "EXCEPTION " << e.what() << "\n"; return 1; }
  catch (...) { std::cout << "UNKNOWN_EXCEPTION\n"; return 1; }
  return 0;
}
