// Replay of a C05 counterexample against the REAL Boxed_Number code (g++ build of /repo's headers).
// usage: c05_replay <ltype> <rtype> <opcode> <lhs-bits-hex> <rhs-bits-hex> <lhs_mutable>
// Prints "REAL: ..." (what ChaiScript did) and "CXX: ..." (what the same expression on the same C++ types does),
// exit 0 = they agree (counterexample NOT confirmed), exit 1 = they differ (confirmed), exit 2 = usage/internal error.
// Built with -fwrapv so that the C++ side has the wrap-around semantics the encoding uses for + - *.
#include <chaiscript/chaiscript_basic.hpp>
#include <cstdio>
#include <cstring>
#include <string>
#include <sys/wait.h>
#include <unistd.h>
#include <limits>
using namespace chaiscript;
using Op = Operators::Opers;

template<typename T> std::string bits(const T &v) { unsigned char b[sizeof(T)]; std::memcpy(b, &v, sizeof(T)); std::string s; char buf[4];
  size_t n = std::is_same_v<T, long double> ? 10 : sizeof(T); for (size_t i = n; i-- > 0;) { snprintf(buf, 4, "%02x", b[i]); s += buf; } return s; }
template<typename T> T from_bits(const char *hex) { unsigned char b[sizeof(T)] = {0}; size_t n = strlen(hex) / 2; size_t m = std::is_same_v<T, long double> ? 10 : sizeof(T);
  for (size_t i = 0; i < n && i < m; i++) { unsigned x; sscanf(hex + 2 * (n - 1 - i), "%2x", &x); b[i] = (unsigned char)x; } T v; std::memcpy(&v, b, sizeof(T)); return v; }

template<typename T> std::string tname() { return typeid(T).name(); }

template<typename L, typename R> std::string expected(Op op, L a, R b, bool mut) {
  constexpr bool ints = !std::is_floating_point_v<L> && !std::is_floating_point_v<R>;
  auto val = [](auto v) { return std::string("value ") + tname<decltype(v)>() + " " + bits(v); };
  auto asg = [&](auto v) { return mut ? std::string("assigned ") + bits(static_cast<L>(v)) : std::string("bad_any_cast"); };
  auto divchk = [&]() -> const char * {
    if constexpr (ints) { using C = decltype(a / b); if (b == 0) return "arithmetic_error";
      if constexpr (std::is_signed_v<C>) { if (static_cast<C>(a) == std::numeric_limits<C>::min() && static_cast<C>(b) == static_cast<C>(-1)) return "some exception"; } }
    return nullptr; };
  switch (op) {
    case Op::equals: return val(a == b); case Op::less_than: return val(a < b); case Op::greater_than: return val(a > b);
    case Op::less_than_equal: return val(a <= b); case Op::greater_than_equal: return val(a >= b); case Op::not_equal: return val(a != b);
    case Op::sum: return val(a + b); case Op::difference: return val(a - b); case Op::product: return val(a * b);
    case Op::quotient: if (auto e = divchk()) return e; return val(a / b);
    case Op::assign: return asg(b); case Op::assign_sum: return asg(a + b); case Op::assign_difference: return asg(a - b); case Op::assign_product: return asg(a * b);
    case Op::assign_quotient: if (!mut) return "bad_any_cast"; if (auto e = divchk()) return e; return asg(a / b);
    default: break;
  }
  if constexpr (ints) {
    switch (op) {
      case Op::remainder: if (auto e = divchk()) return e; return val(a % b);
      case Op::bitwise_and: return val(a & b); case Op::bitwise_or: return val(a | b); case Op::bitwise_xor: return val(a ^ b);
      case Op::shift_left: return val(a << b); case Op::shift_right: return val(a >> b);
      case Op::assign_remainder: if (!mut) return "bad_any_cast"; if (auto e = divchk()) return e; return asg(a % b);
      case Op::assign_bitwise_and: return asg(a & b); case Op::assign_bitwise_or: return asg(a | b); case Op::assign_bitwise_xor: return asg(a ^ b);
      case Op::assign_shift_left: return asg(a << b); case Op::assign_shift_right: return asg(a >> b);
      default: break;
    }
  }
  return "bad_any_cast";
}

template<typename L, typename R> std::string real(Op op, L a, R b, bool mut) {
  Boxed_Value lhs = mut ? var(a) : const_var(a); Boxed_Value rhs = const_var(b);
  try {
    Boxed_Value r = Boxed_Number::do_oper(op, lhs, rhs);
    if (r.get_const_ptr() == lhs.get_const_ptr()) return std::string("assigned ") + bits(*static_cast<const L *>(lhs.get_const_ptr()));
    std::string out = "value "; const std::type_info *ti = r.get_type_info().bare_type_info(); out += ti ? ti->name() : "?"; out += " ";
#define TRY(T) if (r.get_type_info().bare_equal_type_info(typeid(T))) return out + bits(*static_cast<const T *>(r.get_const_ptr()));
    TRY(bool) TRY(signed char) TRY(unsigned char) TRY(short) TRY(unsigned short) TRY(int) TRY(unsigned) TRY(long) TRY(unsigned long) TRY(float) TRY(double) TRY(long double)
    return out + "?";
  } catch (const chaiscript::exception::arithmetic_error &) { return "arithmetic_error";
  } catch (const chaiscript::detail::exception::bad_any_cast &) { return "bad_any_cast";
  } catch (const std::exception &e) { return std::string("exception ") + e.what(); }
}

template<typename L, typename R> int go(Op op, const char *ah, const char *bh, bool mut) {
  L a = from_bits<L>(ah); R b = from_bits<R>(bh);
  std::string exp = expected<L, R>(op, a, b, mut);
  int fd[2]; if (pipe(fd)) return 2;
  pid_t pid = fork();
  if (pid == 0) { close(fd[0]); std::string r = real<L, R>(op, a, b, mut); (void)!write(fd[1], r.data(), r.size()); _exit(0); }
  close(fd[1]); char buf[512]; ssize_t n = read(fd[0], buf, sizeof buf - 1); if (n < 0) n = 0; buf[n] = 0; int st = 0; waitpid(pid, &st, 0);
  std::string got = WIFSIGNALED(st) ? std::string("KILLED BY SIGNAL ") + std::to_string(WTERMSIG(st)) : std::string(buf);
  printf("REAL: %s\nCXX:  %s\n", got.c_str(), exp.c_str());
  bool agree = (got == exp) || (exp == "some exception" && (got == "arithmetic_error" || got.rfind("exception", 0) == 0));
  printf("%s\n", agree ? "AGREE" : "DIFFER");
  return agree ? 0 : 1;
}

template<typename L> int pickR(const std::string &r, Op op, const char *a, const char *b, bool m) {
#define R_(n, T) if (r == n) return go<L, T>(op, a, b, m);
  R_("int8", signed char) R_("uint8", unsigned char) R_("int16", short) R_("uint16", unsigned short) R_("int32", int) R_("uint32", unsigned) R_("int64", long)
  R_("uint64", unsigned long) R_("float", float) R_("double", double) R_("ldouble", long double)
  return 2;
}
int main(int argc, char **argv) {
  if (argc != 7) { fprintf(stderr, "usage\n"); return 2; }
  std::string l = argv[1], r = argv[2]; Op op = static_cast<Op>(atoi(argv[3])); bool m = atoi(argv[6]) != 0;
#define L_(n, T) if (l == n) return pickR<T>(r, op, argv[4], argv[5], m);
  L_("int8", signed char) L_("uint8", unsigned char) L_("int16", short) L_("uint16", unsigned short) L_("int32", int) L_("uint32", unsigned) L_("int64", long)
  L_("uint64", unsigned long) L_("float", float) L_("double", double) L_("ldouble", long double)
  return 2;
}
