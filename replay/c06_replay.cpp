// Replay of C06 D3 counterexamples on the REAL boxed_cast (g++ build of /repo's headers).
// usage: c06_replay <form 1..5> <boxtype: int|double|other|intptr> <const 0|1>
// Boxes an object of the given actual type and casts it to the parameter form over int (1 int, 2 const int&, 3 int&, 4 int*, 5 const int*).
// exit 1 = the cast handed the object to C++ although its actual type is not int (or is const for a mutable form); exit 0 = refused / legitimately accepted.
#include <chaiscript/dispatchkit/boxed_cast.hpp>
#include <chaiscript/dispatchkit/boxed_value.hpp>
#include <cstdio>
#include <cstring>
using namespace chaiscript;
struct Other { int x = 5; };
template<typename T> bool accepts(const Boxed_Value &bv) { try { decltype(auto) r = boxed_cast<T>(bv); (void)r; return true; } catch (const std::exception &) { return false; } }
int main(int argc, char **argv) {
  if (argc != 4) return 2;
  int form = atoi(argv[1]); bool cst = atoi(argv[3]) != 0; std::string t = argv[2];
  static int i = 7; static double d = 1.5; static Other o; static int *ip = &i;
  Boxed_Value bv = t == "int" ? (cst ? const_var(i) : var(&i)) : t == "double" ? (cst ? const_var(d) : var(&d)) : t == "other" ? (cst ? Boxed_Value(std::cref(o)) : var(&o)) : (cst ? Boxed_Value(std::cref(ip)) : var(&ip));
  bool acc = form == 1 ? accepts<int>(bv) : form == 2 ? accepts<const int &>(bv) : form == 3 ? accepts<int &>(bv) : form == 4 ? accepts<int *>(bv) : accepts<const int *>(bv);
  bool mutable_form = form == 3 || form == 4;
  bool should = t == "int" && !(mutable_form && cst);
  printf("box of %s%s -> form %d: %s (property: %s)\n", cst ? "const " : "", t.c_str(), form, acc ? "ACCEPTED" : "refused", should ? "accept" : "refuse");
  return (acc && !should) ? 1 : 0;
}
