// Replay of C18 J1 counterexamples on the REAL json code: usage c18_replay <hex bytes of the string | ->
// exit 1 = from_json(to_json(s)) != s (or an exception); exit 0 = round trip is the identity.
#include <chaiscript/chaiscript_basic.hpp>
#include <chaiscript/utility/json.hpp>
#include <cstdio>
#include <string>
int main(int argc, char **argv) {
  if (argc < 2) return 2;
  std::string hex = argv[1] == std::string("-") ? "" : argv[1], s;
  for (size_t i = 0; i + 1 < hex.size(); i += 2) s.push_back(static_cast<char>(std::stoi(hex.substr(i, 2), nullptr, 16)));
  try {
    chaiscript::json::JSON j(s); std::string text = j.dump();
    chaiscript::json::JSON back = chaiscript::json::JSON::Load(text);
    std::string r = back.to_string();
    printf("to_json -> %zu bytes; from_json -> %zu bytes: %s\n", text.size(), r.size(), r == s ? "SAME" : "DIFFERENT");
    return r == s ? 0 : 1;
  } catch (const std::exception &e) { printf("exception %s\n", e.what()); return 1; }
}
