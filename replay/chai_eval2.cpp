// Differential driver around the REAL interpreter: evaluates a script file with the default engine (optimizer on) and/or with an engine
// whose parser runs an identity optimizer (no pass changes any node), printing what each prints.  usage: chai_eval2 <opt|noopt> file
#include <chaiscript/chaiscript.hpp>
#include <fstream>
#include <iostream>
#include <sstream>
struct No_Pass { template<typename T> auto optimize(chaiscript::eval::AST_Node_Impl_Ptr<T> p) { return p; } };
template<typename Engine> int run(Engine &chai, const std::string &text, const char *name) {
  try { chai.eval(text, chaiscript::exception_specification<const std::exception &>(), name); }
  catch (const chaiscript::exception::eval_error &e) { std::cout << "EVAL_ERROR " << e.reason << "\n"; return 1; }
  catch (const std::exception &e) { std::cout << "EXCEPTION " << e.what() << "\n"; return 1; }
  catch (...) { std::cout << "UNKNOWN_EXCEPTION\n"; return 1; }
  return 0;
}
int main(int argc, char **argv) {
  if (argc < 3) return 2;
  std::ifstream f(argv[2]); std::stringstream ss; ss << f.rdbuf();
  if (std::string(argv[1]) == "opt") { chaiscript::ChaiScript chai; return run(chai, ss.str(), argv[2]); }
  using Parser = chaiscript::parser::ChaiScript_Parser<chaiscript::eval::Noop_Tracer, chaiscript::optimizer::Optimizer<No_Pass>>;
  chaiscript::ChaiScript_Basic chai(chaiscript::Std_Lib::library(), std::make_unique<Parser>());
  return run(chai, ss.str(), argv[2]);
}
